import PegVerif.Proofs.LinkLemmas
/-
  The structural fields of `World` for the program `compileAll` emits for a grammar that may contain
  `-switch` nodes (`ualt`), `-inline` off, AST mode.

  With `ualt` the dry pass (which compiles every case body WITHOUT `parentDetect`) can print more
  jumps than the real pass (which elides the leading terminal test of a case body, and with it the
  jump).  `Pre.used` only needs "every jump of the real pass was recorded by the dry pass":

  * `compile_jumps_sub`   jumps (real) ⊆ jumps (dry), label numbering being identical
                          (`compile_st_indep`);
  * `compileRules_findS`  shape of the entries of the emitted program, with that inclusion;
  * `Expr.okS`            the decidable version of `Expr.fineS`; `GrammarOKS`;
  * `compileAll_worldS`   the `World` of `compileAll`.
-/
namespace PegVerif

/-! ### 1. Jumps of any pass are jumps of the dry pass -/

theorem sub_app {α} {a a' b b' : List α} (h1 : a ⊆ a') (h2 : b ⊆ b') : a ++ b ⊆ a' ++ b' := by
  intro x hx
  rcases List.mem_append.mp hx with h | h
  · exact List.mem_append_left _ (h1 h)
  · exact List.mem_append_right _ (h2 h)

theorem jumps_brk (c : Bool) (sw : Nat) : jumps (if c = true then [Instr.brk sw] else []) = [] := by
  cases c <;> rfl

/-- Closes the inclusion goals once the recursive facts are in context. -/
macro "sub_close" : tactic =>
  `(tactic| (
    repeat (first | assumption | exact List.Subset.refl _ | apply sub_app)))

mutual
  theorem compile_jumps_sub (env env' : CEnv) (ha : env.always = env'.always) :
      ∀ (e : Expr) (ko : Nat) (pd pmk : Bool) (st : CSt),
      jumps (compile env e ko pd pmk st).code ⊆ jumps (compile env' e ko pd pmk st).code
    | .dot, ko, pd, pmk, st => by cases pd <;> simp [compile, jumps, Instr.target?]
    | .name n, ko, pd, pmk, st => by simp only [compile, ha]; exact List.Subset.refl _
    | .inl n e, ko, pd, pmk, st => by
      simpa only [compile] using compile_jumps_sub env env' ha e ko pd pmk st
    | .rng lo hi, ko, pd, pmk, st => by cases pd <;> simp [compile, jumps, Instr.target?]
    | .chr c, ko, pd, pmk, st => by cases pd <;> cases pmk <;> simp [compile, jumps, Instr.target?]
    | .str s, ko, pd, pmk, st => by simp only [compile]; exact List.Subset.refl _
    | .pred c, ko, pd, pmk, st => by simp only [compile]; exact List.Subset.refl _
    | .stmt c, ko, pd, pmk, st => by simp only [compile]; exact List.Subset.refl _
    | .act c, ko, pd, pmk, st => by simp only [compile]; exact List.Subset.refl _
    | .nil, ko, pd, pmk, st => by simp only [compile]; exact List.Subset.refl _
    | .push e r, ko, pd, pmk, st => by
      rw [jumps_push, jumps_push]
      exact compile_jumps_sub env env' ha e ko pd pmk _
    | .ipush e r, ko, pd, pmk, st => by
      rw [jumps_ipush, jumps_ipush]
      exact compile_jumps_sub env env' ha e ko pd pmk _
    | .alt es, ko, pd, pmk, st => by
      have h := compileAlt_jumps_sub env env' ha es st.label ko pd pmk ⟨st.label + 1, st.sw⟩
      simp only [compile, jumps_append, jumps_lbl]
      sub_close
    | .ualt ks es, ko, pd, pmk, st => by
      have h := compileCases_jumps_sub env env' ha ks es st.sw 0 ko ⟨st.label + 1, st.sw + 1⟩
      simp only [compile, jumps_append, jumps_lbl]
      sub_close
    | .seq es, ko, pd, pmk, st => by
      simpa only [compile] using compileSeq_jumps_sub env env' ha es ko pd pmk st
    | .peekFor e, ko, pd, pmk, st => by
      have h := compile_jumps_sub env env' ha e ko false false ⟨st.label + 1, st.sw⟩
      simp only [compile, jumps_append]
      sub_close
    | .peekNot e, ko, pd, pmk, st => by
      have h := compile_jumps_sub env env' ha e st.label false false ⟨st.label + 1, st.sw⟩
      simp only [compile, jumps_append, jumps_lbl]
      sub_close
    | .query e, ko, pd, pmk, st => by
      have h := compile_jumps_sub env env' ha e st.label pd pmk ⟨st.label + 2, st.sw⟩
      simp only [compile, jumps_append, jumps_lbl]
      sub_close
    | .star e, ko, pd, pmk, st => by
      have h := compile_jumps_sub env env' ha e (st.label + 1) false false ⟨st.label + 2, st.sw⟩
      simp only [compile, jumps_append, jumps_lbl]
      sub_close
    | .plus e, ko, pd, pmk, st => by
      have hs := compile_st_indep env env' e ko ko false false false false ⟨st.label + 2, st.sw⟩
      have h1 := compile_jumps_sub env env' ha e ko false false ⟨st.label + 2, st.sw⟩
      have h2 := compile_jumps_sub env env' ha e (st.label + 1) false false
        (compile env e ko false false ⟨st.label + 2, st.sw⟩).st
      simp only [compile, jumps_append, jumps_lbl, ← hs]
      sub_close
  theorem compileSeq_jumps_sub (env env' : CEnv) (ha : env.always = env'.always) :
      ∀ (es : List Expr) (ko : Nat) (pd pmk : Bool) (st : CSt),
      jumps (compileSeq env es ko pd pmk st).code ⊆ jumps (compileSeq env' es ko pd pmk st).code
    | [], ko, pd, pmk, st => by simp only [compileSeq]; exact List.Subset.refl _
    | [e], ko, pd, pmk, st => by
      simpa only [compileSeq] using compile_jumps_sub env env' ha e ko pd pmk st
    | e :: e' :: es, ko, pd, pmk, st => by
      have hs := compile_st_indep env env' e ko ko pd pmk pd pmk st
      have h1 := compile_jumps_sub env env' ha e ko pd pmk st
      have h2 := compileSeq_jumps_sub env env' ha (e' :: es) ko false false
        (compile env e ko pd pmk st).st
      simp only [compileSeq, jumps_append, ← hs]
      sub_close
  theorem compileAlt_jumps_sub (env env' : CEnv) (ha : env.always = env'.always) :
      ∀ (es : List Expr) (ok ko : Nat) (pd pmk : Bool) (st : CSt),
      jumps (compileAlt env es ok ko pd pmk st).code ⊆ jumps (compileAlt env' es ok ko pd pmk st).code
    | [], ok, ko, pd, pmk, st => by simp only [compileAlt]; exact List.Subset.refl _
    | [e], ok, ko, pd, pmk, st => by
      simpa only [compileAlt] using compile_jumps_sub env env' ha e ko pd pmk st
    | e :: e' :: es, ok, ko, pd, pmk, st => by
      have hs := compile_st_indep env env' e st.label st.label pd pmk pd pmk ⟨st.label + 1, st.sw⟩
      have h1 := compile_jumps_sub env env' ha e st.label pd pmk ⟨st.label + 1, st.sw⟩
      have h2 := compileAlt_jumps_sub env env' ha (e' :: es) ok ko false false
        (compile env e st.label pd pmk ⟨st.label + 1, st.sw⟩).st
      simp only [compileAlt, jumps_append, jumps_lbl, ← hs]
      sub_close
  theorem compileCases_jumps_sub (env env' : CEnv) (ha : env.always = env'.always) :
      ∀ (ks : List KeySet) (es : List Expr) (sw i done : Nat) (st : CSt),
      jumps (compileCases env ks es sw i done st).code ⊆ jumps (compileCases env' ks es sw i done st).code
    | ks, [], sw, i, done, st => by simp only [compileCases]; exact List.Subset.refl _
    | ks, [e], sw, i, done, st => by
      have h := compile_jumps_sub env env' ha e done false false st
      simp only [compileCases, jumps_append, jumps_brk]
      sub_close
    | ks, e :: e' :: es, sw, i, done, st => by
      have hs := compile_st_indep env env' e done done true
        (decide ((ks.headD []).card > 1)) true (decide ((ks.headD []).card > 1)) st
      have h1 := compile_jumps_sub env env' ha e done true
        (decide ((ks.headD []).card > 1)) st
      have h2 := compileCases_jumps_sub env env' ha ks.tail (e' :: es) sw (i + 1) done
        (compile env e done true (decide ((ks.headD []).card > 1)) st).st
      simp only [compileCases, jumps_append, jumps_brk, ← hs]
      sub_close
end

/-! ### 2. The per-rule loop -/

/-- `compileRules_find` without the `noUalt` restriction: an emitted function is the `ruleFunc` of
    the first rule with that name, and its jumps were printed by any pass with `dry = true` that
    agrees on `always` (the dry pass). -/
theorem compileRules_findS {o : Opts} {env env' : CEnv} {cnt : String → Nat} {bodyOf : Rule → Expr}
    (ha : env.always = env'.always) (n : String) :
    ∀ (rules : List Rule) (st : CSt) (cr : Code),
      (compileRules o env cnt bodyOf rules st).find n = some cr →
      ∃ (r : Rule) (ko sw : Nat), rules.find? (fun r => r.name == n) = some r ∧
        slotOf o cnt r ko = .func ∧ cr = (ruleFunc env r (bodyOf r) ko ⟨ko + 1, sw⟩).1 ∧
        ∀ l ∈ jumps cr, l ∈ (compileRules o env' cnt bodyOf rules st).jumps
  | [], st, cr, h => by simp [compileRules, Program.find] at h
  | r :: rs, st, cr, h => by
    rw [compileRules_cons, Program.find_cons] at h
    rw [compileRules_cons]
    dsimp only at h
    by_cases hn : (r.name == n) = true
    · rw [if_pos hn] at h
      obtain ⟨hs, hcr⟩ := slotCode_eq_some h
      refine ⟨r, st.label, st.sw, by simp [hn], hs, hcr, ?_⟩
      intro l hl
      refine Program.mem_jumps.mpr ⟨⟨r.name, slotCode o env' cnt bodyOf r st⟩,
        List.mem_cons_self .., (ruleFunc env' r (bodyOf r) st.label ⟨st.label + 1, st.sw⟩).1,
        by simp [slotCode, hs], ?_⟩
      rw [jumps_ruleFunc]
      apply compile_jumps_sub env env' ha
      rw [← jumps_ruleFunc, ← hcr]
      exact hl
    · rw [if_neg hn] at h
      obtain ⟨r', ko, sw, h1, h2, h3, h4⟩ := compileRules_findS ha n rs _ cr h
      refine ⟨r', ko, sw, by simp [hn, h1], h2, h3, ?_⟩
      intro l hl
      have := h4 l hl
      rw [slotSt_indep o env env'] at this
      obtain ⟨rc, hrc, c, hc, hlc⟩ := Program.mem_jumps.mp this
      exact Program.mem_jumps.mpr ⟨rc, List.mem_cons_of_mem _ hrc, c, hc, hlc⟩

/-! ### 3. The checkable condition on a grammar with `-switch` nodes -/

mutual
  /-- The decidable version of `Expr.fineS`; `d n` = "rule `n` gets a function". -/
  def Expr.okS (d : String → Bool) : Expr → Bool
    | .chr c => c != END
    | .rng _ hi => decide (hi < END)
    | .str _ => false
    | .name n => d n
    | .inl _ e => e.okS d
    | .seq es => okSL d es
    | .alt es => okSL d es
    | .ualt ks es => !es.isEmpty && okSL d es && casesLeadOK ks es
    | .peekFor e => e.okS d
    | .peekNot e => e.okS d
    | .query e => e.okS d
    | .star e => e.okS d
    | .plus e => e.okS d
    | .push e _ => e.okS d
    | .ipush e _ => e.okS d
    | _ => true
  def okSL (d : String → Bool) : List Expr → Bool
    | [] => true
    | e :: es => e.okS d && okSL d es
end

mutual
  theorem okS_fineS {P : Program} {d : String → Bool}
      (hd : ∀ n, d n = true → (P.find n).isSome = true) : ∀ (e : Expr), e.okS d = true → e.fineS P
    | .dot, _ => by simp only [Expr.fineS]
    | .chr c, h => by simpa [Expr.okS, Expr.fineS] using h
    | .rng _ hi, h => by simpa [Expr.okS, Expr.fineS] using h
    | .str _, h => by simp [Expr.okS] at h
    | .name n, h => by simp only [Expr.okS] at h; simp only [Expr.fineS]; exact hd n h
    | .pred _, _ => by simp only [Expr.fineS]
    | .stmt _, _ => by simp only [Expr.fineS]
    | .act _, _ => by simp only [Expr.fineS]
    | .nil, _ => by simp only [Expr.fineS]
    | .ualt ks es, h => by
      simp only [Expr.okS, Bool.and_eq_true, Bool.not_eq_true', List.isEmpty_eq_false_iff] at h
      simp only [Expr.fineS]
      exact ⟨h.1.1, okSL_fineSL hd es h.1.2, h.2⟩
    | .inl _ e, h => by
      simp only [Expr.okS] at h; simp only [Expr.fineS]; exact okS_fineS hd e h
    | .seq es, h => by
      simp only [Expr.okS] at h; simp only [Expr.fineS]; exact okSL_fineSL hd es h
    | .alt es, h => by
      simp only [Expr.okS] at h; simp only [Expr.fineS]; exact okSL_fineSL hd es h
    | .peekFor e, h => by
      simp only [Expr.okS] at h; simp only [Expr.fineS]; exact okS_fineS hd e h
    | .peekNot e, h => by
      simp only [Expr.okS] at h; simp only [Expr.fineS]; exact okS_fineS hd e h
    | .query e, h => by
      simp only [Expr.okS] at h; simp only [Expr.fineS]; exact okS_fineS hd e h
    | .star e, h => by
      simp only [Expr.okS] at h; simp only [Expr.fineS]; exact okS_fineS hd e h
    | .plus e, h => by
      simp only [Expr.okS] at h; simp only [Expr.fineS]; exact okS_fineS hd e h
    | .push e _, h => by
      simp only [Expr.okS] at h; simp only [Expr.fineS]; exact okS_fineS hd e h
    | .ipush e _, h => by
      simp only [Expr.okS] at h; simp only [Expr.fineS]; exact okS_fineS hd e h
  theorem okSL_fineSL {P : Program} {d : String → Bool}
      (hd : ∀ n, d n = true → (P.find n).isSome = true) : ∀ (es : List Expr), okSL d es = true → fineSL P es
    | [], _ => by simp only [fineSL]
    | e :: es, h => by
      simp only [okSL, Bool.and_eq_true] at h
      simp only [fineSL]
      exact ⟨okS_fineS hd e h.1, okSL_fineSL hd es h.2⟩
end

mutual
  /-- `okS` extends `okB`: a grammar without `-switch` nodes that passes the old check passes the new. -/
  theorem okB_okS (d : String → Bool) : ∀ (e : Expr), e.okB d = true → e.okS d = true
    | .dot, _ => rfl
    | .chr _, h => by simpa only [Expr.okB, Expr.okS] using h
    | .rng _ _, h => by simpa only [Expr.okB, Expr.okS] using h
    | .str _, h => by simp [Expr.okB] at h
    | .name _, h => by simpa only [Expr.okB, Expr.okS] using h
    | .pred _, _ => rfl
    | .stmt _, _ => rfl
    | .act _, _ => rfl
    | .nil, _ => rfl
    | .ualt _ _, h => by simp [Expr.okB] at h
    | .inl _ e, h => by simp only [Expr.okB] at h; simp only [Expr.okS]; exact okB_okS d e h
    | .seq es, h => by simp only [Expr.okB] at h; simp only [Expr.okS]; exact okBL_okSL d es h
    | .alt es, h => by simp only [Expr.okB] at h; simp only [Expr.okS]; exact okBL_okSL d es h
    | .peekFor e, h => by simp only [Expr.okB] at h; simp only [Expr.okS]; exact okB_okS d e h
    | .peekNot e, h => by simp only [Expr.okB] at h; simp only [Expr.okS]; exact okB_okS d e h
    | .query e, h => by simp only [Expr.okB] at h; simp only [Expr.okS]; exact okB_okS d e h
    | .star e, h => by simp only [Expr.okB] at h; simp only [Expr.okS]; exact okB_okS d e h
    | .plus e, h => by simp only [Expr.okB] at h; simp only [Expr.okS]; exact okB_okS d e h
    | .push e _, h => by simp only [Expr.okB] at h; simp only [Expr.okS]; exact okB_okS d e h
    | .ipush e _, h => by simp only [Expr.okB] at h; simp only [Expr.okS]; exact okB_okS d e h
  theorem okBL_okSL (d : String → Bool) : ∀ (es : List Expr), okBL d es = true → okSL d es = true
    | [], _ => rfl
    | e :: es, h => by
      simp only [okBL, Bool.and_eq_true] at h
      simp only [okSL, Bool.and_eq_true]
      exact ⟨okB_okS d e h.1, okBL_okSL d es h.2⟩
end

/-- A rule is fine if it gets no function, or its body is in the fragment of `Expr.fineS` and only
    references rules that get a function. -/
def ruleOKS (G : Grammar) (r : Rule) : Bool :=
  r.body.isNil || rulesCount G r.name == 0 || r.body.okS (hasFunc G)

/-- The condition on the linked and `-switch`-rewritten grammar: every rule that `t.Rules[name]`
    can return (the first of its name) is `ruleOKS`. -/
def GrammarOKS (G : Grammar) : Bool :=
  G.rules.all fun r => match G.find r.name with
    | some r' => ruleOKS G r'
    | none => true

theorem GrammarOKS.rule {G : Grammar} (hG : GrammarOKS G = true) {n : String} {r : Rule}
    (h : G.find n = some r) : ruleOKS G r = true := by
  unfold Grammar.find at h
  have hmem := List.mem_of_find?_eq_some h
  have hname : r.name = n := by simpa using List.find?_some h
  have := List.all_eq_true.mp hG r hmem
  unfold Grammar.find at this
  rw [hname, h] at this
  exact this

theorem GrammarOK.toS {G : Grammar} (hG : GrammarOK G = true) : GrammarOKS G = true := by
  unfold GrammarOKS
  unfold GrammarOK at hG
  rw [List.all_eq_true] at hG ⊢
  intro r hr
  have := hG r hr
  cases hf : G.find r.name with
  | none => rfl
  | some r' =>
    simp only [hf] at this ⊢
    simp only [ruleOK, ruleOKS, Bool.or_eq_true] at this ⊢
    rcases this with h | h
    · exact Or.inl h
    · exact Or.inr (okB_okS _ _ h)

/-! ### 4. `compileAll` -/

/-- The structural assumptions of the refinement theorem hold for the program `compileAll` emits
    for a `GrammarOKS` grammar — which may contain `-switch` nodes (`-inline` off). -/
theorem compileAll_worldS {G : Grammar} {o : Opts} {cfg : Cfg} {inp : List Sym}
    (hinl : o.inline = false) (hast : o.ast = true)
    (hcfg : cfg.ast = true)
    (hinp : ∀ c ∈ inp, c ≠ END)
    (hG : GrammarOKS G = true) (hL : LinkedOK G = true)
    (halways : ∀ n, alwaysSucceeds G n = true →
      ∀ p evs, ¬ Eval G cfg.rho inp (.name n) p .fail evs) :
    World (compileAll o G) cfg (realEnv o G) G inp where
  ast := hcfg
  envAst := hast
  inpOK := hinp
  always := halways
  idInj := by
    intro n1 n2 h1 h2 hid
    have g : ∀ n, ((compileAll o G).find n).isSome = true → (G.find n).isSome = true := by
      intro n hn
      obtain ⟨cr, hfind⟩ := Option.isSome_iff_exists.mp hn
      rw [compileAll_eq] at hfind
      obtain ⟨r, ko, sw, hr, _⟩ :=
        compileRules_findS (env' := dryEnv o G) (rfl : (realEnv o G).always = (dryEnv o G).always)
          n G.rules ⟨0, 0⟩ cr hfind
      have hfindG : G.find n = some r := hr
      rw [hfindG]; rfl
    exact LinkedOK.idInj hL (g n1 h1) (g n2 h2) hid
  rules := by
    intro n cr hfind
    rw [compileAll_eq] at hfind
    obtain ⟨r, ko, sw, hr, hslot, hcr, hj⟩ :=
      compileRules_findS (env' := dryEnv o G) (rfl : (realEnv o G).always = (dryEnv o G).always)
        n G.rules ⟨0, 0⟩ cr hfind
    have hbody : bodyOf o G r = r.body := by simp [bodyOf, hinl]
    rw [hbody] at hcr
    have hfindG : G.find n = some r := hr
    rw [slotOf_noinline hinl] at hslot
    have hnil : r.body.isNil = false := by
      cases h : r.body.isNil <;> simp [h] at hslot ⊢
    have hcnt : (rulesCount G r.name == 0) = false := by
      cases h : rulesCount G r.name == 0 <;> simp [hnil, h] at hslot ⊢
    have hok : r.body.okS (hasFunc G) = true := by
      have := GrammarOKS.rule hG hfindG
      simpa [ruleOKS, hnil, hcnt] using this
    refine ⟨r, r.body, ko, ⟨ko + 1, sw⟩, by simp [Grammar.body, hfindG], hcr,
      Nat.lt_succ_self ko, ?_, ?_, ?_, ?_, ?_⟩
    · rw [hcr]; exact ruleFunc_uniq _ _ _ _ _ (Nat.lt_succ_self ko)
    · intro l hl
      have := hj l hl
      simpa [realEnv, dryJumps] using this
    · exact okS_fineS (fun m hm => compileAll_hasFunc hinl m hm) _ hok
    · simp [Grammar.idOf, hfindG]
    · exact LinkedOK.shape hL hfindG hnil

end PegVerif

#print axioms PegVerif.compileAll_worldS
