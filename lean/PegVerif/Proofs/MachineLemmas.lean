import PegVerif.Model.Machine
/-
  The machine is deterministic, and the fuelled interpreter `execF` (the executable side used by
  the T-run tie) only returns results that the relation `Exec` allows.
-/
namespace PegVerif

variable {P : Program} {cfg : Cfg} {inp : List Sym}

theorem Exec_det {c pc s f r1 r2} (h1 : Exec P cfg inp c pc s f r1) (h2 : Exec P cfg inp c pc s f r2) :
    r1 = r2 := by
  induction h1 generalizing r2 with
  | next hi hs hr ih =>
    cases h2 with
    | next hi' hs' hr' => first | rfl | (rw [hi] at hi'; cases hi'; rw [hs] at hs'; cases hs'; exact ih hr' <;> first | done | rfl)
    | jump hi' hs' hl' hr' => first | rfl | (rw [hi] at hi'; cases hi'; rw [hs] at hs'; cases hs' <;> first | done | rfl)
    | sjump hi' hs' hl' hr' => first | rfl | (rw [hi] at hi'; cases hi'; rw [hs] at hs'; cases hs' <;> first | done | rfl)
    | sexit hi' hs' hl' hr' => first | rfl | (rw [hi] at hi'; cases hi'; rw [hs] at hs'; cases hs' <;> first | done | rfl)
    | ret hi' hs' => first | rfl | (rw [hi] at hi'; cases hi'; rw [hs] at hs'; cases hs' <;> first | done | rfl)
    | panic hi' hs' => first | rfl | (rw [hi] at hi'; cases hi'; rw [hs] at hs'; cases hs' <;> first | done | rfl)
    | callNil hi' hs' hf' => first | rfl | (rw [hi] at hi'; cases hi'; rw [hs] at hs'; cases hs' <;> first | done | rfl)
    | callPanic hi' hs' hf' hc' => first | rfl | (rw [hi] at hi'; cases hi'; rw [hs] at hs'; cases hs' <;> first | done | rfl)
    | callOk hi' hs' hf' hc' hb' hr' => first | rfl | (rw [hi] at hi'; cases hi'; rw [hs] at hs'; cases hs' <;> first | done | rfl)
    | callFail hi' hs' hf' hc' hl' hr' => first | rfl | (rw [hi] at hi'; cases hi'; rw [hs] at hs'; cases hs' <;> first | done | rfl)
  | jump hi hs hl hr ih =>
    cases h2 with
    | next hi' hs' hr' => first | rfl | (rw [hi] at hi'; cases hi'; rw [hs] at hs'; cases hs' <;> first | done | rfl)
    | jump hi' hs' hl' hr' => first | rfl | (rw [hi] at hi'; cases hi'; rw [hs] at hs'; cases hs'; rw [hl] at hl'; cases hl'; exact ih hr' <;> first | done | rfl)
    | sjump hi' hs' hl' hr' => first | rfl | (rw [hi] at hi'; cases hi'; rw [hs] at hs'; cases hs' <;> first | done | rfl)
    | sexit hi' hs' hl' hr' => first | rfl | (rw [hi] at hi'; cases hi'; rw [hs] at hs'; cases hs' <;> first | done | rfl)
    | ret hi' hs' => first | rfl | (rw [hi] at hi'; cases hi'; rw [hs] at hs'; cases hs' <;> first | done | rfl)
    | panic hi' hs' => first | rfl | (rw [hi] at hi'; cases hi'; rw [hs] at hs'; cases hs' <;> first | done | rfl)
    | callNil hi' hs' hf' => first | rfl | (rw [hi] at hi'; cases hi'; rw [hs] at hs'; cases hs' <;> first | done | rfl)
    | callPanic hi' hs' hf' hc' => first | rfl | (rw [hi] at hi'; cases hi'; rw [hs] at hs'; cases hs' <;> first | done | rfl)
    | callOk hi' hs' hf' hc' hb' hr' => first | rfl | (rw [hi] at hi'; cases hi'; rw [hs] at hs'; cases hs' <;> first | done | rfl)
    | callFail hi' hs' hf' hc' hl' hr' => first | rfl | (rw [hi] at hi'; cases hi'; rw [hs] at hs'; cases hs' <;> first | done | rfl)
  | sjump hi hs hl hr ih =>
    cases h2 with
    | next hi' hs' hr' => first | rfl | (rw [hi] at hi'; cases hi'; rw [hs] at hs'; cases hs' <;> first | done | rfl)
    | jump hi' hs' hl' hr' => first | rfl | (rw [hi] at hi'; cases hi'; rw [hs] at hs'; cases hs' <;> first | done | rfl)
    | sjump hi' hs' hl' hr' => first | rfl | (rw [hi] at hi'; cases hi'; rw [hs] at hs'; cases hs'; rw [hl] at hl'; cases hl'; exact ih hr' <;> first | done | rfl)
    | sexit hi' hs' hl' hr' => first | rfl | (rw [hi] at hi'; cases hi'; rw [hs] at hs'; cases hs' <;> first | done | rfl)
    | ret hi' hs' => first | rfl | (rw [hi] at hi'; cases hi'; rw [hs] at hs'; cases hs' <;> first | done | rfl)
    | panic hi' hs' => first | rfl | (rw [hi] at hi'; cases hi'; rw [hs] at hs'; cases hs' <;> first | done | rfl)
    | callNil hi' hs' hf' => first | rfl | (rw [hi] at hi'; cases hi'; rw [hs] at hs'; cases hs' <;> first | done | rfl)
    | callPanic hi' hs' hf' hc' => first | rfl | (rw [hi] at hi'; cases hi'; rw [hs] at hs'; cases hs' <;> first | done | rfl)
    | callOk hi' hs' hf' hc' hb' hr' => first | rfl | (rw [hi] at hi'; cases hi'; rw [hs] at hs'; cases hs' <;> first | done | rfl)
    | callFail hi' hs' hf' hc' hl' hr' => first | rfl | (rw [hi] at hi'; cases hi'; rw [hs] at hs'; cases hs' <;> first | done | rfl)
  | sexit hi hs hl hr ih =>
    cases h2 with
    | next hi' hs' hr' => first | rfl | (rw [hi] at hi'; cases hi'; rw [hs] at hs'; cases hs' <;> first | done | rfl)
    | jump hi' hs' hl' hr' => first | rfl | (rw [hi] at hi'; cases hi'; rw [hs] at hs'; cases hs' <;> first | done | rfl)
    | sjump hi' hs' hl' hr' => first | rfl | (rw [hi] at hi'; cases hi'; rw [hs] at hs'; cases hs' <;> first | done | rfl)
    | sexit hi' hs' hl' hr' => first | rfl | (rw [hi] at hi'; cases hi'; rw [hs] at hs'; cases hs'; rw [hl] at hl'; cases hl'; exact ih hr' <;> first | done | rfl)
    | ret hi' hs' => first | rfl | (rw [hi] at hi'; cases hi'; rw [hs] at hs'; cases hs' <;> first | done | rfl)
    | panic hi' hs' => first | rfl | (rw [hi] at hi'; cases hi'; rw [hs] at hs'; cases hs' <;> first | done | rfl)
    | callNil hi' hs' hf' => first | rfl | (rw [hi] at hi'; cases hi'; rw [hs] at hs'; cases hs' <;> first | done | rfl)
    | callPanic hi' hs' hf' hc' => first | rfl | (rw [hi] at hi'; cases hi'; rw [hs] at hs'; cases hs' <;> first | done | rfl)
    | callOk hi' hs' hf' hc' hb' hr' => first | rfl | (rw [hi] at hi'; cases hi'; rw [hs] at hs'; cases hs' <;> first | done | rfl)
    | callFail hi' hs' hf' hc' hl' hr' => first | rfl | (rw [hi] at hi'; cases hi'; rw [hs] at hs'; cases hs' <;> first | done | rfl)
  | ret hi hs =>
    cases h2 with
    | next hi' hs' hr' => first | rfl | (rw [hi] at hi'; cases hi'; rw [hs] at hs'; cases hs' <;> first | done | rfl)
    | jump hi' hs' hl' hr' => first | rfl | (rw [hi] at hi'; cases hi'; rw [hs] at hs'; cases hs' <;> first | done | rfl)
    | sjump hi' hs' hl' hr' => first | rfl | (rw [hi] at hi'; cases hi'; rw [hs] at hs'; cases hs' <;> first | done | rfl)
    | sexit hi' hs' hl' hr' => first | rfl | (rw [hi] at hi'; cases hi'; rw [hs] at hs'; cases hs' <;> first | done | rfl)
    | ret hi' hs' => first | rfl | (rw [hi] at hi'; cases hi'; rw [hs] at hs'; cases hs' <;> first | done | rfl)
    | panic hi' hs' => first | rfl | (rw [hi] at hi'; cases hi'; rw [hs] at hs'; cases hs' <;> first | done | rfl)
    | callNil hi' hs' hf' => first | rfl | (rw [hi] at hi'; cases hi'; rw [hs] at hs'; cases hs' <;> first | done | rfl)
    | callPanic hi' hs' hf' hc' => first | rfl | (rw [hi] at hi'; cases hi'; rw [hs] at hs'; cases hs' <;> first | done | rfl)
    | callOk hi' hs' hf' hc' hb' hr' => first | rfl | (rw [hi] at hi'; cases hi'; rw [hs] at hs'; cases hs' <;> first | done | rfl)
    | callFail hi' hs' hf' hc' hl' hr' => first | rfl | (rw [hi] at hi'; cases hi'; rw [hs] at hs'; cases hs' <;> first | done | rfl)
  | panic hi hs =>
    cases h2 with
    | next hi' hs' hr' => first | rfl | (rw [hi] at hi'; cases hi'; rw [hs] at hs'; cases hs' <;> first | done | rfl)
    | jump hi' hs' hl' hr' => first | rfl | (rw [hi] at hi'; cases hi'; rw [hs] at hs'; cases hs' <;> first | done | rfl)
    | sjump hi' hs' hl' hr' => first | rfl | (rw [hi] at hi'; cases hi'; rw [hs] at hs'; cases hs' <;> first | done | rfl)
    | sexit hi' hs' hl' hr' => first | rfl | (rw [hi] at hi'; cases hi'; rw [hs] at hs'; cases hs' <;> first | done | rfl)
    | ret hi' hs' => first | rfl | (rw [hi] at hi'; cases hi'; rw [hs] at hs'; cases hs' <;> first | done | rfl)
    | panic hi' hs' => first | rfl | (rw [hi] at hi'; cases hi'; rw [hs] at hs'; cases hs' <;> first | done | rfl)
    | callNil hi' hs' hf' => first | rfl | (rw [hi] at hi'; cases hi'; rw [hs] at hs'; cases hs' <;> first | done | rfl)
    | callPanic hi' hs' hf' hc' => first | rfl | (rw [hi] at hi'; cases hi'; rw [hs] at hs'; cases hs' <;> first | done | rfl)
    | callOk hi' hs' hf' hc' hb' hr' => first | rfl | (rw [hi] at hi'; cases hi'; rw [hs] at hs'; cases hs' <;> first | done | rfl)
    | callFail hi' hs' hf' hc' hl' hr' => first | rfl | (rw [hi] at hi'; cases hi'; rw [hs] at hs'; cases hs' <;> first | done | rfl)
  | callNil hi hs hf =>
    cases h2 with
    | next hi' hs' hr' => first | rfl | (rw [hi] at hi'; cases hi'; rw [hs] at hs'; cases hs' <;> first | done | rfl)
    | jump hi' hs' hl' hr' => first | rfl | (rw [hi] at hi'; cases hi'; rw [hs] at hs'; cases hs' <;> first | done | rfl)
    | sjump hi' hs' hl' hr' => first | rfl | (rw [hi] at hi'; cases hi'; rw [hs] at hs'; cases hs' <;> first | done | rfl)
    | sexit hi' hs' hl' hr' => first | rfl | (rw [hi] at hi'; cases hi'; rw [hs] at hs'; cases hs' <;> first | done | rfl)
    | ret hi' hs' => first | rfl | (rw [hi] at hi'; cases hi'; rw [hs] at hs'; cases hs' <;> first | done | rfl)
    | panic hi' hs' => first | rfl | (rw [hi] at hi'; cases hi'; rw [hs] at hs'; cases hs' <;> first | done | rfl)
    | callNil hi' hs' hf' => first | rfl | (rw [hi] at hi'; cases hi'; rw [hs] at hs'; cases hs'; rw [hf] at hf' <;> first | done | rfl)
    | callPanic hi' hs' hf' hc' => first | rfl | (rw [hi] at hi'; cases hi'; rw [hs] at hs'; cases hs'; rw [hf] at hf'; cases hf' <;> first | done | rfl)
    | callOk hi' hs' hf' hc' hb' hr' => first | rfl | (rw [hi] at hi'; cases hi'; rw [hs] at hs'; cases hs'; rw [hf] at hf'; cases hf' <;> first | done | rfl)
    | callFail hi' hs' hf' hc' hl' hr' => first | rfl | (rw [hi] at hi'; cases hi'; rw [hs] at hs'; cases hs'; rw [hf] at hf'; cases hf' <;> first | done | rfl)
  | callPanic hi hs hf hc ihc =>
    cases h2 with
    | next hi' hs' hr' => first | rfl | (rw [hi] at hi'; cases hi'; rw [hs] at hs'; cases hs' <;> first | done | rfl)
    | jump hi' hs' hl' hr' => first | rfl | (rw [hi] at hi'; cases hi'; rw [hs] at hs'; cases hs' <;> first | done | rfl)
    | sjump hi' hs' hl' hr' => first | rfl | (rw [hi] at hi'; cases hi'; rw [hs] at hs'; cases hs' <;> first | done | rfl)
    | sexit hi' hs' hl' hr' => first | rfl | (rw [hi] at hi'; cases hi'; rw [hs] at hs'; cases hs' <;> first | done | rfl)
    | ret hi' hs' => first | rfl | (rw [hi] at hi'; cases hi'; rw [hs] at hs'; cases hs' <;> first | done | rfl)
    | panic hi' hs' => first | rfl | (rw [hi] at hi'; cases hi'; rw [hs] at hs'; cases hs' <;> first | done | rfl)
    | callNil hi' hs' hf' => first | rfl | (rw [hi] at hi'; cases hi'; rw [hs] at hs'; cases hs'; rw [hf] at hf'; cases hf' <;> first | done | rfl)
    | callPanic hi' hs' hf' hc' => first | rfl | (rw [hi] at hi'; cases hi'; rw [hs] at hs'; cases hs'; rw [hf] at hf'; cases hf'; have e := ihc hc'; exact e <;> first | done | rfl)
    | callOk hi' hs' hf' hc' hb' hr' => first | rfl | (rw [hi] at hi'; cases hi'; rw [hs] at hs'; cases hs'; rw [hf] at hf'; cases hf'; have e := ihc hc'; cases e <;> first | done | rfl)
    | callFail hi' hs' hf' hc' hl' hr' => first | rfl | (rw [hi] at hi'; cases hi'; rw [hs] at hs'; cases hs'; rw [hf] at hf'; cases hf'; have e := ihc hc'; cases e <;> first | done | rfl)
  | callOk hi hs hf hc hb hr ihc ih =>
    cases h2 with
    | next hi' hs' hr' => first | rfl | (rw [hi] at hi'; cases hi'; rw [hs] at hs'; cases hs' <;> first | done | rfl)
    | jump hi' hs' hl' hr' => first | rfl | (rw [hi] at hi'; cases hi'; rw [hs] at hs'; cases hs' <;> first | done | rfl)
    | sjump hi' hs' hl' hr' => first | rfl | (rw [hi] at hi'; cases hi'; rw [hs] at hs'; cases hs' <;> first | done | rfl)
    | sexit hi' hs' hl' hr' => first | rfl | (rw [hi] at hi'; cases hi'; rw [hs] at hs'; cases hs' <;> first | done | rfl)
    | ret hi' hs' => first | rfl | (rw [hi] at hi'; cases hi'; rw [hs] at hs'; cases hs' <;> first | done | rfl)
    | panic hi' hs' => first | rfl | (rw [hi] at hi'; cases hi'; rw [hs] at hs'; cases hs' <;> first | done | rfl)
    | callNil hi' hs' hf' => first | rfl | (rw [hi] at hi'; cases hi'; rw [hs] at hs'; cases hs'; rw [hf] at hf'; cases hf' <;> first | done | rfl)
    | callPanic hi' hs' hf' hc' => first | rfl | (rw [hi] at hi'; cases hi'; rw [hs] at hs'; cases hs'; rw [hf] at hf'; cases hf'; have e := ihc hc'; cases e <;> first | done | rfl)
    | callOk hi' hs' hf' hc' hb' hr' => first | rfl | (rw [hi] at hi'; cases hi'; rw [hs] at hs'; cases hs'; rw [hf] at hf'; cases hf'; have e := ihc hc'; cases e; exact ih hr' <;> first | done | rfl)
    | callFail hi' hs' hf' hc' hl' hr' => first | rfl | (rw [hi] at hi'; cases hi'; rw [hs] at hs'; cases hs'; rw [hf] at hf'; cases hf'; have e := ihc hc'; cases e; simp at hb <;> first | done | rfl)
  | callFail hi hs hf hc hl hr ihc ih =>
    cases h2 with
    | next hi' hs' hr' => first | rfl | (rw [hi] at hi'; cases hi'; rw [hs] at hs'; cases hs' <;> first | done | rfl)
    | jump hi' hs' hl' hr' => first | rfl | (rw [hi] at hi'; cases hi'; rw [hs] at hs'; cases hs' <;> first | done | rfl)
    | sjump hi' hs' hl' hr' => first | rfl | (rw [hi] at hi'; cases hi'; rw [hs] at hs'; cases hs' <;> first | done | rfl)
    | sexit hi' hs' hl' hr' => first | rfl | (rw [hi] at hi'; cases hi'; rw [hs] at hs'; cases hs' <;> first | done | rfl)
    | ret hi' hs' => first | rfl | (rw [hi] at hi'; cases hi'; rw [hs] at hs'; cases hs' <;> first | done | rfl)
    | panic hi' hs' => first | rfl | (rw [hi] at hi'; cases hi'; rw [hs] at hs'; cases hs' <;> first | done | rfl)
    | callNil hi' hs' hf' => first | rfl | (rw [hi] at hi'; cases hi'; rw [hs] at hs'; cases hs'; rw [hf] at hf'; cases hf' <;> first | done | rfl)
    | callPanic hi' hs' hf' hc' => first | rfl | (rw [hi] at hi'; cases hi'; rw [hs] at hs'; cases hs'; rw [hf] at hf'; cases hf'; have e := ihc hc'; cases e <;> first | done | rfl)
    | callOk hi' hs' hf' hc' hb' hr' => first | rfl | (rw [hi] at hi'; cases hi'; rw [hs] at hs'; cases hs'; rw [hf] at hf'; cases hf'; have e := ihc hc'; cases e; simp at hb' <;> first | done | rfl)
    | callFail hi' hs' hf' hc' hl' hr' => first | rfl | (rw [hi] at hi'; cases hi'; rw [hs] at hs'; cases hs'; rw [hf] at hf'; cases hf'; have e := ihc hc'; cases e; rw [hl] at hl'; cases hl'; exact ih hr' <;> first | done | rfl)


theorem execF_sound : ∀ fuel c pc s f r,
    execF P cfg inp fuel c pc s f = some r → Exec P cfg inp c pc s f r := by
  intro fuel
  induction fuel with
  | zero => intro c pc s f r h; simp [execF] at h
  | succ n ih =>
    intro c pc s f r h
    simp only [execF] at h
    split at h
    · cases h
    · next i hi =>
      split at h
      · next s' f' hs => exact Exec.next hi hs (ih _ _ _ _ _ h)
      · next l s' f' hs =>
        split at h
        · next pc' hl => exact Exec.jump hi hs hl (ih _ _ _ _ _ h)
        · cases h
      · next sw k s' f' hs =>
        split at h
        · next pc' hl => exact Exec.sjump hi hs hl (ih _ _ _ _ _ h)
        · cases h
      · next sw s' f' hs =>
        split at h
        · next pc' hl => exact Exec.sexit hi hs hl (ih _ _ _ _ _ h)
        · cases h
      · next b s' hs => cases h; exact Exec.ret hi hs
      · next hs => cases h; exact Exec.panic hi hs
      · next rn l hs =>
        split at h
        · next hf => cases h; exact Exec.callNil hi hs hf
        · next cr hf =>
          split at h
          · cases h
          · next s1 hc => cases h; exact Exec.callPanic hi hs hf (ih _ _ _ _ _ hc)
          · next b s1 hc =>
            split at h
            · next hb => exact Exec.callOk hi hs hf (ih _ _ _ _ _ hc) hb (ih _ _ _ _ _ h)
            · next hb =>
              split at h
              · cases h
              · next l' =>
                split at h
                · next pc' hl =>
                  have hbf : b = false := by
                    cases b
                    · rfl
                    · exact absurd (Or.inl rfl) hb
                  subst hbf
                  exact Exec.callFail hi hs hf (ih _ _ _ _ _ hc) hl (ih _ _ _ _ _ h)
                · cases h

/-- The executable run of a rule is a run of the machine. -/
theorem parseF_exec {fuel : Nat} {r : String} {s : St} {c : Code} {o : Outcome} {s' : St}
    (hf : P.find r = some c) (h : execF P cfg inp fuel c 0 s Frame.empty = some (o, s')) :
    Exec P cfg inp c 0 s Frame.empty (o, s') :=
  execF_sound fuel c 0 s Frame.empty (o, s') h

end PegVerif
