import PegVerif.Model.SwitchSafe
import PegVerif.Proofs.LinkNoastS
import PegVerif.Proofs.AlwaysLemmas
/-
  The decidable hypothesis of the `-noast -switch` end-to-end theorems (`Props/C07Switch.lean`), in a
  file of its own (as `SwitchSafeDef.lean` for the AST mode) so that a driver can evaluate the very
  definition the theorems use.
-/
namespace PegVerif
open Noast

/-- The decidable side condition under which the `-noast -switch` parser emitted from `G'` is proved
    equivalent to the source grammar `G`, for a kit `K` (which rules are action rules, which trace
    entries are compared):
    * `swOK G G'`          — the optimiser's rewrite is a valid rearrangement w.r.t. sound first sets
                             (Eval-level, `C02_switch_validated`);
    * `GrammarOKNS K G'`   — `GrammarOKS G'` (every `parentDetect` elision of a leading test is
                             justified by the case keys, `casesLeadOK`; terminals below END; references
                             only to rules with a function) and `GrammarOKN K G'` (the `-noast`
                             fragment `Expr.okN`: captures named "PegText", action rules with their code);
    * `plainS G'`          — no `-inline` node (soundness of `CheckAlwaysSucceeds`).
    (`LinkedOK`, needed in AST mode for the memo keys, is not needed: `-noast` code has no memo.) -/
def noastSwitchSafeK (K : NKit) (G G' : Grammar) : Bool :=
  swOK G G' && GrammarOKNS K G' && G'.rules.all (fun r => r.body.plainS)

/-- … for the kit that compares the whole trace (`Kall G'`: the action rules of `G'`; grammars
    with state-change statements `!{…}` are excluded by `Expr.okN`). -/
def noastSwitchSafe (G G' : Grammar) : Bool := noastSwitchSafeK (Kall G') G G'

end PegVerif
