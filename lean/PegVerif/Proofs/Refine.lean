import PegVerif.Proofs.RefineLoop
import PegVerif.Proofs.RefineSwitch
import PegVerif.Proofs.EventLemmas
/-
  Refinement theorem R: rule calls, and the induction over the derivation that puts all cases
  together.
-/
namespace PegVerif

variable {P : Program} {cfg : Cfg} {env : CEnv} {G : Grammar} {inp : List Sym}

/-! ### The memoisation invariant -/

/-- A memo entry agrees with the semantics of (every) rule that uses its key: the outcome of the
    rule at that position, the tokens of the success, and — what makes a replay invisible to
    `maxToken` — every non-empty token attempted while it was computed ends at or before `mtE`. -/
def EntryOK (P : Program) (G : Grammar) (ρ : String → Nat → Bool) (inp : List Sym) (mtE : Nat)
    (m : MemoEntry) : Prop :=
  ∀ n, (P.find n).isSome = true → G.idOf n = m.id →
    ∃ res evs, Eval G ρ inp (.name n) m.pos res evs ∧ m.pos ≤ inp.length ∧
      (∀ t ∈ evs, t.b ≠ t.e → t.e ≤ mtE) ∧
      match res with
      | .ok p' forest => m.matched = true ∧ m.part = postorderL forest ∧
          ∃ last, m.part.getLast? = some last ∧ last.e = p' ∧ last ∈ evs
      | .fail => m.matched = false

def MemoOK (P : Program) (G : Grammar) (ρ : String → Nat → Bool) (inp : List Sym)
    (memo : List MemoEntry) (mtE : Nat) : Prop :=
  ∀ m ∈ memo, EntryOK P G ρ inp mtE m

theorem EntryOK.mono {P G ρ inp e e' m} (h : e ≤ e') (hm : EntryOK P G ρ inp e m) :
    EntryOK P G ρ inp e' m := by
  intro n hn hid
  obtain ⟨res, evs, h1, h2, h3, h4⟩ := hm n hn hid
  exact ⟨res, evs, h1, h2, fun t ht hne => Nat.le_trans (h3 t ht hne) h, h4⟩

/-- The concrete memo invariant used by R. -/
@[reducible] def memoInv (P : Program) (G : Grammar) (ρ : String → Nat → Bool) (inp : List Sym) : MInv where
  ok := MemoOK P G ρ inp
  mono := fun h hm m hmem => (hm m hmem).mono h

/-- Absorption: if no non-empty token of `evs` ends beyond `mt`, folding `add`'s update over
    `evs` leaves `mt` unchanged — a memo hit is indistinguishable from re-running the rule. -/
theorem foldl_updTok_absorb (evs : List Token) (mt : Token)
    (h : ∀ t ∈ evs, t.b ≠ t.e → t.e ≤ mt.e) : evs.foldl updTok mt = mt := by
  induction evs with
  | nil => rfl
  | cons t ts ih =>
    have ht : updTok mt t = mt := by
      unfold updTok
      split
      · next hc => have := h t (by simp) hc.1; omega
      · rfl
    simp only [List.foldl_cons, ht]
    exact ih (fun x hx => h x (by simp [hx]))

theorem take_append_exact {α} (a b : List α) (n : Nat) (h : n = a.length) :
    (a ++ b).take (n + b.length) = a ++ b := by
  subst h
  rw [List.take_of_length_le (by simp)]

theorem extract_of_take {α} (l pre toks : List α) (a b : Nat) (hab : a ≤ b)
    (h : l.take b = pre ++ toks) (hpre : pre.length = a) : l.extract a b = toks := by
  have : l.extract a b = (l.take b).drop a := by
    simp [List.extract, List.drop_take]
  rw [this, h, List.drop_left' hpre]

/-- What the tokens and events of a rule with an implicit-push body look like. -/
theorem ipush_last {G : Grammar} {ρ : String → Nat → Bool} {inp : List Sym} {e n p p' forest evs}
    (h : Eval G ρ inp (.ipush e n) p (.ok p' forest) evs) :
    ∃ last, (postorderL forest).getLast? = some last ∧ last.e = p' ∧ last ∈ evs := by
  cases h with
  | ipush_ok _ _ => exact ⟨⟨n, p, p'⟩, by simp, rfl, by simp⟩
  | ipush_act => exact ⟨⟨n, p, p⟩, by simp, rfl, by simp⟩

/-- Running the emitted function of rule `n` on a state that satisfies the precondition returns
    what the semantics of its body says — whether the memo table has an entry for it or not. -/
theorem callee_exec (hW : World P cfg env G inp) {n : String} {cr : Code} {r : Rule} {b e : Expr}
    {kr : Nat} {stb : CSt} {p res evs} (hfind : P.find n = some cr)
    (hcr : cr = (ruleFunc env r b kr stb).1) (hkr : kr < stb.label)
    (huniq : Uniq cr) (hused : ∀ l ∈ jumps cr, env.used l = true)
    (hid : r.id = G.idOf n) (hshape : b = .ipush e n) (hb : G.body n = some b)
    (hev : Eval G cfg.rho inp b p res evs)
    (ih : @Good (memoInv P G cfg.rho inp) P cfg env inp b p res evs) {s : St}
    (hpos : s.pos = p) (hple : p ≤ inp.length) (hlen : s.ti ≤ s.tree.length)
    (hm : MemoOK P G cfg.rho inp s.memo s.maxTok.e) :
    match res with
    | .ok p' forest => ∃ s', Exec P cfg inp cr 0 s Frame.empty (.ret true, s') ∧
        s'.pos = p' ∧ s'.ti = s.ti + (postorderL forest).length ∧
        s'.tree.take s'.ti = s.tree.take s.ti ++ postorderL forest ∧ s'.ti ≤ s'.tree.length ∧
        s'.maxTok = evs.foldl updTok s.maxTok ∧ MemoOK P G cfg.rho inp s'.memo s'.maxTok.e
    | .fail => ∃ s3, Exec P cfg inp cr 0 s Frame.empty (.ret false, s3) ∧
        s3.pos = p ∧ s3.ti = s.ti ∧ s3.tree.take s.ti = s.tree.take s.ti ∧ s.ti ≤ s3.tree.length ∧
        s3.maxTok = evs.foldl updTok s.maxTok ∧ MemoOK P G cfg.rho inp s3.memo s3.maxTok.e := by
  letI : MInv := memoInv P G cfg.rho inp
  have hc : CodeAt cr 0 cr := CodeAt.whole cr
  have hcr' := hcr
  simp only [ruleFunc, hW.envAst, ↓reduceIte, Bool.true_or, List.append_assoc, List.cons_append,
    List.nil_append] at hcr'
  rw [hcr'] at hc
  obtain ⟨h0, hc⟩ := hc.head
  obtain ⟨h1, hc⟩ := hc.head
  rw [← hcr'] at h0 h1 hc
  have hcb := hc.left
  have hevn : Eval G cfg.rho inp (.name n) p res evs := Eval.name hb hev
  have hsome : (P.find n).isSome = true := by rw [hfind]; rfl
  cases hfm : memoFind s.memo r.id s.pos with
  | some m =>
    -- memo hit
    have hmem : m ∈ s.memo := List.mem_of_find?_eq_some hfm
    have hkey : m.id = r.id ∧ m.pos = s.pos := by
      have := List.find?_some hfm
      simpa using this
    obtain ⟨res', evs', hev', _, habs, hmatch⟩ := hm m hmem n hsome (by rw [hkey.1, hid])
    rw [hkey.2, hpos] at hev'
    obtain ⟨e1, e2⟩ := Eval_det hev' hevn
    subst e1; subst e2
    have hfold : evs'.foldl updTok s.maxTok = s.maxTok := foldl_updTok_absorb _ _ habs
    cases res' with
    | ok p' forest =>
      obtain ⟨hmt, hpart, last, hlast, hle, hin⟩ := hmatch
      have hnoupd : ¬ (last.b ≠ last.e ∧ last.e > s.maxTok.e) := by
        intro hc2; have := habs last hin hc2.1; omega
      have hstep : stepLocal cfg inp (.memoCheck r.id) s Frame.empty = .ret true
          { s with tree := s.tree.take s.ti ++ m.part, ti := s.ti + m.part.length, pos := last.e } := by
        have hnl : ¬ s.ti > s.tree.length := by omega
        simp [stepLocal, hfm, hmt, hnl, hlast, hnoupd]
      refine ⟨_, Exec.ret h0 hstep, hle, by simp [hpart], ?_, ?_, by simp [hfold], by simpa using hm⟩
      · simp only [hpart]
        exact take_append_exact _ _ _ (by simp [List.length_take, Nat.min_eq_left hlen])
      · simp [List.length_take, Nat.min_eq_left hlen]
    | fail =>
      have hstep : stepLocal cfg inp (.memoCheck r.id) s Frame.empty = .ret false s := by
        simp [stepLocal, hfm, hmatch]
      exact ⟨s, Exec.ret h0 hstep, hpos, rfl, rfl, hlen, by simp [hfold], hm⟩
  | none =>
    have hpre : Pre env inp cr s p :=
      ⟨huniq, hcr ▸ ruleFunc_suniq env r b kr stb, hused, hpos, hple, hlen, hm⟩
    have hstart : Steps P cfg inp cr 0 s Frame.empty (0 + 1 + 1) s (Frame.empty.set kr (s.pos, s.ti)) :=
      (Steps.next (s' := s) (f' := Frame.empty) h0 (by simp [stepLocal, hfm])).trans
        (Steps.next (s' := s) (f' := Frame.empty.set kr (s.pos, s.ti)) h1 (by simp [stepLocal]))
    have h' := ih kr false false stb cr (0 + 1 + 1) s (Frame.empty.set kr (s.pos, s.ti)) hcb hpre
      (Lead_false _ _ _ _)
    -- validity of the entry that `memoize` stores, under the final `maxToken`
    have hentry : ∀ (mt : Token) (matched : Bool) (part : List Token), mt = evs.foldl updTok s.maxTok →
        (match res with
         | .ok p' forest => matched = true ∧ part = postorderL forest
         | .fail => matched = false) →
        EntryOK P G cfg.rho inp mt.e ⟨r.id, p, matched, part⟩ := by
      intro mt matched part hmt hshape2 n' hn' hid'
      have : n' = n := hW.idInj n' n hn' hsome (by rw [hid']; exact hid)
      subst this
      refine ⟨res, evs, hevn, hple, ?_, ?_⟩
      · intro t ht hne
        rw [hmt]
        exact (foldl_updTok_spec evs s.maxTok).2.2 t ht hne
      · cases res with
        | ok p' forest =>
          obtain ⟨a1, a2⟩ := hshape2
          subst hshape
          obtain ⟨last, l1, l2, l3⟩ := ipush_last hev
          exact ⟨a1, a2, last, by rw [a2]; exact l1, l2, l3⟩
        | fail => exact hshape2
    cases res with
    | ok p' forest =>
      obtain ⟨s', f', hS, hst⟩ := h'
      obtain ⟨h2, hc2⟩ := hc.right.head
      obtain ⟨h3, _⟩ := hc2.head
      have hfr : f' kr = (p, s.ti) := by rw [hS.frame kr hkr]; simp [Frame.set, hpos]
      have hti : s.ti ≤ s'.ti := by rw [hS.ti]; omega
      by_cases hcm : cfg.memo = true
      · -- memoize stores the success
        have hext : s'.tree.extract s.ti s'.ti = postorderL forest :=
          extract_of_take _ _ _ _ _ hti hS.live (by simp [List.length_take, Nat.min_eq_left hlen])
        have hstep : stepLocal cfg inp (.memoSave r.id kr true) s' f' =
            .next { s' with memo := ⟨r.id, p, true, postorderL forest⟩ :: s'.memo } f' := by
          simp [stepLocal, hcm, hfr, hti, hS.len, hext]
        refine ⟨{ s' with memo := ⟨r.id, p, true, postorderL forest⟩ :: s'.memo }, ?_, hS.pos, hS.ti,
          hS.live, hS.len, hS.maxTok, ?_⟩
        · apply hstart
          apply hst
          apply (Steps.next h2 hstep)
          exact Exec.ret h3 (by simp [stepLocal])
        · intro m hmm
          rcases List.mem_cons.mp hmm with hm1 | hm1
          · rw [hm1]; exact hentry s'.maxTok true _ hS.maxTok ⟨rfl, rfl⟩
          · exact hS.memo m hm1
      · have hstep : stepLocal cfg inp (.memoSave r.id kr true) s' f' = .next s' f' := by
          simp [stepLocal, hcm]
        refine ⟨s', ?_, hS.pos, hS.ti, hS.live, hS.len, hS.maxTok, hS.memo⟩
        apply hstart
        apply hst
        apply (Steps.next h2 hstep)
        exact Exec.ret h3 (by simp [stepLocal])
    | fail =>
      obtain ⟨s2, f2, hF, hj, hst⟩ := h'
      have hu : env.used kr = true := hused kr (jumps_sub_of_codeAt hcb kr hj)
      obtain ⟨_, hc2⟩ := hc.right.head
      obtain ⟨_, hc2⟩ := hc2.head
      simp only [hu, ↓reduceIte] at hc2
      have hlp := labelPos_of_uniq huniq hc2
      obtain ⟨h4, hc2⟩ := hc2.head
      obtain ⟨h5, hc2⟩ := hc2.head
      obtain ⟨h6, hc2⟩ := hc2.head
      obtain ⟨h7, _⟩ := hc2.head
      have hfr : f2 kr = (p, s.ti) := by rw [hF.frame kr hkr]; simp [Frame.set, hpos]
      by_cases hcm : cfg.memo = true
      · have hstep : stepLocal cfg inp (.memoSave r.id kr false) s2 f2 =
            .next { s2 with memo := ⟨r.id, p, false, []⟩ :: s2.memo } f2 := by
          simp [stepLocal, hcm, hfr]
        refine ⟨{ s2 with memo := ⟨r.id, p, false, []⟩ :: s2.memo, pos := p, ti := s.ti }, ?_, rfl, rfl,
          by simpa using hF.keep, hF.len, hF.maxTok, ?_⟩
        · apply hstart
          apply hst _ hlp
          apply (Steps.next (s' := s2) (f' := f2) h4 (by simp [stepLocal]))
          apply (Steps.next h5 hstep)
          apply (Steps.next (s' := { s2 with memo := ⟨r.id, p, false, []⟩ :: s2.memo, pos := p, ti := s.ti })
            (f' := f2) h6 (by simp [stepLocal, hfr]))
          exact Exec.ret h7 (by simp [stepLocal])
        · intro m hmm
          rcases List.mem_cons.mp hmm with hm1 | hm1
          · rw [hm1]; exact hentry s2.maxTok false _ hF.maxTok rfl
          · exact hF.memo m hm1
      · have hstep : stepLocal cfg inp (.memoSave r.id kr false) s2 f2 = .next s2 f2 := by
          simp [stepLocal, hcm]
        refine ⟨{ s2 with pos := p, ti := s.ti }, ?_, rfl, rfl, by simpa using hF.keep, hF.len,
          hF.maxTok, hF.memo⟩
        apply hstart
        apply hst _ hlp
        apply (Steps.next (s' := s2) (f' := f2) h4 (by simp [stepLocal]))
        apply (Steps.next h5 hstep)
        apply (Steps.next (s' := { s2 with pos := p, ti := s.ti }) (f' := f2) h6 (by simp [stepLocal, hfr]))
        exact Exec.ret h7 (by simp [stepLocal])

theorem good_name (hW : World P cfg env G inp) {n b p res evs} (hb : G.body n = some b)
    (hfine : (Expr.name n).fineS P) (hev : Eval G cfg.rho inp b p res evs)
    (ih : @Good (memoInv P G cfg.rho inp) P cfg env inp b p res evs) :
    @Good (memoInv P G cfg.rho inp) P cfg env inp (.name n) p res evs := by
  letI : MInv := memoInv P G cfg.rho inp
  intro ko pd pmk st code pc s f hc hp _
  simp only [Expr.fineS] at hfine
  obtain ⟨cr, hfind⟩ := Option.isSome_iff_exists.mp hfine
  obtain ⟨r, b', kr, stb, hb', hcr, hkr, huniq, hused, _, hid, e, hshape⟩ := hW.rules n cr hfind
  rw [hb] at hb'; cases hb'
  have hcallee := callee_exec hW hfind hcr hkr huniq hused hid hshape hb hev ih hp.pos hp.ple hp.len hp.memo
  simp only [compile] at hc ⊢
  cases res with
  | ok p' forest =>
    obtain ⟨s', hex, hpos, hti, hlive, hlen, hmt, hmm⟩ := hcallee
    refine ⟨s', f, ⟨hpos, hti, hlive, hlen, fun _ _ => rfl, hmt, hmm⟩, ?_⟩
    by_cases ha : env.always n = true
    · simp only [ha, ↓reduceIte] at hc ⊢
      obtain ⟨h1, _⟩ := hc.head
      exact fun res hres => Exec.callOk (l := none) h1 (by simp [stepLocal]) hfind hex (Or.inl rfl) hres
    · simp only [ha] at hc ⊢
      obtain ⟨h1, _⟩ := hc.head
      exact fun res hres => Exec.callOk (l := some ko) h1 (by simp [stepLocal]) hfind hex (Or.inl rfl) hres
  | fail =>
    obtain ⟨s3, hex, hpos, hti, hkeep, hlen, hmt, hmm⟩ := hcallee
    by_cases ha : env.always n = true
    · exact absurd (Eval.name hb hev) (hW.always n ha p evs)
    · simp only [ha] at hc ⊢
      obtain ⟨h1, _⟩ := hc.head
      refine ⟨s3, f, ⟨hkeep, hlen, fun _ _ => rfl, hmt, hmm⟩, by simp [jumps, Instr.target?], ?_⟩
      intro pcko hl
      exact fun res hres => Exec.callFail h1 (by simp [stepLocal]) hfind hex hl hres

/-- The three statements proved together by induction on the derivation. -/
def Motive [MInv] (P : Program) (cfg : Cfg) (env : CEnv) (inp : List Sym) (e : Expr) (p : Nat) (res : Res)
    (evs : List Token) : Prop :=
  e.fineS P →
    Good P cfg env inp e p res evs ∧
    (∀ es, e = .alt es → GoodAlt P cfg env inp es p res evs) ∧
    (∀ e', e = .star e' → GoodLoop P cfg env inp e' p res evs)

theorem Motive.leaf [MInv] {e : Expr} {p res evs} (hna : ∀ es, e ≠ .alt es) (hns : ∀ e', e ≠ .star e')
    (h : e.fineS P → Good P cfg env inp e p res evs) : Motive P cfg env inp e p res evs :=
  fun hf => ⟨h hf, fun es he => absurd he (hna es), fun e' he => absurd he (hns e')⟩

theorem good_inl [MInv] {n e p res evs} (ih : Good P cfg env inp e p res evs) :
    Good P cfg env inp (.inl n e) p res evs := by
  intro ko pd pmk st code pc s f hc hp hlead
  have := ih ko pd pmk st code pc s f (by simpa [compile] using hc) hp (by simpa only [Lead] using hlead)
  simpa [compile] using this

/-- **R**: for every derivation of the PEG semantics, the emitted code of the expression does the
    same — verdict, consumed prefix, recorded tokens (the live prefix grows by exactly the
    post-order of the derivation forest), `maxToken` — from any point of any rule body. -/
theorem R_all (hW : World P cfg env G inp) {e p res evs} (h : Eval G cfg.rho inp e p res evs) :
    @Motive (memoInv P G cfg.rho inp) P cfg env inp e p res evs := by
  letI : MInv := memoInv P G cfg.rho inp
  induction h with
  | dot_ok h => exact Motive.leaf (by intro _ h; cases h) (by intro _ h; cases h) (fun _ => good_dot_ok hW h)
  | dot_fail h => exact Motive.leaf (by intro _ h; cases h) (by intro _ h; cases h) (fun _ => good_dot_fail h)
  | chr_ok h => exact Motive.leaf (by intro _ h; cases h) (by intro _ h; cases h) (fun _ => good_chr_ok h)
  | chr_fail h =>
    exact Motive.leaf (by intro _ h; cases h) (by intro _ h; cases h)
      (fun hf => good_chr_fail (by simpa [Expr.fineS] using hf) h)
  | rng_ok h hl hh => exact Motive.leaf (by intro _ h; cases h) (by intro _ h; cases h) (fun _ => good_rng_ok h hl hh)
  | rng_fail h =>
    exact Motive.leaf (by intro _ h; cases h) (by intro _ h; cases h)
      (fun hf => good_rng_fail (by simpa [Expr.fineS] using hf) h)
  | str_ok _ => exact fun hf => by simp [Expr.fineS] at hf
  | str_fail _ => exact fun hf => by simp [Expr.fineS] at hf
  | @name n b p res evs hb hev ih =>
    refine Motive.leaf (by intro _ h; cases h) (by intro _ h; cases h) (fun hf => ?_)
    have hbf : b.fineS P := by
      have hf' := hf
      simp only [Expr.fineS] at hf'
      obtain ⟨cr, hfind⟩ := Option.isSome_iff_exists.mp hf'
      obtain ⟨_, b', _, _, hb', _, _, _, _, hfb, _⟩ := hW.rules n cr hfind
      rw [hb] at hb'; cases hb'; exact hfb
    exact good_name hW hb hf hev (ih hbf).1
  | inl _ ih =>
    exact Motive.leaf (by intro _ h; cases h) (by intro _ h; cases h)
      (fun hf => good_inl (ih (by simpa [Expr.fineS] using hf)).1)
  | pred_ok h => exact Motive.leaf (by intro _ h; cases h) (by intro _ h; cases h) (fun _ => good_pred_ok h)
  | pred_fail h => exact Motive.leaf (by intro _ h; cases h) (by intro _ h; cases h) (fun _ => good_pred_fail h)
  | stmt => exact Motive.leaf (by intro _ h; cases h) (by intro _ h; cases h) (fun _ => good_stmt)
  | act => exact Motive.leaf (by intro _ h; cases h) (by intro _ h; cases h) (fun _ => good_act)
  | nil => exact Motive.leaf (by intro _ h; cases h) (by intro _ h; cases h) (fun _ => good_nil)
  | seq_nil => exact Motive.leaf (by intro _ h; cases h) (by intro _ h; cases h) (fun _ => good_seq_nil)
  | seq_fail _ ih =>
    exact Motive.leaf (by intro _ h; cases h) (by intro _ h; cases h)
      (fun hf => good_seq_fail (ih (by simp [Expr.fineS, fineSL] at hf; exact hf.1)).1)
  | seq_ok_fail h1 h2 ih1 ih2 =>
    refine Motive.leaf (by intro _ h; cases h) (by intro _ h; cases h) (fun hf => ?_)
    simp only [Expr.fineS, fineSL] at hf
    exact good_seq_ok_fail h1 h2 (ih1 hf.1).1 (ih2 (by simpa [Expr.fineS] using hf.2)).1
  | seq_ok h1 h2 ih1 ih2 =>
    refine Motive.leaf (by intro _ h; cases h) (by intro _ h; cases h) (fun hf => ?_)
    simp only [Expr.fineS, fineSL] at hf
    exact good_seq_ok h1 h2 (ih1 hf.1).1 (ih2 (by simpa [Expr.fineS] using hf.2)).1
  | alt_last _ ih =>
    intro hf
    have g := (ih (by simp [Expr.fineS, fineSL] at hf; exact hf)).1
    exact ⟨good_alt_of_goodAlt (goodAlt_last g), fun es h => by cases h; exact goodAlt_last g,
      fun _ h => by cases h⟩
  | alt_ok _ ih =>
    intro hf
    have g := (ih (by simp [Expr.fineS, fineSL] at hf; exact hf.1)).1
    exact ⟨good_alt_of_goodAlt (goodAlt_ok g), fun es h => by cases h; exact goodAlt_ok g,
      fun _ h => by cases h⟩
  | alt_next _ _ ih1 ih2 =>
    intro hf
    simp only [Expr.fineS, fineSL] at hf
    have g1 := (ih1 hf.1).1
    have g2 := (ih2 (by simpa [Expr.fineS, fineSL] using hf.2)).2.1 _ rfl
    exact ⟨good_alt_of_goodAlt (goodAlt_next g1 g2), fun es h => by cases h; exact goodAlt_next g1 g2,
      fun _ h => by cases h⟩
  | @ualt ks es p e res evs hidx _ ih =>
    refine Motive.leaf (by intro _ h; cases h) (by intro _ h; cases h) (fun hf => ?_)
    simp only [Expr.fineS] at hf
    exact good_ualt hidx hf.2.2 (ih (fineSL_mem hf.2.1 e (List.mem_of_getElem? hidx))).1
  | peekFor_ok _ ih =>
    exact Motive.leaf (by intro _ h; cases h) (by intro _ h; cases h)
      (fun hf => good_peekFor_ok (ih (by simpa [Expr.fineS] using hf)).1)
  | peekFor_fail _ ih =>
    exact Motive.leaf (by intro _ h; cases h) (by intro _ h; cases h)
      (fun hf => good_peekFor_fail (ih (by simpa [Expr.fineS] using hf)).1)
  | peekNot_ok _ ih =>
    exact Motive.leaf (by intro _ h; cases h) (by intro _ h; cases h)
      (fun hf => good_peekNot_ok (ih (by simpa [Expr.fineS] using hf)).1)
  | peekNot_fail _ ih =>
    exact Motive.leaf (by intro _ h; cases h) (by intro _ h; cases h)
      (fun hf => good_peekNot_fail (ih (by simpa [Expr.fineS] using hf)).1)
  | query_ok _ ih =>
    exact Motive.leaf (by intro _ h; cases h) (by intro _ h; cases h)
      (fun hf => good_query_ok (ih (by simpa [Expr.fineS] using hf)).1)
  | query_none _ ih =>
    exact Motive.leaf (by intro _ h; cases h) (by intro _ h; cases h)
      (fun hf => good_query_none (ih (by simpa [Expr.fineS] using hf)).1)
  | star_stop _ ih =>
    intro hf
    have g := goodLoop_stop (ih (by simpa [Expr.fineS] using hf)).1
    exact ⟨good_star_of_loop g, (fun _ h => by cases h), (fun _ h => by cases h; exact g)⟩
  | star_step h1 _ ih1 ih2 =>
    intro hf
    have g := goodLoop_step h1 (ih1 (by simpa [Expr.fineS] using hf)).1 ((ih2 hf).2.2 _ rfl)
    exact ⟨good_star_of_loop g, (fun _ h => by cases h), (fun _ h => by cases h; exact g)⟩
  | plus_fail _ ih =>
    exact Motive.leaf (by intro _ h; cases h) (by intro _ h; cases h)
      (fun hf => good_plus_fail (ih (by simpa [Expr.fineS] using hf)).1)
  | @plus_ok e p p1 f1 evs1 p2 f2 evs2 h1 _ ih1 ih2 =>
    refine Motive.leaf (by intro _ h; cases h) (by intro _ h; cases h) (fun hf => ?_)
    have hf' : e.fineS P := by simpa [Expr.fineS] using hf
    exact good_plus_ok h1 (ih1 hf').1 ((ih2 (by simpa [Expr.fineS] using hf')).2.2 _ rfl)
  | push_ok hn _ ih =>
    refine Motive.leaf (by intro _ h; cases h) (by intro _ h; cases h) (fun hf => ?_)
    exact good_wrap_ok hW (fun ko pd pmk st => compile_push_nonact hn hW.envAst _ ko pd pmk st)
      (fun _ _ h => by simpa only [Lead] using h)
      (ih (by simpa [Expr.fineS] using hf)).1
  | push_fail hn _ ih =>
    refine Motive.leaf (by intro _ h; cases h) (by intro _ h; cases h) (fun hf => ?_)
    exact good_wrap_fail (fun ko pd pmk st => compile_push_nonact hn hW.envAst _ ko pd pmk st)
      (fun _ _ h => by simpa only [Lead] using h)
      (ih (by simpa [Expr.fineS] using hf)).1
  | push_act =>
    exact Motive.leaf (by intro _ h; cases h) (by intro _ h; cases h)
      (fun _ => good_wrap_act hW (by intro ko pd pmk st; simp [compile, hW.envAst]))
  | ipush_ok hn _ ih =>
    refine Motive.leaf (by intro _ h; cases h) (by intro _ h; cases h) (fun hf => ?_)
    exact good_wrap_ok hW (fun ko pd pmk st => compile_ipush_nonact hn _ ko pd pmk st)
      (fun _ _ h => by simpa only [Lead] using h)
      (ih (by simpa [Expr.fineS] using hf)).1
  | ipush_fail hn _ ih =>
    refine Motive.leaf (by intro _ h; cases h) (by intro _ h; cases h) (fun hf => ?_)
    exact good_wrap_fail (fun ko pd pmk st => compile_ipush_nonact hn _ ko pd pmk st)
      (fun _ _ h => by simpa only [Lead] using h)
      (ih (by simpa [Expr.fineS] using hf)).1
  | ipush_act =>
    exact Motive.leaf (by intro _ h; cases h) (by intro _ h; cases h)
      (fun _ => good_wrap_act hW (by intro ko pd pmk st; simp [compile, hW.envAst]))

end PegVerif
