import PegVerif.Proofs.RefineCases
/-
  Refinement theorem R — ordered choice.
-/
namespace PegVerif

variable [MInv] {P : Program} {cfg : Cfg} {env : CEnv} {G : Grammar} {inp : List Sym}

/-- The choice wrapper: `{ positionN, tokenIndexN := … ; <alternatives> } lN:` -/
theorem good_alt_of_goodAlt {es p res evs} (h : GoodAlt P cfg env inp es p res evs) :
    Good P cfg env inp (.alt es) p res evs := by
  intro ko pd pmk st code pc s f hc hp hlead
  simp only [Lead] at hlead
  norm_code at hc
  obtain ⟨h1, hc⟩ := hc.head
  obtain ⟨h2, hc⟩ := hc.head
  have hstart : Steps P cfg inp code pc s f (pc + 1 + 1) s (f.set st.label (s.pos, s.ti)) :=
    (Steps.next (s' := s) (f' := f) h1 (by simp [stepLocal])).trans
      (Steps.next (s' := s) (f' := f.set st.label (s.pos, s.ti)) h2 (by simp [stepLocal]))
  have h' := h st.label ko pd pmk { st with label := st.label + 1 } code (pc + 1 + 1) s
    (f.set st.label (s.pos, s.ti)) (by simpa using hc) hp (Nat.lt_succ_self _)
    (by simp [Frame.set, hp.pos]) hlead
  cases res with
  | ok p' forest =>
    obtain ⟨s', f', hS, hst⟩ := h'
    refine ⟨s', f', ?_, ?_⟩
    · refine ⟨hS.pos, hS.ti, hS.live, hS.len, ?_, hS.maxTok, hS.memo⟩
      intro n hn
      rw [hS.frame n (Nat.lt_succ_of_lt hn)]; simp [Frame.set]; omega
    · exact (hstart.trans hst).cast (by simp [List.length_append]; omega)
  | fail =>
    obtain ⟨s'', f'', hF, hj, hst⟩ := h'
    refine ⟨s'', f'', ?_, by jmp, ?_⟩
    · refine ⟨hF.keep, hF.len, ?_, hF.maxTok, hF.memo⟩
      intro n hn
      rw [hF.frame n (Nat.lt_succ_of_lt hn)]; simp [Frame.set]; omega
    · intro pcko hl; exact hstart.trans (hst pcko hl)

/-- Last alternative: its failure is the failure of the choice. -/
theorem goodAlt_last {e p res evs} (ih : Good P cfg env inp e p res evs) :
    GoodAlt P cfg env inp [e] p res evs := by
  intro ok ko pd pmk st code pc s f hc hp hok hf hlead
  simp only [LeadL] at hlead
  simp only [compileAlt] at hc ⊢
  have hcb := hc.left.left
  obtain ⟨h1, _⟩ := hc.left.right.head
  have hcl := hc.right.cast (b := pc + (compile env e ko pd pmk st).code.length + 1) (by simp; omega)
  have h' := ih ko pd pmk st code pc s f hcb hp hlead
  cases res with
  | ok p' forest =>
    obtain ⟨s', f', hS, hst⟩ := h'
    refine ⟨s', f', hS, ?_⟩
    have h2 := hst.trans (Steps.next (s' := s') (f' := f') h1 (by simp [stepLocal]))
    by_cases hu : env.used ok = true
    · simp only [CEnv.lbl, hu, ↓reduceIte] at hcl ⊢
      obtain ⟨h3, _⟩ := hcl.head
      exact h2.trans (Steps.next (s' := s') (f' := f') h3 (by simp [stepLocal]))
    · simp only [CEnv.lbl, hu]
      exact h2
  | fail => exact h'

/-- An alternative other than the last succeeds: `goto ok`. -/
theorem goodAlt_ok {e e' es p p1 f1 evs} (ih : Good P cfg env inp e p (.ok p1 f1) evs) :
    GoodAlt P cfg env inp (e :: e' :: es) p (.ok p1 f1) evs := by
  intro ok ko pd pmk st code pc s f hc hp hok hf hlead
  simp only [LeadL] at hlead
  have hu : env.used ok = true := hp.usedIn hc (by simp only [compileAlt]; jmp)
  simp only [compileAlt] at hc ⊢
  have hcl := hc.right
  simp only [CEnv.lbl, hu, ↓reduceIte] at hcl
  have hlp := labelPos_of_uniq hp.uniq hcl
  obtain ⟨h9, _⟩ := hcl.head
  have hcx := hc.left.left
  simp only [List.append_assoc, List.cons_append, List.nil_append] at hcx
  have hca := hcx.left
  obtain ⟨h1, _⟩ := hcx.right.head
  obtain ⟨s', f', hS, hst⟩ := ih st.label pd pmk { st with label := st.label + 1 } code pc s f hca hp hlead
  refine ⟨s', f', hS.weaken (Nat.le_succ _), ?_⟩
  refine hst.trans ?_
  refine (Steps.jump (s' := s') (f' := f') h1 (by simp [stepLocal]) hlp).trans ?_
  exact (Steps.next (s' := s') (f' := f') h9 (by simp [stepLocal])).cast
    (by simp [List.length_append, CEnv.lbl, hu]; omega)

/-- An alternative other than the last fails: restore the entry state, try the rest. -/
theorem goodAlt_next {e e' es p evs1 res evs2} (ih1 : Good P cfg env inp e p .fail evs1)
    (ih2 : GoodAlt P cfg env inp (e' :: es) p res evs2) :
    GoodAlt P cfg env inp (e :: e' :: es) p res (evs1 ++ evs2) := by
  intro ok ko pd pmk st code pc s f hc hp hok hf hlead
  simp only [LeadL] at hlead
  simp only [compileAlt] at hc ⊢
  -- reassociate: prefix ++ (tail ++ [be] ++ lbl ok)
  have hc' : CodeAt code pc
      ((compile env e st.label pd pmk { st with label := st.label + 1 }).code ++
        (Instr.goto ok :: (env.lbl st.label ++ Instr.restore ok ::
          ((compileAlt env (e' :: es) ok ko false false
              (compile env e st.label pd pmk { st with label := st.label + 1 }).st).code ++
            [Instr.be] ++ env.lbl ok)))) := by
    simpa [List.append_assoc] using hc
  have hca := hc'.left
  obtain ⟨s2, fr2, hF, hj, hst⟩ := ih1 st.label pd pmk { st with label := st.label + 1 } code pc s f hca hp hlead
  have hu : env.used st.label = true := hp.usedIn hca hj
  obtain ⟨_, hc2⟩ := hc'.right.head
  simp only [CEnv.lbl, hu, ↓reduceIte, List.cons_append, List.nil_append] at hc2
  have hlp := labelPos_of_uniq hp.uniq hc2
  obtain ⟨h3, hc2⟩ := hc2.head
  obtain ⟨h4, hc2⟩ := hc2.head
  have hfr : fr2 ok = (p, s.ti) := by rw [hF.frame ok (Nat.lt_succ_of_lt hok)]; exact hf
  have hp3 : Pre env inp code { s2 with pos := p, ti := s.ti } p :=
    hp.move rfl hp.ple hF.len hF.memo
  have hmono := compile_mono env e st.label pd pmk { st with label := st.label + 1 }
  have hsteps : Steps P cfg inp code pc s f _ { s2 with pos := p, ti := s.ti } fr2 :=
    (hst _ hlp).trans <|
    (Steps.next (s' := s2) (f' := fr2) h3 (by simp [stepLocal])).trans <|
    Steps.next (s' := { s2 with pos := p, ti := s.ti }) (f' := fr2) h4 (by simp [stepLocal, hfr])
  have h' := ih2 ok ko false false _ code _ { s2 with pos := p, ti := s.ti } fr2 hc2 hp3
    (by simp at hmono; omega) (by simpa using hfr) (LeadL_false _ _ _ _)
  cases res with
  | ok p' forest =>
    obtain ⟨s', f', hS, hst2⟩ := h'
    refine ⟨s', f', (hF.weaken (lbl := st.label) (Nat.le_succ _)).then_succ hS rfl rfl rfl (by simp at hmono ⊢; omega), ?_⟩
    exact (hsteps.trans hst2).cast (by simp [List.length_append, CEnv.lbl, hu]; omega)
  | fail =>
    obtain ⟨s4, f4, hF2, hj2, hst2⟩ := h'
    refine ⟨s4, f4, (hF.weaken (lbl := st.label) (Nat.le_succ _)).then_failed hF2 rfl rfl rfl (by simp at hmono ⊢; omega), by jmp, ?_⟩
    intro pcko hl
    exact hsteps.trans (hst2 pcko hl)

end PegVerif
