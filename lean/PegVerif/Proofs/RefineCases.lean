import PegVerif.Proofs.RefineComb
/-
  Refinement theorem R — the cases of the composite operators, each as a lemma that takes the
  induction hypotheses of the sub-derivations.
-/
namespace PegVerif

variable [MInv] {P : Program} {cfg : Cfg} {env : CEnv} {G : Grammar} {inp : List Sym}

omit [MInv] in
theorem CodeAt.cast {code a b c} (h : CodeAt code a c) (e : a = b) : CodeAt code b c := e ▸ h

omit [MInv] in
theorem Steps.cast {code pc s f a b s' f'} (h : Steps P cfg inp code pc s f a s' f') (e : a = b) :
    Steps P cfg inp code pc s f b s' f' := e ▸ h

theorem Pre.move {code s p s1 p1} (hp : Pre env inp code s p) (hpos : s1.pos = p1)
    (hple : p1 ≤ inp.length) (hlen : s1.ti ≤ s1.tree.length) (hm : MInv.ok s1.memo s1.maxTok.e) :
    Pre env inp code s1 p1 :=
  ⟨hp.uniq, hp.suniq, hp.used, hpos, hple, hlen, hm⟩

omit [MInv] in
theorem jumps_cons (i : Instr) (c : Code) : jumps (i :: c) = i.target?.toList ++ jumps c := by
  simp only [jumps, List.filterMap_cons]
  cases h : i.target? <;> simp

omit [MInv] in
theorem jumps_nil : jumps [] = [] := rfl

/-- Normal form of emitted code for the case analyses: a cons list with `++` re-associated. -/
macro "norm_code" " at " h:ident : tactic =>
  `(tactic| simp only [compile, List.cons_append, List.nil_append, List.append_assoc] at $h:ident ⊢)

/-- Membership of a jump target in normal-form code. -/
macro "jmp" : tactic =>
  `(tactic| simp [jumps_cons, jumps_append, jumps_nil, Instr.target?, *])

/-! ### sequence -/

theorem good_seq_fail {e es p evs} (ih : Good P cfg env inp e p .fail evs) :
    Good P cfg env inp (.seq (e :: es)) p .fail evs := by
  intro ko pd pmk st code pc s f hc hp hlead
  simp only [Lead, LeadL] at hlead
  cases es with
  | nil =>
    simp only [compile, compileSeq] at hc ⊢
    exact ih ko pd pmk st code pc s f hc hp hlead
  | cons e' es' =>
    simp only [compile, compileSeq] at hc ⊢
    obtain ⟨s2, f2, hF, hj, hst⟩ := ih ko pd pmk st code pc s f hc.left hp hlead
    exact ⟨s2, f2, hF, by simp [jumps_append, hj], hst⟩

theorem good_seq_ok_fail {e es p p1 f1 evs1 evs2}
    (hev : Eval G cfg.rho inp e p (.ok p1 f1) evs1)
    (hev2 : Eval G cfg.rho inp (.seq es) p1 .fail evs2)
    (ih1 : Good P cfg env inp e p (.ok p1 f1) evs1)
    (ih2 : Good P cfg env inp (.seq es) p1 .fail evs2) :
    Good P cfg env inp (.seq (e :: es)) p .fail (evs1 ++ evs2) := by
  intro ko pd pmk st code pc s f hc hp hlead
  simp only [Lead, LeadL] at hlead
  cases es with
  | nil => cases hev2
  | cons e' es' =>
    simp only [compile, compileSeq] at hc ⊢
    obtain ⟨s1, fr1, hS, hst1⟩ := ih1 ko pd pmk st code pc s f hc.left hp hlead
    have hp1 : Pre env inp code s1 p1 :=
      hp.move hS.pos (Eval_bound hev hp.ple _ _ rfl).2 hS.len hS.memo
    have hc2 := hc.right
    obtain ⟨s2, f2, hF, hj, hst2⟩ := ih2 ko false false _ code _ s1 fr1 (by simpa only [compile] using hc2) hp1 (Lead_false _ _ _ _)
    refine ⟨s2, f2, hS.trans_failed hp.len hF (compile_mono _ _ _ _ _ _), ?_, ?_⟩
    · simp only [compile] at hj; simp [jumps_append, hj]
    · intro pcko hl; exact hst1.trans (hst2 pcko hl)

theorem good_seq_ok {e es p p1 f1 evs1 p2 f2 evs2}
    (hev : Eval G cfg.rho inp e p (.ok p1 f1) evs1)
    (hev2 : Eval G cfg.rho inp (.seq es) p1 (.ok p2 f2) evs2)
    (ih1 : Good P cfg env inp e p (.ok p1 f1) evs1)
    (ih2 : Good P cfg env inp (.seq es) p1 (.ok p2 f2) evs2) :
    Good P cfg env inp (.seq (e :: es)) p (.ok p2 (f1 ++ f2)) (evs1 ++ evs2) := by
  intro ko pd pmk st code pc s f hc hp hlead
  simp only [Lead, LeadL] at hlead
  cases es with
  | nil =>
    cases hev2
    simp only [compile, compileSeq] at hc ⊢
    simpa using ih1 ko pd pmk st code pc s f hc hp hlead
  | cons e' es' =>
    simp only [compile, compileSeq] at hc ⊢
    obtain ⟨s1, fr1, hS, hst1⟩ := ih1 ko pd pmk st code pc s f hc.left hp hlead
    have hp1 : Pre env inp code s1 p1 :=
      hp.move hS.pos (Eval_bound hev hp.ple _ _ rfl).2 hS.len hS.memo
    have hc2 := hc.right
    obtain ⟨s2, fr2, hS2, hst2⟩ := ih2 ko false false _ code _ s1 fr1 (by simpa only [compile] using hc2) hp1 (Lead_false _ _ _ _)
    refine ⟨s2, fr2, ?_, ?_⟩
    · rw [postorderL_append]
      exact hS.trans hS2 (compile_mono _ _ _ _ _ _)
    · simp only [compile] at hst2
      exact (hst1.trans hst2).cast (by simp [List.length_append]; omega)

/-! ### lookahead -/

theorem good_peekFor_ok {e p p1 f1 evs}
    (ih : Good P cfg env inp e p (.ok p1 f1) evs) :
    Good P cfg env inp (.peekFor e) p (.ok p []) evs := by
  intro ko pd pmk st code pc s f hc hp _
  have hlead := Lead_false inp p false e
  norm_code at hc
  obtain ⟨h1, hc⟩ := hc.head
  obtain ⟨h2, hc⟩ := hc.head
  have hcb := hc.left
  obtain ⟨h3, hc⟩ := hc.right.head
  obtain ⟨h4, _⟩ := hc.head
  obtain ⟨s1, fr1, hS, hst⟩ := ih ko false false _ code _ s (f.set st.label (s.pos, s.ti)) hcb hp hlead
  have hfr : fr1 st.label = (p, s.ti) := by
    rw [hS.frame st.label (Nat.lt_succ_self _)]; simp [Frame.set, hp.pos]
  obtain ⟨hk, hl⟩ := hS.keep hp.len
  refine ⟨{ s1 with pos := p, ti := s.ti }, fr1, ?_, ?_⟩
  · refine ⟨rfl, by simp, by simpa using hk, hl, ?_, hS.maxTok, hS.memo⟩
    intro n hn
    rw [hS.frame n (Nat.lt_succ_of_lt hn)]; simp [Frame.set]; omega
  · refine (Steps.next (s' := s) (f' := f) h1 (by simp [stepLocal])).trans ?_
    refine (Steps.next (s' := s) (f' := f.set st.label (s.pos, s.ti)) h2 (by simp [stepLocal])).trans ?_
    refine hst.trans ?_
    refine (Steps.next (s' := { s1 with pos := p, ti := s.ti }) (f' := fr1) h3 (by simp [stepLocal, hfr])).trans ?_
    exact (Steps.next (s' := { s1 with pos := p, ti := s.ti }) (f' := fr1) h4 (by simp [stepLocal])).cast
      (by simp [List.length_append]; omega)

theorem good_peekFor_fail {e p evs}
    (ih : Good P cfg env inp e p .fail evs) :
    Good P cfg env inp (.peekFor e) p .fail evs := by
  intro ko pd pmk st code pc s f hc hp _
  have hlead := Lead_false inp p false e
  norm_code at hc
  obtain ⟨h1, hc⟩ := hc.head
  obtain ⟨h2, hc⟩ := hc.head
  have hcb := hc.left
  obtain ⟨s2, fr2, hF, hj, hst⟩ := ih ko false false _ code _ s (f.set st.label (s.pos, s.ti)) hcb hp hlead
  refine ⟨s2, fr2, ?_, by jmp, ?_⟩
  · refine ⟨hF.keep, hF.len, ?_, hF.maxTok, hF.memo⟩
    intro n hn
    rw [hF.frame n (Nat.lt_succ_of_lt hn)]; simp [Frame.set]; omega
  · intro pcko hl
    refine (Steps.next (s' := s) (f' := f) h1 (by simp [stepLocal])).trans ?_
    refine (Steps.next (s' := s) (f' := f.set st.label (s.pos, s.ti)) h2 (by simp [stepLocal])).trans ?_
    exact (hst pcko hl)

theorem good_peekNot_ok {e p evs}
    (ih : Good P cfg env inp e p .fail evs) :
    Good P cfg env inp (.peekNot e) p (.ok p []) evs := by
  intro ko pd pmk st code pc s f hc hp _
  have hlead := Lead_false inp p false e
  have hcAll := hc
  norm_code at hc
  obtain ⟨h1, hc⟩ := hc.head
  obtain ⟨h2, hc⟩ := hc.head
  have hcb := hc.left
  obtain ⟨s2, fr2, hF, hj, hst⟩ := ih st.label false false _ code _ s (f.set st.label (s.pos, s.ti)) hcb hp hlead
  have hu : env.used st.label = true := hp.usedIn hcb hj
  obtain ⟨_, hc⟩ := hc.right.head
  simp only [CEnv.lbl, hu, ↓reduceIte, List.cons_append, List.nil_append] at hc
  have hlp := labelPos_of_uniq hp.uniq hc
  obtain ⟨h4, hc⟩ := hc.head
  obtain ⟨h5, hc⟩ := hc.head
  obtain ⟨h6, _⟩ := hc.head
  have hfr : fr2 st.label = (p, s.ti) := by
    rw [hF.frame st.label (Nat.lt_succ_self _)]; simp [Frame.set, hp.pos]
  refine ⟨{ s2 with pos := p, ti := s.ti }, fr2, ?_, ?_⟩
  · refine ⟨rfl, by simp, by simpa using hF.keep, hF.len, ?_, hF.maxTok, hF.memo⟩
    intro n hn
    rw [hF.frame n (Nat.lt_succ_of_lt hn)]; simp [Frame.set]; omega
  · refine (Steps.next (s' := s) (f' := f) h1 (by simp [stepLocal])).trans ?_
    refine (Steps.next (s' := s) (f' := f.set st.label (s.pos, s.ti)) h2 (by simp [stepLocal])).trans ?_
    refine (hst _ hlp).trans ?_
    refine (Steps.next (s' := s2) (f' := fr2) h4 (by simp [stepLocal])).trans ?_
    refine (Steps.next (s' := { s2 with pos := p, ti := s.ti }) (f' := fr2) h5 (by simp [stepLocal, hfr])).trans ?_
    exact (Steps.next (s' := { s2 with pos := p, ti := s.ti }) (f' := fr2) h6 (by simp [stepLocal])).cast
      (by simp [compile, List.length_append, CEnv.lbl, hu]; omega)

theorem good_peekNot_fail {e p p1 f1 evs}
    (ih : Good P cfg env inp e p (.ok p1 f1) evs) :
    Good P cfg env inp (.peekNot e) p .fail evs := by
  intro ko pd pmk st code pc s f hc hp _
  have hlead := Lead_false inp p false e
  norm_code at hc
  obtain ⟨h1, hc⟩ := hc.head
  obtain ⟨h2, hc⟩ := hc.head
  have hcb := hc.left
  obtain ⟨s1, fr1, hS, hst⟩ := ih st.label false false _ code _ s (f.set st.label (s.pos, s.ti)) hcb hp hlead
  obtain ⟨h3, _⟩ := hc.right.head
  obtain ⟨hk, hl⟩ := hS.keep hp.len
  refine ⟨s1, fr1, ?_, by jmp, ?_⟩
  · refine ⟨hk, hl, ?_, hS.maxTok, hS.memo⟩
    intro n hn
    rw [hS.frame n (Nat.lt_succ_of_lt hn)]; simp [Frame.set]; omega
  · intro pcko hlk
    refine (Steps.next (s' := s) (f' := f) h1 (by simp [stepLocal])).trans ?_
    refine (Steps.next (s' := s) (f' := f.set st.label (s.pos, s.ti)) h2 (by simp [stepLocal])).trans ?_
    refine hst.trans ?_
    exact Steps.jump h3 (by simp [stepLocal]) hlk

/-! ### optional -/

theorem good_query_ok {e p p1 f1 evs}
    (ih : Good P cfg env inp e p (.ok p1 f1) evs) :
    Good P cfg env inp (.query e) p (.ok p1 f1) evs := by
  intro ko pd pmk st code pc s f hc hp hlead
  simp only [Lead] at hlead
  have hu : env.used (st.label + 1) = true := hp.usedIn hc (by norm_code at hc; jmp)
  norm_code at hc
  obtain ⟨h1, hc⟩ := hc.head
  obtain ⟨h2, hc⟩ := hc.head
  have hcb := hc.left
  obtain ⟨s1, fr1, hS, hst⟩ := ih st.label pd pmk _ code _ s (f.set st.label (s.pos, s.ti)) hcb hp hlead
  obtain ⟨h3, hc⟩ := hc.right.head
  have hc := hc.right
  obtain ⟨_, hc⟩ := hc.head
  obtain ⟨_, hc⟩ := hc.head
  simp only [CEnv.lbl, hu, ↓reduceIte] at hc
  have hlp := labelPos_of_uniq hp.uniq hc
  obtain ⟨h6, _⟩ := hc.head
  refine ⟨s1, fr1, ?_, ?_⟩
  · refine ⟨hS.pos, hS.ti, hS.live, hS.len, ?_, hS.maxTok, hS.memo⟩
    intro n hn
    rw [hS.frame n (by simp; omega)]; simp [Frame.set]; omega
  · refine (Steps.next (s' := s) (f' := f) h1 (by simp [stepLocal])).trans ?_
    refine (Steps.next (s' := s) (f' := f.set st.label (s.pos, s.ti)) h2 (by simp [stepLocal])).trans ?_
    refine hst.trans ?_
    refine (Steps.jump (s' := s1) (f' := fr1) h3 (by simp [stepLocal]) hlp).trans ?_
    exact (Steps.next (s' := s1) (f' := fr1) h6 (by simp [stepLocal])).cast
      (by simp [compile, List.length_append, CEnv.lbl, hu]; omega)

theorem good_query_none {e p evs}
    (ih : Good P cfg env inp e p .fail evs) :
    Good P cfg env inp (.query e) p (.ok p []) evs := by
  intro ko pd pmk st code pc s f hc hp hlead
  simp only [Lead] at hlead
  norm_code at hc
  obtain ⟨h1, hc⟩ := hc.head
  obtain ⟨h2, hc⟩ := hc.head
  have hcb := hc.left
  obtain ⟨s2, fr2, hF, hj, hst⟩ := ih st.label pd pmk _ code _ s (f.set st.label (s.pos, s.ti)) hcb hp hlead
  have hu : env.used st.label = true := hp.usedIn hcb hj
  obtain ⟨_, hc⟩ := hc.right.head
  simp only [CEnv.lbl, hu, ↓reduceIte, List.cons_append, List.nil_append] at hc
  have hlp := labelPos_of_uniq hp.uniq hc
  obtain ⟨h4, hc⟩ := hc.head
  obtain ⟨h5, hc⟩ := hc.head
  obtain ⟨h6, hc⟩ := hc.head
  have hfr : fr2 st.label = (p, s.ti) := by
    rw [hF.frame st.label (by simp)]; simp [Frame.set, hp.pos]
  have hSucc : Succ st.label s f { s2 with pos := p, ti := s.ti } fr2 p (postorderL []) evs := by
    refine ⟨rfl, by simp, by simpa using hF.keep, hF.len, ?_, hF.maxTok, hF.memo⟩
    intro n hn
    rw [hF.frame n (by simp; omega)]; simp [Frame.set]; omega
  have hsteps :=
    (Steps.next (P := P) (cfg := cfg) (inp := inp) (s := s) (f := f) (s' := s) (f' := f) h1 (by simp [stepLocal])).trans <|
    (Steps.next (s' := s) (f' := f.set st.label (s.pos, s.ti)) h2 (by simp [stepLocal])).trans <|
    (hst _ hlp).trans <|
    (Steps.next (s' := s2) (f' := fr2) h4 (by simp [stepLocal])).trans <|
    (Steps.next (s' := { s2 with pos := p, ti := s.ti }) (f' := fr2) h5 (by simp [stepLocal, hfr])).trans <|
    Steps.next (s' := { s2 with pos := p, ti := s.ti }) (f' := fr2) h6 (by simp [stepLocal])
  refine ⟨_, fr2, hSucc, ?_⟩
  by_cases hq : env.used (st.label + 1) = true
  · simp only [hq, ↓reduceIte] at hc
    obtain ⟨h7, _⟩ := hc.head
    refine hsteps.trans ?_
    exact (Steps.next (s' := { s2 with pos := p, ti := s.ti }) (f' := fr2) h7 (by simp [stepLocal])).cast
      (by simp [compile, List.length_append, CEnv.lbl, hu, hq]; omega)
  · exact hsteps.cast (by simp [compile, List.length_append, CEnv.lbl, hu, hq]; omega)

/-! ### token-producing wrappers: `<e>` and the implicit push of a rule -/

theorem compile_ipush_nonact {e : Expr} (h : e.isAct = false) (r : String) (ko : Nat) (pd pmk : Bool) (st : CSt) :
    compile env (.ipush e r) ko pd pmk st =
      ⟨[.bb, .savePos st.label] ++ (compile env e ko pd pmk { st with label := st.label + 1 }).code ++
        [.add r st.label] ++ [.be], (compile env e ko pd pmk { st with label := st.label + 1 }).st, false⟩ := by
  cases e <;> simp_all [compile, Expr.isAct]

theorem compile_push_nonact {e : Expr} (h : e.isAct = false) (hast : env.ast = true) (r : String) (ko : Nat)
    (pd pmk : Bool) (st : CSt) :
    compile env (.push e r) ko pd pmk st =
      ⟨[.bb, .savePos st.label] ++ (compile env e ko pd pmk { st with label := st.label + 1 }).code ++
        [.add r st.label] ++ [.be], (compile env e ko pd pmk { st with label := st.label + 1 }).st, false⟩ := by
  cases e <;> simp_all [compile, Expr.isAct]

/-- Shared argument for `<e>` and the implicit push: body, then `add(rule, positionN)`. -/
theorem good_wrap_ok (hW : World P cfg env G inp) {w e : Expr} {r p p1 f1 evs}
    (hw : ∀ ko pd pmk st, compile env w ko pd pmk st =
      ⟨[.bb, .savePos st.label] ++ (compile env e ko pd pmk { st with label := st.label + 1 }).code ++
        [.add r st.label] ++ [.be], (compile env e ko pd pmk { st with label := st.label + 1 }).st, false⟩)
    (hl : ∀ pd pmk, Lead inp p pd pmk w → Lead inp p pd pmk e)
    (ih : Good P cfg env inp e p (.ok p1 f1) evs) :
    Good P cfg env inp w p (.ok p1 [.node ⟨r, p, p1⟩ f1]) (evs ++ [⟨r, p, p1⟩]) := by
  intro ko pd pmk st code pc s f hc hp hlead
  rw [hw] at hc ⊢
  simp only [List.cons_append, List.nil_append, List.append_assoc] at hc ⊢
  obtain ⟨h1, hc⟩ := hc.head
  obtain ⟨h2, hc⟩ := hc.head
  have hcb := hc.left
  obtain ⟨h3, hc⟩ := hc.right.head
  obtain ⟨h4, _⟩ := hc.head
  obtain ⟨s1, fr1, hS, hst⟩ := ih ko pd pmk _ code _ s (f.set st.label (s.pos, (f st.label).2)) hcb hp (hl _ _ hlead)
  have hfr : (fr1 st.label).1 = p := by
    rw [hS.frame st.label (Nat.lt_succ_self _)]; simp [Frame.set, hp.pos]
  obtain ⟨hlive, hlen⟩ := treeAdd_live s1.tree ⟨r, p, s1.pos⟩ s1.ti hS.len
  refine ⟨doAdd cfg r p s1, fr1, ?_, ?_⟩
  · refine ⟨by simp [doAdd, hS.pos], ?_, ?_, ?_, ?_, ?_, ?_⟩
    · simp [doAdd, hS.ti]; omega
    · simp only [doAdd, hW.ast, ↓reduceIte, postorderL_cons, postorderL_nil, TokTree.postorder_node,
        List.append_nil]
      rw [hlive, hS.live, hS.pos]; simp
    · simpa [doAdd, hW.ast] using hlen
    · intro n hn
      rw [hS.frame n (Nat.lt_succ_of_lt hn)]; simp [Frame.set]; omega
    · rw [doAdd_maxTok, hS.maxTok, hS.pos]; simp
    · exact doAdd_memo_ok cfg r p s1 hS.memo
  · refine (Steps.next (s' := s) (f' := f) h1 (by simp [stepLocal])).trans ?_
    refine (Steps.next (s' := s) (f' := f.set st.label (s.pos, (f st.label).2)) h2 (by simp [stepLocal])).trans ?_
    refine hst.trans ?_
    refine (Steps.next (s' := doAdd cfg r p s1) (f' := fr1) h3 (by simp [stepLocal, hfr])).trans ?_
    exact (Steps.next (s' := doAdd cfg r p s1) (f' := fr1) h4 (by simp [stepLocal])).cast
      (by simp [List.length_append]; omega)

theorem good_wrap_fail {w e : Expr} {r p evs}
    (hw : ∀ ko pd pmk st, compile env w ko pd pmk st =
      ⟨[.bb, .savePos st.label] ++ (compile env e ko pd pmk { st with label := st.label + 1 }).code ++
        [.add r st.label] ++ [.be], (compile env e ko pd pmk { st with label := st.label + 1 }).st, false⟩)
    (hl : ∀ pd pmk, Lead inp p pd pmk w → Lead inp p pd pmk e)
    (ih : Good P cfg env inp e p .fail evs) :
    Good P cfg env inp w p .fail evs := by
  intro ko pd pmk st code pc s f hc hp hlead
  rw [hw] at hc ⊢
  simp only [List.cons_append, List.nil_append, List.append_assoc] at hc ⊢
  obtain ⟨h1, hc⟩ := hc.head
  obtain ⟨h2, hc⟩ := hc.head
  have hcb := hc.left
  obtain ⟨s2, fr2, hF, hj, hst⟩ := ih ko pd pmk _ code _ s (f.set st.label (s.pos, (f st.label).2)) hcb hp (hl _ _ hlead)
  refine ⟨s2, fr2, ?_, by jmp, ?_⟩
  · refine ⟨hF.keep, hF.len, ?_, hF.maxTok, hF.memo⟩
    intro n hn
    rw [hF.frame n (Nat.lt_succ_of_lt hn)]; simp [Frame.set]; omega
  · intro pcko hl
    refine (Steps.next (s' := s) (f' := f) h1 (by simp [stepLocal])).trans ?_
    refine (Steps.next (s' := s) (f' := f.set st.label (s.pos, (f st.label).2)) h2 (by simp [stepLocal])).trans ?_
    exact hst pcko hl

/-- An action rule: `add(ruleActionN, position)`. -/
theorem good_wrap_act (hW : World P cfg env G inp) {w : Expr} {r p}
    (hw : ∀ ko pd pmk st, (compile env w ko pd pmk st).code = [.bb, .addHere r, .be]) :
    Good P cfg env inp w p (.ok p [.node ⟨r, p, p⟩ []]) [⟨r, p, p⟩] := by
  intro ko pd pmk st code pc s f hc hp hlead
  rw [hw] at hc ⊢
  obtain ⟨h1, hc⟩ := hc.head
  obtain ⟨h2, hc⟩ := hc.head
  obtain ⟨h3, _⟩ := hc.head
  obtain ⟨hlive, hlen⟩ := treeAdd_live s.tree ⟨r, s.pos, s.pos⟩ s.ti hp.len
  refine ⟨doAdd cfg r s.pos s, f, ?_, ?_⟩
  · refine ⟨by simp [doAdd, hp.pos], by simp [doAdd], ?_, by simpa [doAdd, hW.ast] using hlen,
      fun _ _ => rfl, ?_, doAdd_memo_ok cfg r s.pos s hp.memo⟩
    · simp only [doAdd, hW.ast, ↓reduceIte, postorderL_cons, postorderL_nil, TokTree.postorder_node,
        List.append_nil]
      rw [hlive, hp.pos]; simp
    · rw [doAdd_maxTok, hp.pos]; simp
  · refine (Steps.next (s' := s) (f' := f) h1 (by simp [stepLocal])).trans ?_
    refine (Steps.next (s' := doAdd cfg r s.pos s) (f' := f) h2 (by simp [stepLocal])).trans ?_
    exact (Steps.next (s' := doAdd cfg r s.pos s) (f' := f) h3 (by simp [stepLocal]))

end PegVerif
