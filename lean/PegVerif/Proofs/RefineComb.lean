import PegVerif.Proofs.RefineTerm
import PegVerif.Proofs.SemLemmas
/-
  Refinement theorem R — composition lemmas for postconditions, and bounds on positions.
-/
namespace PegVerif

variable [MInv] {P : Program} {cfg : Cfg} {env : CEnv} {G : Grammar} {inp : List Sym}

omit [MInv] in
theorem foldl_updTok_append (mt : Token) (a b : List Token) :
    (a ++ b).foldl updTok mt = b.foldl updTok (a.foldl updTok mt) := by simp

theorem Succ.trans {lbl lbl1 s f s1 f1 s2 f2 p1 p2 t1 t2 e1 e2}
    (h1 : Succ lbl s f s1 f1 p1 t1 e1) (h2 : Succ lbl1 s1 f1 s2 f2 p2 t2 e2) (hl : lbl ≤ lbl1) :
    Succ lbl s f s2 f2 p2 (t1 ++ t2) (e1 ++ e2) where
  pos := h2.pos
  ti := by rw [h2.ti, h1.ti]; simp; omega
  live := by rw [h2.live, h1.live]; simp
  len := h2.len
  frame := fun n hn => by rw [h2.frame n (by omega), h1.frame n hn]
  maxTok := by rw [h2.maxTok, h1.maxTok]; simp
  memo := h2.memo

omit [MInv] in
theorem take_take_of_le {α} (l : List α) {a b : Nat} (h : a ≤ b) : (l.take b).take a = l.take a := by
  rw [List.take_take, Nat.min_eq_left h]

theorem Succ.trans_failed {lbl lbl1 s f s1 f1 s2 f2 p1 t1 e1 e2}
    (hlen : s.ti ≤ s.tree.length)
    (h1 : Succ lbl s f s1 f1 p1 t1 e1) (h2 : Failed lbl1 s1 f1 s2 f2 e2) (hl : lbl ≤ lbl1) :
    Failed lbl s f s2 f2 (e1 ++ e2) where
  keep := by
    have hle : s.ti ≤ s1.ti := by rw [h1.ti]; omega
    have := congrArg (List.take s.ti) h2.keep
    rw [take_take_of_le _ hle, take_take_of_le _ hle] at this
    rw [this]
    have := congrArg (List.take s.ti) h1.live
    rw [take_take_of_le _ hle] at this
    rw [this, List.take_append_of_le_length (by simp [hlen])]
    rw [List.take_take]; simp
  len := by have := h2.len; rw [h1.ti] at this; omega
  frame := fun n hn => by rw [h2.frame n (by omega), h1.frame n hn]
  maxTok := by rw [h2.maxTok, h1.maxTok]; simp
  memo := h2.memo

/-- A success whose tokens are then discarded by restoring the entry `(position, tokenIndex)`
    (lookahead, failed alternative …): the live prefix of the entry state is intact. -/
theorem Succ.keep {lbl s f s1 f1 p1 t1 e1} (hlen : s.ti ≤ s.tree.length)
    (h1 : Succ lbl s f s1 f1 p1 t1 e1) : s1.tree.take s.ti = s.tree.take s.ti ∧ s.ti ≤ s1.tree.length := by
  have hle : s.ti ≤ s1.ti := by rw [h1.ti]; omega
  refine ⟨?_, Nat.le_trans hle h1.len⟩
  have := congrArg (List.take s.ti) h1.live
  rw [take_take_of_le _ hle] at this
  rw [this, List.take_append_of_le_length (by simp [hlen])]
  rw [List.take_take]; simp

theorem Failed.weaken {lbl lbl1 s f s2 f2 e2} (h : Failed lbl1 s f s2 f2 e2) (hl : lbl ≤ lbl1) :
    Failed lbl s f s2 f2 e2 :=
  ⟨h.keep, h.len, fun n hn => h.frame n (by omega), h.maxTok, h.memo⟩

theorem Succ.weaken {lbl lbl1 s f s2 f2 p t e} (h : Succ lbl1 s f s2 f2 p t e) (hl : lbl ≤ lbl1) :
    Succ lbl s f s2 f2 p t e :=
  ⟨h.pos, h.ti, h.live, h.len, fun n hn => h.frame n (by omega), h.maxTok, h.memo⟩

/-- After a failed attempt the entry `(position, tokenIndex)` is restored (state `s3`) and another
    attempt succeeds. -/
theorem Failed.then_succ {lbl lbl1 s f s2 f2 s3 s' f' p' t e1 e2}
    (h1 : Failed lbl s f s2 f2 e1) (h2 : Succ lbl1 s3 f2 s' f' p' t e2)
    (ht : s3.tree = s2.tree) (hti : s3.ti = s.ti) (hmt : s3.maxTok = s2.maxTok) (hl : lbl ≤ lbl1) :
    Succ lbl s f s' f' p' t (e1 ++ e2) where
  pos := h2.pos
  ti := by rw [h2.ti, hti]
  live := by rw [h2.live, ht, hti, h1.keep]
  len := h2.len
  frame := fun n hn => by rw [h2.frame n (by omega), h1.frame n hn]
  maxTok := by rw [h2.maxTok, hmt, h1.maxTok]; simp
  memo := h2.memo

theorem Failed.then_failed {lbl lbl1 s f s2 f2 s3 s4 f4 e1 e2}
    (h1 : Failed lbl s f s2 f2 e1) (h2 : Failed lbl1 s3 f2 s4 f4 e2)
    (ht : s3.tree = s2.tree) (hti : s3.ti = s.ti) (hmt : s3.maxTok = s2.maxTok) (hl : lbl ≤ lbl1) :
    Failed lbl s f s4 f4 (e1 ++ e2) where
  keep := by have := h2.keep; rw [hti, ht] at this; rw [this, h1.keep]
  len := by have := h2.len; rw [hti] at this; exact this
  frame := fun n hn => by rw [h2.frame n (by omega), h1.frame n hn]
  maxTok := by rw [h2.maxTok, hmt, h1.maxTok]; simp
  memo := h2.memo

omit [MInv] in
/-- Positions only move forward and stay inside the input. -/
theorem Eval_bound {ρ : String → Nat → Bool} {e p res evs} (h : Eval G ρ inp e p res evs) :
    p ≤ inp.length → ∀ p1 f1, res = .ok p1 f1 → p ≤ p1 ∧ p1 ≤ inp.length := by
  induction h with
  | dot_ok h => intro _ p1 f1 e; cases e; have := inp_lt_of_some h; omega
  | chr_ok h => intro _ p1 f1 e; cases e; have := inp_lt_of_some h; omega
  | rng_ok h _ _ => intro _ p1 f1 e; cases e; have := inp_lt_of_some h; omega
  | str_ok h =>
    intro _ p1 f1 e; cases e
    simp only [matchesAt, Bool.and_eq_true, decide_eq_true_eq] at h
    omega
  | name _ _ ih => exact ih
  | inl _ ih => exact ih
  | seq_ok _ _ ih1 ih2 =>
    intro hp p1 f1 e; cases e
    have := ih1 hp _ _ rfl
    have := ih2 this.2 _ _ rfl
    omega
  | alt_last _ ih => exact ih
  | alt_ok _ ih => exact ih
  | alt_next _ _ _ ih2 => exact ih2
  | ualt _ _ ih => exact ih
  | query_ok _ ih => exact ih
  | star_step _ _ ih1 ih2 =>
    intro hp p1 f1 e; cases e
    have := ih1 hp _ _ rfl
    have := ih2 this.2 _ _ rfl
    omega
  | plus_ok _ _ ih1 ih2 =>
    intro hp p1 f1 e; cases e
    have := ih1 hp _ _ rfl
    have := ih2 this.2 _ _ rfl
    omega
  | push_ok _ _ ih => intro hp p1 f1 e; cases e; exact ih hp _ _ rfl
  | ipush_ok _ _ ih => intro hp p1 f1 e; cases e; exact ih hp _ _ rfl
  | _ => intro hp p1 f1 e; cases e <;> omega

end PegVerif
