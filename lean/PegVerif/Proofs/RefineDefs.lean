import PegVerif.Model.Sem
import PegVerif.Proofs.CodeLemmas
import PegVerif.Proofs.CompileLemmas
import PegVerif.Proofs.LeadDefs
import PegVerif.Proofs.SwitchCode
/-
  Definitions for the refinement theorem R ("the emitted code of an expression does what the PEG
  semantics says"), for the emission with AST support — including the `-switch` nodes
  (`TypeUnorderedAlternate`, see `Expr.fineS`, `Lead` in LeadDefs.lean and RefineSwitch.lean);
  memoisation may be on or off.

  `Good e p res evs` is stated backwards along the continuation (`Steps`), so the proof needs no
  fuel arithmetic: whatever the machine returns after the code of `e`, it returns from before it.
  It quantifies over the `parentDetect`/`parentMultipleKey` flags of `compile` (set inside a `case`
  of a switch), under the hypothesis `Lead` that the terminal tests elided because of them would
  have passed.
-/
namespace PegVerif

/-- The `maxToken` update of `add`: the first non-empty token that reaches furthest wins. -/
def updTok (mt t : Token) : Token := if t.b ≠ t.e ∧ t.e > mt.e then t else mt

theorem doAdd_maxTok (cfg : Cfg) (rule : String) (b : Nat) (s : St) :
    (doAdd cfg rule b s).maxTok = updTok s.maxTok ⟨rule, b, s.pos⟩ := by
  simp [doAdd, updTok]

theorem treeAdd_live (tree : List Token) (t : Token) (i : Nat) (h : i ≤ tree.length) :
    (treeAdd tree t i).take (i + 1) = tree.take i ++ [t] ∧ i + 1 ≤ (treeAdd tree t i).length := by
  unfold treeAdd
  split
  · next hge =>
    have : i = tree.length := by omega
    subst this
    refine ⟨?_, by simp⟩
    rw [List.take_of_length_le (by simp)]
    simp
  · next hlt =>
    have hlt' : i < tree.length := by omega
    refine ⟨?_, by simp; omega⟩
    apply List.ext_getElem?
    intro j
    simp only [List.getElem?_take, List.getElem?_set, List.getElem?_append, List.length_take]
    by_cases hj : j < i
    · simp [hj, Nat.lt_succ_of_lt hj, Nat.min_eq_left (Nat.le_of_lt hlt'), Nat.ne_of_gt hj]
    · by_cases hji : j = i
      · subst hji; simp [hlt', Nat.min_eq_left (Nat.le_of_lt hlt')]
      · have : ¬ j < i + 1 := by omega
        have h2 : ¬ j < min i tree.length := by omega
        have h3 : j - min i tree.length ≠ 0 := by
          rw [Nat.min_eq_left (Nat.le_of_lt hlt')]; omega
        simp [this, h2]
        cases hk : j - min i tree.length with
        | zero => exact absurd hk h3
        | succ k => simp

mutual
  /-- The `-switch`-free fragment (used by the `-noast` development; R itself covers `Expr.fineS`):
      no `TypeString`, no `-switch` node, terminals below the end symbol, and every referenced rule
      has an emitted function in `P`. -/
  def Expr.fine (P : Program) : Expr → Prop
    | .dot => True
    | .chr c => c ≠ END
    | .rng _ hi => hi < END
    | .str _ => False
    | .name n => (P.find n).isSome = true
    | .inl _ e => e.fine P
    | .pred _ => True
    | .stmt _ => True
    | .act _ => True
    | .seq es => fineL P es
    | .alt es => fineL P es
    | .ualt _ _ => False
    | .peekFor e => e.fine P
    | .peekNot e => e.fine P
    | .query e => e.fine P
    | .star e => e.fine P
    | .plus e => e.fine P
    | .push e _ => e.fine P
    | .ipush e _ => e.fine P
    | .nil => True
  def fineL (P : Program) : List Expr → Prop
    | [] => True
    | e :: es => e.fine P ∧ fineL P es
end

mutual
  /-- The fragment R covers under `-switch`: as `Expr.fine`, and a `TypeUnorderedAlternate` whose
      cases are in the fragment and whose elided terminal tests are justified by the case keys
      (`casesLeadOK`).  (`Expr.fine` itself is kept unchanged: the `-noast` development uses it.) -/
  def Expr.fineS (P : Program) : Expr → Prop
    | .dot => True
    | .chr c => c ≠ END
    | .rng _ hi => hi < END
    | .str _ => False
    | .name n => (P.find n).isSome = true
    | .inl _ e => e.fineS P
    | .pred _ => True
    | .stmt _ => True
    | .act _ => True
    | .seq es => fineSL P es
    | .alt es => fineSL P es
    | .ualt ks es => es ≠ [] ∧ fineSL P es ∧ casesLeadOK ks es = true
    | .peekFor e => e.fineS P
    | .peekNot e => e.fineS P
    | .query e => e.fineS P
    | .star e => e.fineS P
    | .plus e => e.fineS P
    | .push e _ => e.fineS P
    | .ipush e _ => e.fineS P
    | .nil => True
  def fineSL (P : Program) : List Expr → Prop
    | [] => True
    | e :: es => e.fineS P ∧ fineSL P es
end

mutual
  theorem Expr.fine.fineS {P : Program} : ∀ {e : Expr}, e.fine P → e.fineS P
    | .dot, _ => by simp only [Expr.fineS]
    | .chr _, h => by simpa only [Expr.fineS, Expr.fine] using h
    | .rng _ _, h => by simpa only [Expr.fineS, Expr.fine] using h
    | .str _, h => by simp only [Expr.fine] at h
    | .name _, h => by simpa only [Expr.fineS, Expr.fine] using h
    | .inl _ e, h => by
      simp only [Expr.fine] at h; simp only [Expr.fineS]; exact Expr.fine.fineS h
    | .pred _, _ => by simp only [Expr.fineS]
    | .stmt _, _ => by simp only [Expr.fineS]
    | .act _, _ => by simp only [Expr.fineS]
    | .seq es, h => by
      simp only [Expr.fine] at h; simp only [Expr.fineS]; exact fineL.fineSL h
    | .alt es, h => by
      simp only [Expr.fine] at h; simp only [Expr.fineS]; exact fineL.fineSL h
    | .ualt _ _, h => by simp only [Expr.fine] at h
    | .peekFor e, h => by
      simp only [Expr.fine] at h; simp only [Expr.fineS]; exact Expr.fine.fineS h
    | .peekNot e, h => by
      simp only [Expr.fine] at h; simp only [Expr.fineS]; exact Expr.fine.fineS h
    | .query e, h => by
      simp only [Expr.fine] at h; simp only [Expr.fineS]; exact Expr.fine.fineS h
    | .star e, h => by
      simp only [Expr.fine] at h; simp only [Expr.fineS]; exact Expr.fine.fineS h
    | .plus e, h => by
      simp only [Expr.fine] at h; simp only [Expr.fineS]; exact Expr.fine.fineS h
    | .push e _, h => by
      simp only [Expr.fine] at h; simp only [Expr.fineS]; exact Expr.fine.fineS h
    | .ipush e _, h => by
      simp only [Expr.fine] at h; simp only [Expr.fineS]; exact Expr.fine.fineS h
    | .nil, _ => by simp only [Expr.fineS]
  theorem fineL.fineSL {P : Program} : ∀ {es : List Expr}, fineL P es → fineSL P es
    | [], _ => by simp only [fineSL]
    | e :: es, h => by
      simp only [fineL] at h; simp only [fineSL]; exact ⟨Expr.fine.fineS h.1, fineL.fineSL h.2⟩
end

theorem fineSL_mem {P : Program} : ∀ {es : List Expr}, fineSL P es → ∀ e ∈ es, e.fineS P
  | [], _, e, he => by cases he
  | a :: as, h, e, he => by
    simp only [fineSL] at h
    cases he with
    | head => exact h.1
    | tail _ he' => exact fineSL_mem h.2 e he'

/-- The invariant of the memoisation table, kept abstract in the case analyses of R: a predicate
    on the table and on the end of the furthest token seen so far, monotone in the latter.  (The
    concrete invariant `MemoOK` — every entry agrees with the semantics and every token attempted
    while it was computed ends at or before `maxToken.end` — is defined in Refine.lean.) -/
class MInv where
  ok : List MemoEntry → Nat → Prop
  mono : ∀ {m : List MemoEntry} {e e' : Nat}, e ≤ e' → ok m e → ok m e'

/-- The memo key of rule `n`: the `id` of the first rule of that name. -/
def Grammar.idOf (G : Grammar) (n : String) : Nat := ((G.find n).map (·.id)).getD 0

/-- Static facts about the program and the run that R relies on. -/
structure World (P : Program) (cfg : Cfg) (env : CEnv) (G : Grammar) (inp : List Sym) : Prop where
  ast : cfg.ast = true
  envAst : env.ast = true
  inpOK : ∀ c ∈ inp, c ≠ END
  /-- `CheckAlwaysSucceeds` is sound: a rule called without failure branch never fails. -/
  always : ∀ n, env.always n = true → ∀ p evs, ¬ Eval G cfg.rho inp (.name n) p .fail evs
  /-- Every emitted function is the emission of its rule's body. -/
  rules : ∀ n cr, P.find n = some cr → ∃ (r : Rule) (b : Expr) (kr : Nat) (stb : CSt),
    G.body n = some b ∧ cr = (ruleFunc env r b kr stb).1 ∧ kr < stb.label ∧ Uniq cr ∧
    (∀ l ∈ jumps cr, env.used l = true) ∧ b.fineS P ∧ r.id = G.idOf n ∧ (∃ e, b = .ipush e n)
  /-- Memo keys identify rules. -/
  idInj : ∀ n1 n2, (P.find n1).isSome = true → (P.find n2).isSome = true → G.idOf n1 = G.idOf n2 → n1 = n2

/-- Preconditions on the point of the code and the state where an expression starts. -/
structure Pre [MInv] (env : CEnv) (inp : List Sym) (code : Code) (s : St) (p : Nat) : Prop where
  uniq : Uniq code
  suniq : SUniq code
  used : ∀ l ∈ jumps code, env.used l = true
  pos : s.pos = p
  ple : p ≤ inp.length
  len : s.ti ≤ s.tree.length
  memo : MInv.ok s.memo s.maxTok.e

/-- Postcondition of a successful match: position, `tokenIndex`, the live prefix of the token
    buffer grown by exactly the tokens of the derivation, saves of enclosing constructs intact,
    `maxToken` folded over every attempted token. -/
structure Succ [MInv] (lbl : Nat) (s : St) (f : Frame) (s' : St) (f' : Frame) (p' : Nat)
    (toks evs : List Token) : Prop where
  pos : s'.pos = p'
  ti : s'.ti = s.ti + toks.length
  live : s'.tree.take s'.ti = s.tree.take s.ti ++ toks
  len : s'.ti ≤ s'.tree.length
  frame : ∀ n, n < lbl → f' n = f n
  maxTok : s'.maxTok = evs.foldl updTok s.maxTok
  memo : MInv.ok s'.memo s'.maxTok.e

/-- State in which control arrives at the failure label: the live prefix of the entry state is
    untouched (position and `tokenIndex` are arbitrary — the restore happens at the label site). -/
structure Failed [MInv] (lbl : Nat) (s : St) (f : Frame) (s'' : St) (f'' : Frame) (evs : List Token) : Prop where
  keep : s''.tree.take s.ti = s.tree.take s.ti
  len : s.ti ≤ s''.tree.length
  frame : ∀ n, n < lbl → f'' n = f n
  maxTok : s''.maxTok = evs.foldl updTok s.maxTok
  memo : MInv.ok s''.memo s''.maxTok.e

section
variable [MInv] (P : Program) (cfg : Cfg) (env : CEnv) (inp : List Sym)

/-- The emitted code of `e` refines the outcome `res` of the PEG semantics at `p` — for every
    setting of the `parentDetect`/`parentMultipleKey` flags under which the elided terminal tests
    would have passed (`Lead`). -/
def Good (e : Expr) (p : Nat) (res : Res) (evs : List Token) : Prop :=
  ∀ (ko : Nat) (pd pmk : Bool) (st : CSt) (code : Code) (pc : Nat) (s : St) (f : Frame),
    CodeAt code pc (compile env e ko pd pmk st).code → Pre env inp code s p →
    Lead inp p pd pmk e →
    match res with
    | .ok p' forest => ∃ s' f', Succ st.label s f s' f' p' (postorderL forest) evs ∧
        Steps P cfg inp code pc s f (pc + (compile env e ko pd pmk st).code.length) s' f'
    | .fail => ∃ s'' f'', Failed st.label s f s'' f'' evs ∧
        ko ∈ jumps (compile env e ko pd pmk st).code ∧
        ∀ pcko, labelPos code ko = some pcko → Steps P cfg inp code pc s f pcko s'' f''

/-- Tail of an ordered choice: `compileAlt es ok ko` followed by the `}` and the `ok` label; slot
    `ok` holds the choice's entry state. Both exits (fall through / `goto ok`) reach `pcAfter`. -/
def GoodAlt (es : List Expr) (p : Nat) (res : Res) (evs : List Token) : Prop :=
  ∀ (ok ko : Nat) (pd pmk : Bool) (st : CSt) (code : Code) (pc : Nat) (s : St) (f : Frame),
    CodeAt code pc ((compileAlt env es ok ko pd pmk st).code ++ [Instr.be] ++ env.lbl ok) →
    Pre env inp code s p → ok < st.label → f ok = (p, s.ti) →
    LeadL inp p pd pmk es →
    match res with
    | .ok p' forest => ∃ s' f', Succ st.label s f s' f' p' (postorderL forest) evs ∧
        Steps P cfg inp code pc s f
          (pc + (compileAlt env es ok ko pd pmk st).code.length + 1 + (env.lbl ok).length) s' f'
    | .fail => ∃ s'' f'', Failed st.label s f s'' f'' evs ∧
        ko ∈ jumps (compileAlt env es ok ko pd pmk st).code ∧
        ∀ pcko, labelPos code ko = some pcko → Steps P cfg inp code pc s f pcko s'' f''

/-- The loop of `e*` (also the second half of `e+`): labels `again`/`out` allocated anywhere below
    the body's labels.  The body is compiled without `parentDetect`: neither `e+` nor `e*` hands
    the flags down (the body is re-run at later positions). -/
def loopCode (e : Expr) (again out : Nat) (stb : CSt) : Code :=
  env.lbl again ++ [Instr.bb, Instr.save out] ++ (compile env e out false false stb).code ++
    [Instr.goto again] ++ env.lbl out ++ [Instr.restore out, Instr.be]

def GoodLoop (e : Expr) (p : Nat) (res : Res) (evs : List Token) : Prop :=
  ∀ (again out : Nat) (stb : CSt) (code : Code) (pc : Nat) (s : St) (f : Frame),
    CodeAt code pc (loopCode env e again out stb) → Pre env inp code s p →
    again < stb.label → out < stb.label →
    match res with
    | .ok p' forest => ∃ s' f', Succ (min again out) s f s' f' p' (postorderL forest) evs ∧
        (∀ n, n < stb.label → n ≠ out → f' n = f n) ∧
        Steps P cfg inp code pc s f (pc + (loopCode env e again out stb).length) s' f'
    | .fail => False

end

theorem jumps_append (a b : Code) : jumps (a ++ b) = jumps a ++ jumps b := by
  simp [jumps, List.filterMap_append]

theorem jumps_sub_of_codeAt {code pc c} (h : CodeAt code pc c) : ∀ l ∈ jumps c, l ∈ jumps code := by
  obtain ⟨pre, post, rfl, _⟩ := h
  intro l hl
  simp [jumps_append, hl]

theorem Pre.usedIn [MInv] {env inp code s p pc c l} (hp : Pre env inp code s p) (h : CodeAt code pc c)
    (hl : l ∈ jumps c) : env.used l = true :=
  hp.used l (jumps_sub_of_codeAt h l hl)

/-- `buffer[p]` for a position inside the input. -/
theorem buf_lt {inp : List Sym} {p : Nat} (h : p < inp.length) : (bufOf inp)[p]? = inp[p]? := by
  simp [bufOf, List.getElem?_append_left h]

theorem buf_end (inp : List Sym) : (bufOf inp)[inp.length]? = some END := by
  simp [bufOf]

/-- What `buffer[p]` is for `p ≤ |inp|`: the input symbol, or the end symbol at the end. -/
theorem buf_cases {inp : List Sym} {p : Nat} (h : p ≤ inp.length) :
    (∃ c, inp[p]? = some c ∧ (bufOf inp)[p]? = some c) ∨
    (inp[p]? = none ∧ p = inp.length ∧ (bufOf inp)[p]? = some END) := by
  by_cases hp : p < inp.length
  · left; exact ⟨inp[p], by simp [hp], by rw [buf_lt hp]; simp [hp]⟩
  · right
    have : p = inp.length := by omega
    subst this
    exact ⟨by simp, rfl, buf_end inp⟩

end PegVerif
