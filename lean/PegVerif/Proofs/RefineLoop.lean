import PegVerif.Proofs.RefineAlt
/-
  Refinement theorem R — repetition (`*`, `+`) and rule calls.
-/
namespace PegVerif

variable [MInv] {P : Program} {cfg : Cfg} {env : CEnv} {G : Grammar} {inp : List Sym}

/-- The repeated expression fails: leave the loop through `out`, restoring the iteration's entry. -/
theorem goodLoop_stop {e p evs} (ih : Good P cfg env inp e p .fail evs) :
    GoodLoop P cfg env inp e p (.ok p []) evs := by
  intro again out stb code pc s f hc hp hag hout
  unfold loopCode at hc ⊢
  simp only [List.append_assoc, List.cons_append, List.nil_append] at hc
  -- leading label (present iff something jumps to it)
  obtain ⟨pc0, hpc0, hlead, hc⟩ : ∃ pc0, pc0 = pc + (env.lbl again).length ∧
      Steps P cfg inp code pc s f pc0 s f ∧
      CodeAt code pc0 (Instr.bb :: Instr.save out :: ((compile env e out false false stb).code ++
        Instr.goto again :: (env.lbl out ++ [Instr.restore out, Instr.be]))) := by
    by_cases hu : env.used again = true
    · simp only [CEnv.lbl, hu, ↓reduceIte, List.cons_append, List.nil_append] at hc ⊢
      obtain ⟨h0, hc⟩ := hc.head
      exact ⟨pc + 1, by simp, Steps.next h0 (by simp [stepLocal]), hc⟩
    · simp only [CEnv.lbl, hu, List.nil_append] at hc ⊢
      exact ⟨pc, by simp, Steps.refl, hc⟩
  obtain ⟨h1, hc⟩ := hc.head
  obtain ⟨h2, hc⟩ := hc.head
  have hcb := hc.left
  obtain ⟨s2, fr2, hF, hj, hst⟩ := ih out false false stb code _ s (f.set out (s.pos, s.ti)) hcb hp (Lead_false _ _ _ _)
  have hu : env.used out = true := hp.usedIn hcb hj
  obtain ⟨_, hc⟩ := hc.right.head
  simp only [CEnv.lbl, hu, ↓reduceIte, List.cons_append, List.nil_append] at hc
  have hlp := labelPos_of_uniq hp.uniq hc
  obtain ⟨h4, hc⟩ := hc.head
  obtain ⟨h5, hc⟩ := hc.head
  obtain ⟨h6, _⟩ := hc.head
  have hfr : fr2 out = (p, s.ti) := by rw [hF.frame out hout]; simp [Frame.set, hp.pos]
  have hframe : ∀ n, n < stb.label → n ≠ out → fr2 n = f n := by
    intro n hn hne; rw [hF.frame n hn]; simp [Frame.set, hne]
  refine ⟨{ s2 with pos := p, ti := s.ti }, fr2, ?_, hframe, ?_⟩
  · refine ⟨rfl, by simp, by simpa using hF.keep, hF.len, ?_, hF.maxTok, hF.memo⟩
    intro n hn
    exact hframe n (by omega) (by omega)
  · have hsteps := hlead.trans <|
      (Steps.next (s' := s) (f' := f) h1 (by simp [stepLocal])).trans <|
      (Steps.next (s' := s) (f' := f.set out (s.pos, s.ti)) h2 (by simp [stepLocal])).trans <|
      (hst _ hlp).trans <|
      (Steps.next (s' := s2) (f' := fr2) h4 (by simp [stepLocal])).trans <|
      (Steps.next (s' := { s2 with pos := p, ti := s.ti }) (f' := fr2) h5 (by simp [stepLocal, hfr])).trans <|
      Steps.next (s' := { s2 with pos := p, ti := s.ti }) (f' := fr2) h6 (by simp [stepLocal])
    exact hsteps.cast (by simp [List.length_append, CEnv.lbl, hu] at hpc0 ⊢; omega)

/-- One more iteration succeeds: `goto again` re-enters the same code. -/
theorem goodLoop_step {e p p1 f1 evs1 p2 f2 evs2}
    (hev : Eval G cfg.rho inp e p (.ok p1 f1) evs1)
    (ih1 : Good P cfg env inp e p (.ok p1 f1) evs1)
    (ih2 : GoodLoop P cfg env inp e p1 (.ok p2 f2) evs2) :
    GoodLoop P cfg env inp e p (.ok p2 (f1 ++ f2)) (evs1 ++ evs2) := by
  intro again out stb code pc s f hc hp hag hout
  have hcAll := hc
  unfold loopCode at hc
  have hua : env.used again = true := hp.usedIn hc (by jmp)
  simp only [CEnv.lbl, hua, ↓reduceIte, List.append_assoc, List.cons_append, List.nil_append] at hc
  have hlp := labelPos_of_uniq hp.uniq hc
  obtain ⟨h0, hc⟩ := hc.head
  obtain ⟨h1, hc⟩ := hc.head
  obtain ⟨h2, hc⟩ := hc.head
  have hcb := hc.left
  obtain ⟨s1, fr1, hS, hst⟩ := ih1 out false false stb code _ s (f.set out (s.pos, s.ti)) hcb hp (Lead_false _ _ _ _)
  obtain ⟨h3, _⟩ := hc.right.head
  have hp1 : Pre env inp code s1 p1 :=
    hp.move hS.pos (Eval_bound hev hp.ple _ _ rfl).2 hS.len hS.memo
  obtain ⟨s', f', hS2, hfr2, hst2⟩ := ih2 again out stb code pc s1 fr1 hcAll hp1 hag hout
  have hS1 : Succ (min again out) s f s1 fr1 p1 (postorderL f1) evs1 := by
    refine ⟨hS.pos, hS.ti, hS.live, hS.len, ?_, hS.maxTok, hS.memo⟩
    intro n hn
    rw [hS.frame n (by omega)]; simp [Frame.set]; omega
  refine ⟨s', f', ?_, ?_, ?_⟩
  · rw [postorderL_append]; exact hS1.trans hS2 (Nat.le_refl _)
  · intro n hn hne
    rw [hfr2 n hn hne, hS.frame n hn]; simp [Frame.set, hne]
  · have hsteps :=
      (Steps.next (P := P) (cfg := cfg) (inp := inp) (s := s) (f := f) (s' := s) (f' := f) h0 (by simp [stepLocal])).trans <|
      (Steps.next (s' := s) (f' := f) h1 (by simp [stepLocal])).trans <|
      (Steps.next (s' := s) (f' := f.set out (s.pos, s.ti)) h2 (by simp [stepLocal])).trans <|
      hst.trans <|
      (Steps.jump (s' := s1) (f' := fr1) h3 (by simp [stepLocal]) hlp).trans hst2
    exact hsteps

theorem good_star_of_loop {e p res evs} (h : GoodLoop P cfg env inp e p res evs) :
    Good P cfg env inp (.star e) p res evs := by
  intro ko pd pmk st code pc s f hc hp _
  have h' := h st.label (st.label + 1) { st with label := st.label + 2 } code pc s f
    (by simpa [compile, loopCode] using hc) hp (by simp) (by simp)
  cases res with
  | ok p' forest =>
    obtain ⟨s', f', hS, _, hst⟩ := h'
    refine ⟨s', f', by simpa using hS, ?_⟩
    exact hst.cast (by simp [compile, loopCode])
  | fail => exact h'.elim

theorem good_plus_fail {e p evs} (ih : Good P cfg env inp e p .fail evs) :
    Good P cfg env inp (.plus e) p .fail evs := by
  intro ko pd pmk st code pc s f hc hp _
  simp only [compile, List.append_assoc] at hc ⊢
  obtain ⟨s2, fr2, hF, hj, hst⟩ := ih ko false false { st with label := st.label + 2 } code pc s f hc.left hp
    (Lead_false _ _ _ _)
  exact ⟨s2, fr2, hF.weaken (by simp), by simp [jumps_append, hj], hst⟩

theorem good_plus_ok {e p p1 f1 evs1 p2 f2 evs2}
    (hev : Eval G cfg.rho inp e p (.ok p1 f1) evs1)
    (ih1 : Good P cfg env inp e p (.ok p1 f1) evs1)
    (ih2 : GoodLoop P cfg env inp e p1 (.ok p2 f2) evs2) :
    Good P cfg env inp (.plus e) p (.ok p2 (f1 ++ f2)) (evs1 ++ evs2) := by
  intro ko pd pmk st code pc s f hc hp _
  have hc' : CodeAt code pc ((compile env e ko false false { st with label := st.label + 2 }).code ++
      loopCode env e st.label (st.label + 1) (compile env e ko false false { st with label := st.label + 2 }).st) := by
    simpa [compile, loopCode] using hc
  obtain ⟨s1, fr1, hS, hst⟩ := ih1 ko false false { st with label := st.label + 2 } code pc s f hc'.left hp (Lead_false _ _ _ _)
  have hp1 : Pre env inp code s1 p1 :=
    hp.move hS.pos (Eval_bound hev hp.ple _ _ rfl).2 hS.len hS.memo
  have hmono := compile_mono env e ko false false { st with label := st.label + 2 }
  obtain ⟨s', f', hS2, _, hst2⟩ := ih2 st.label (st.label + 1) _ code _ s1 fr1 hc'.right hp1
    (by simp at hmono; omega) (by simp at hmono; omega)
  refine ⟨s', f', ?_, ?_⟩
  · rw [postorderL_append]
    exact (hS.weaken (lbl := st.label) (by simp)).trans (by simpa using hS2) (Nat.le_refl _)
  · exact (hst.trans hst2).cast (by simp [compile, loopCode, List.length_append]; omega)

end PegVerif
