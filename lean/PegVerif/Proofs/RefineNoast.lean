import PegVerif.Proofs.RefineNoastAlt
import PegVerif.Proofs.MachineLemmas
/-
  Refinement theorem RN (`-noast`): rule calls, the induction over the derivation (`RN_all`), and
  the statement for one emitted rule function (`RN_rule`, `RN_rule_all`).
-/
namespace PegVerif
open Noast

variable {K : NKit} {P : Program} {cfg : Cfg} {env : CEnv} {G : Grammar} {inp : List Sym}

/-- The effect of a whole rule function on the shared state (no frame: the callee's locals die). -/
structure StEffN (K : NKit) (inp : List Sym) (s s' : St) (evs : List Token) : Prop where
  maxTok : s'.maxTok = (noCap evs).foldl updTok s.maxTok
  obs : obsN K s' = evs.foldl (inlineStep K.codeOf inp) (obsN K s)
  tree : s'.tree = s.tree
  memo : s'.memo = s.memo

theorem EffN.st {lbl s f s' f' evs} (h : EffN K inp lbl s f s' f' evs) : StEffN K inp s s' evs :=
  ⟨h.maxTok, h.obs, h.tree, h.memo⟩

/-- The `-noast` shape of an emitted rule function: no memo instructions; the entry save and the
    failure tail exist iff something jumps to the rule's failure label. -/
theorem ruleFunc_noast (hast : env.ast = false) (r : Rule) (b : Expr) (kr : Nat) (stb : CSt) :
    (ruleFunc env r b kr stb).1 =
      if env.used kr then
        Instr.save kr :: ((compile env b kr false false stb).code ++
          Instr.retT :: [Instr.label kr, Instr.restore kr, Instr.retF])
      else (compile env b kr false false stb).code ++ [Instr.retT] := by
  simp only [ruleFunc, hast]
  by_cases hu : env.used kr = true <;> simp [hu]

/-- Running the emitted `-noast` function of a rule returns what the semantics of its body says. -/
theorem calleeN_exec {cr : Code} {r : Rule} {b : Expr} {kr : Nat} {stb : CSt} {p res evs}
    (hast : env.ast = false)
    (hcr : cr = (ruleFunc env r b kr stb).1) (hkr : kr < stb.label)
    (huniq : Uniq cr) (hused : ∀ l ∈ jumps cr, env.used l = true)
    (ih : GoodN K P cfg env inp b p res evs) {s : St}
    (hpos : s.pos = p) (hple : p ≤ inp.length) :
    match res with
    | .ok p' _ => ∃ s', Exec P cfg inp cr 0 s Frame.empty (.ret true, s') ∧ s'.pos = p' ∧
        StEffN K inp s s' evs
    | .fail => ∃ s3, Exec P cfg inp cr 0 s Frame.empty (.ret false, s3) ∧ s3.pos = p ∧ s3.ti = s.ti ∧
        StEffN K inp s s3 evs := by
  have hc : CodeAt cr 0 cr := CodeAt.whole cr
  have hcr' := hcr
  rw [ruleFunc_noast hast] at hcr'
  have hpre : PreN env inp cr s p := ⟨huniq, hused, hpos, hple⟩
  by_cases hu : env.used kr = true
  · simp only [hu, ↓reduceIte] at hcr'
    rw [hcr'] at hc
    obtain ⟨h1, hc⟩ := hc.head
    rw [← hcr'] at h1 hc
    have hcb := hc.left
    have hstart : Steps P cfg inp cr 0 s Frame.empty (0 + 1) s (Frame.empty.set kr (s.pos, s.ti)) :=
      Steps.next (s' := s) (f' := Frame.empty.set kr (s.pos, s.ti)) h1 (by simp [stepLocal])
    have h' := ih kr stb cr (0 + 1) s (Frame.empty.set kr (s.pos, s.ti)) hcb hpre
    cases res with
    | ok p' forest =>
      obtain ⟨s', f', hp', hE, hst⟩ := h'
      obtain ⟨h2, _⟩ := hc.right.head
      exact ⟨s', hstart _ (hst _ (Exec.ret h2 (by simp [stepLocal]))), hp', hE.st⟩
    | fail =>
      obtain ⟨s2, f2, hF, hj, hst⟩ := h'
      obtain ⟨_, hc2⟩ := hc.right.head
      have hlp := labelPos_of_uniq huniq hc2
      obtain ⟨h4, hc2⟩ := hc2.head
      obtain ⟨h5, hc2⟩ := hc2.head
      obtain ⟨h6, _⟩ := hc2.head
      have hfr : f2 kr = (p, s.ti) := by rw [hF.frame kr hkr]; simp [Frame.set, hpos]
      refine ⟨{ s2 with pos := p, ti := s.ti }, ?_, rfl, rfl, (hF.repos _ _).st⟩
      apply hstart
      apply hst _ hlp
      apply (Steps.next (s' := s2) (f' := f2) h4 (by simp [stepLocal]))
      apply (Steps.next (s' := { s2 with pos := p, ti := s.ti }) (f' := f2) h5 (by simp [stepLocal, hfr]))
      exact Exec.ret h6 (by simp [stepLocal])
  · simp only [hu] at hcr'
    rw [hcr'] at hc
    have hcb := hc.left
    have hcr2 := hc.right
    rw [← hcr'] at hcb hcr2
    have h' := ih kr stb cr 0 s Frame.empty hcb hpre
    cases res with
    | ok p' forest =>
      obtain ⟨s', f', hp', hE, hst⟩ := h'
      obtain ⟨h2, _⟩ := hcr2.head
      exact ⟨s', hst _ (Exec.ret h2 (by simp [stepLocal])), hp', hE.st⟩
    | fail =>
      obtain ⟨s2, f2, hF, hj, hst⟩ := h'
      exact absurd (hused kr (jumps_sub_of_codeAt hcb kr hj)) hu

theorem goodN_name (hW : WorldN K P cfg env G inp) {n b p res evs} (hb : G.body n = some b)
    (hfine : (Expr.name n).fine P) (hev : Eval G cfg.rho inp b p res evs)
    (ih : GoodN K P cfg env inp b p res evs) :
    GoodN K P cfg env inp (.name n) p res evs := by
  intro ko st code pc s f hc hp
  simp only [Expr.fine] at hfine
  obtain ⟨cr, hfind⟩ := Option.isSome_iff_exists.mp hfine
  obtain ⟨r, b', kr, stb, hb', hcr, hkr, huniq, hused, _, _⟩ := hW.rules n cr hfind
  rw [hb] at hb'; cases hb'
  have hcallee := calleeN_exec (K := K) (P := P) (cfg := cfg) hW.envAst hcr hkr huniq hused ih hp.pos hp.ple
  simp only [compile] at hc ⊢
  cases res with
  | ok p' forest =>
    obtain ⟨s', hex, hpos, hE⟩ := hcallee
    refine ⟨s', f, hpos, ⟨fun _ _ => rfl, hE.maxTok, hE.obs, hE.tree, hE.memo⟩, ?_⟩
    by_cases ha : env.always n = true
    · simp only [ha, ↓reduceIte] at hc ⊢
      obtain ⟨h1, _⟩ := hc.head
      exact fun res hres => Exec.callOk (l := none) h1 (by simp [stepLocal]) hfind hex (Or.inl rfl) hres
    · simp only [ha] at hc ⊢
      obtain ⟨h1, _⟩ := hc.head
      exact fun res hres => Exec.callOk (l := some ko) h1 (by simp [stepLocal]) hfind hex (Or.inl rfl) hres
  | fail =>
    obtain ⟨s3, hex, hpos, hti, hE⟩ := hcallee
    by_cases ha : env.always n = true
    · exact absurd (Eval.name hb hev) (hW.always n ha p evs)
    · simp only [ha] at hc ⊢
      obtain ⟨h1, _⟩ := hc.head
      refine ⟨s3, f, ⟨fun _ _ => rfl, hE.maxTok, hE.obs, hE.tree, hE.memo⟩, by simp [jumps, Instr.target?], ?_⟩
      intro pcko hl
      exact fun res hres => Exec.callFail h1 (by simp [stepLocal]) hfind hex hl hres

theorem goodN_inl {n e p res evs} (ih : GoodN K P cfg env inp e p res evs) :
    GoodN K P cfg env inp (.inl n e) p res evs := by
  intro ko st code pc s f hc hp
  have := ih ko st code pc s f (by simpa [compile] using hc) hp
  simpa [compile] using this

/-- The three statements proved together by induction on the derivation. -/
def MotiveN (K : NKit) (P : Program) (cfg : Cfg) (env : CEnv) (inp : List Sym) (e : Expr) (p : Nat)
    (res : Res) (evs : List Token) : Prop :=
  e.fine P → e.okN K →
    GoodN K P cfg env inp e p res evs ∧
    (∀ es, e = .alt es → GoodAltN K P cfg env inp es p res evs) ∧
    (∀ e', e = .star e' → GoodLoopN K P cfg env inp e' p res evs)

theorem MotiveN.leaf {e : Expr} {p res evs} (hna : ∀ es, e ≠ .alt es) (hns : ∀ e', e ≠ .star e')
    (h : e.fine P → e.okN K → GoodN K P cfg env inp e p res evs) : MotiveN K P cfg env inp e p res evs :=
  fun hf hk => ⟨h hf hk, fun es he => absurd he (hna es), fun e' he => absurd he (hns e')⟩

/-- **RN**: for every derivation of the PEG semantics, the emitted `-noast` code of the expression
    does the same — verdict, consumed prefix, `maxToken` over the non-capture events — and runs the
    actions inline: trace and `text` are those of `reachTrace` over the events; token buffer and
    memo table are never touched.  From any point of any rule body. -/
theorem RN_all (hW : WorldN K P cfg env G inp) {e p res evs} (h : Eval G cfg.rho inp e p res evs) :
    MotiveN K P cfg env inp e p res evs := by
  induction h with
  | dot_ok h => exact MotiveN.leaf (by intro _ h; cases h) (by intro _ h; cases h) (fun _ _ => goodN_dot_ok hW h)
  | dot_fail h => exact MotiveN.leaf (by intro _ h; cases h) (by intro _ h; cases h) (fun _ _ => goodN_dot_fail h)
  | chr_ok h => exact MotiveN.leaf (by intro _ h; cases h) (by intro _ h; cases h) (fun _ _ => goodN_chr_ok h)
  | chr_fail h =>
    exact MotiveN.leaf (by intro _ h; cases h) (by intro _ h; cases h)
      (fun hf _ => goodN_chr_fail (by simpa [Expr.fine] using hf) h)
  | rng_ok h hl hh =>
    exact MotiveN.leaf (by intro _ h; cases h) (by intro _ h; cases h) (fun _ _ => goodN_rng_ok h hl hh)
  | rng_fail h =>
    exact MotiveN.leaf (by intro _ h; cases h) (by intro _ h; cases h)
      (fun hf _ => goodN_rng_fail (by simpa [Expr.fine] using hf) h)
  | str_ok _ => exact fun hf => by simp [Expr.fine] at hf
  | str_fail _ => exact fun hf => by simp [Expr.fine] at hf
  | @name n b p res evs hb hev ih =>
    refine MotiveN.leaf (by intro _ h; cases h) (by intro _ h; cases h) (fun hf _ => ?_)
    have hbf : b.fine P ∧ b.okN K := by
      have hf' := hf
      simp only [Expr.fine] at hf'
      obtain ⟨cr, hfind⟩ := Option.isSome_iff_exists.mp hf'
      obtain ⟨_, b', _, _, hb', _, _, _, _, hfb, hkb⟩ := hW.rules n cr hfind
      rw [hb] at hb'; cases hb'; exact ⟨hfb, hkb⟩
    exact goodN_name hW hb hf hev (ih hbf.1 hbf.2).1
  | inl _ ih =>
    exact MotiveN.leaf (by intro _ h; cases h) (by intro _ h; cases h)
      (fun hf hk => goodN_inl (ih (by simpa [Expr.fine] using hf) (by simpa [Expr.okN] using hk)).1)
  | pred_ok h => exact MotiveN.leaf (by intro _ h; cases h) (by intro _ h; cases h) (fun _ _ => goodN_pred_ok h)
  | pred_fail h => exact MotiveN.leaf (by intro _ h; cases h) (by intro _ h; cases h) (fun _ _ => goodN_pred_fail h)
  | stmt =>
    exact MotiveN.leaf (by intro _ h; cases h) (by intro _ h; cases h)
      (fun _ hk => goodN_stmt (by simpa [Expr.okN] using hk))
  | act => exact MotiveN.leaf (by intro _ h; cases h) (by intro _ h; cases h) (fun _ _ => goodN_act)
  | nil => exact MotiveN.leaf (by intro _ h; cases h) (by intro _ h; cases h) (fun _ _ => goodN_nil)
  | seq_nil => exact MotiveN.leaf (by intro _ h; cases h) (by intro _ h; cases h) (fun _ _ => goodN_seq_nil)
  | seq_fail _ ih =>
    refine MotiveN.leaf (by intro _ h; cases h) (by intro _ h; cases h) (fun hf hk => ?_)
    simp only [Expr.fine, fineL] at hf
    simp only [Expr.okN, okNL] at hk
    exact goodN_seq_fail (ih hf.1 hk.1).1
  | seq_ok_fail h1 h2 ih1 ih2 =>
    refine MotiveN.leaf (by intro _ h; cases h) (by intro _ h; cases h) (fun hf hk => ?_)
    simp only [Expr.fine, fineL] at hf
    simp only [Expr.okN, okNL] at hk
    exact goodN_seq_ok_fail h1 h2 (ih1 hf.1 hk.1).1
      (ih2 (by simpa [Expr.fine] using hf.2) (by simpa [Expr.okN] using hk.2)).1
  | seq_ok h1 h2 ih1 ih2 =>
    refine MotiveN.leaf (by intro _ h; cases h) (by intro _ h; cases h) (fun hf hk => ?_)
    simp only [Expr.fine, fineL] at hf
    simp only [Expr.okN, okNL] at hk
    exact goodN_seq_ok h1 h2 (ih1 hf.1 hk.1).1
      (ih2 (by simpa [Expr.fine] using hf.2) (by simpa [Expr.okN] using hk.2)).1
  | alt_last _ ih =>
    intro hf hk
    simp only [Expr.fine, fineL] at hf
    simp only [Expr.okN, okNL] at hk
    have g := (ih hf.1 hk.1).1
    exact ⟨goodN_alt_of_goodAlt (goodAltN_last g), fun es h => by cases h; exact goodAltN_last g,
      fun _ h => by cases h⟩
  | alt_ok _ ih =>
    intro hf hk
    simp only [Expr.fine, fineL] at hf
    simp only [Expr.okN, okNL] at hk
    have g := (ih hf.1 hk.1).1
    exact ⟨goodN_alt_of_goodAlt (goodAltN_ok g), fun es h => by cases h; exact goodAltN_ok g,
      fun _ h => by cases h⟩
  | alt_next _ _ ih1 ih2 =>
    intro hf hk
    simp only [Expr.fine, fineL] at hf
    simp only [Expr.okN, okNL] at hk
    have g1 := (ih1 hf.1 hk.1).1
    have g2 := (ih2 (by simpa [Expr.fine, fineL] using hf.2) (by simpa [Expr.okN, okNL] using hk.2)).2.1 _ rfl
    exact ⟨goodN_alt_of_goodAlt (goodAltN_next g1 g2), fun es h => by cases h; exact goodAltN_next g1 g2,
      fun _ h => by cases h⟩
  | ualt _ _ _ => exact fun hf => by simp [Expr.fine] at hf
  | peekFor_ok _ ih =>
    exact MotiveN.leaf (by intro _ h; cases h) (by intro _ h; cases h)
      (fun hf hk => goodN_peekFor_ok (ih (by simpa [Expr.fine] using hf) (by simpa [Expr.okN] using hk)).1)
  | peekFor_fail _ ih =>
    exact MotiveN.leaf (by intro _ h; cases h) (by intro _ h; cases h)
      (fun hf hk => goodN_peekFor_fail (ih (by simpa [Expr.fine] using hf) (by simpa [Expr.okN] using hk)).1)
  | peekNot_ok _ ih =>
    exact MotiveN.leaf (by intro _ h; cases h) (by intro _ h; cases h)
      (fun hf hk => goodN_peekNot_ok (ih (by simpa [Expr.fine] using hf) (by simpa [Expr.okN] using hk)).1)
  | peekNot_fail _ ih =>
    exact MotiveN.leaf (by intro _ h; cases h) (by intro _ h; cases h)
      (fun hf hk => goodN_peekNot_fail (ih (by simpa [Expr.fine] using hf) (by simpa [Expr.okN] using hk)).1)
  | query_ok _ ih =>
    exact MotiveN.leaf (by intro _ h; cases h) (by intro _ h; cases h)
      (fun hf hk => goodN_query_ok (ih (by simpa [Expr.fine] using hf) (by simpa [Expr.okN] using hk)).1)
  | query_none _ ih =>
    exact MotiveN.leaf (by intro _ h; cases h) (by intro _ h; cases h)
      (fun hf hk => goodN_query_none (ih (by simpa [Expr.fine] using hf) (by simpa [Expr.okN] using hk)).1)
  | star_stop _ ih =>
    intro hf hk
    have g := goodLoopN_stop (ih (by simpa [Expr.fine] using hf) (by simpa [Expr.okN] using hk)).1
    exact ⟨goodN_star_of_loop g, (fun _ h => by cases h), (fun _ h => by cases h; exact g)⟩
  | star_step h1 _ ih1 ih2 =>
    intro hf hk
    have g := goodLoopN_step h1 (ih1 (by simpa [Expr.fine] using hf) (by simpa [Expr.okN] using hk)).1
      ((ih2 hf hk).2.2 _ rfl)
    exact ⟨goodN_star_of_loop g, (fun _ h => by cases h), (fun _ h => by cases h; exact g)⟩
  | plus_fail _ ih =>
    exact MotiveN.leaf (by intro _ h; cases h) (by intro _ h; cases h)
      (fun hf hk => goodN_plus_fail (ih (by simpa [Expr.fine] using hf) (by simpa [Expr.okN] using hk)).1)
  | @plus_ok e p p1 f1 evs1 p2 f2 evs2 h1 _ ih1 ih2 =>
    refine MotiveN.leaf (by intro _ h; cases h) (by intro _ h; cases h) (fun hf hk => ?_)
    have hf' : e.fine P := by simpa [Expr.fine] using hf
    have hk' : e.okN K := by simpa [Expr.okN] using hk
    exact goodN_plus_ok h1 (ih1 hf' hk').1
      ((ih2 (by simpa [Expr.fine] using hf') (by simpa [Expr.okN] using hk')).2.2 _ rfl)
  | @push_ok e r p p1 f1 evs hn hev ih =>
    refine MotiveN.leaf (by intro _ h; cases h) (by intro _ h; cases h) (fun hf hk => ?_)
    simp only [Expr.okN] at hk
    obtain ⟨hr, _, hke⟩ := hk
    subst hr
    exact goodN_push_ok hW hn hev (ih (by simpa [Expr.fine] using hf) hke).1
  | @push_fail e r p evs hn _ ih =>
    refine MotiveN.leaf (by intro _ h; cases h) (by intro _ h; cases h) (fun hf hk => ?_)
    simp only [Expr.okN] at hk
    exact goodN_wrap_fail (tail := Instr.cap)
      (fun ko st => compile_push_nonact_noast hn hW.envAst _ ko false false st)
      (ih (by simpa [Expr.fine] using hf) hk.2.2).1
  | push_act =>
    refine MotiveN.leaf (by intro _ h; cases h) (by intro _ h; cases h) (fun _ hk => ?_)
    simp [Expr.okN, Expr.isAct] at hk
  | @ipush_ok e r p p1 f1 evs hn _ ih =>
    refine MotiveN.leaf (by intro _ h; cases h) (by intro _ h; cases h) (fun hf hk => ?_)
    simp only [Expr.okN] at hk
    obtain ⟨hr, _, hnone, hke⟩ := hk
    exact goodN_ipush_ok hW hn hr (hnone hn) (ih (by simpa [Expr.fine] using hf) hke).1
  | @ipush_fail e r p evs hn _ ih =>
    refine MotiveN.leaf (by intro _ h; cases h) (by intro _ h; cases h) (fun hf hk => ?_)
    simp only [Expr.okN] at hk
    exact goodN_wrap_fail (tail := Instr.add r)
      (fun ko st => compile_ipush_nonact_noast hn _ ko false false st)
      (ih (by simpa [Expr.fine] using hf) hk.2.2.2).1
  | @ipush_act c r p =>
    refine MotiveN.leaf (by intro _ h; cases h) (by intro _ h; cases h) (fun _ hk => ?_)
    simp only [Expr.okN] at hk
    obtain ⟨hr, hact, _, _⟩ := hk
    exact goodN_ipush_act hW hr (hact c rfl).1 (hact c rfl).2

/-! ### One emitted rule function -/

/-- What the emitted `-noast` function of rule `n` returns, as prescribed by the semantics of `n`:
    verdict, end position (the entry position on failure), and the effect on the shared state —
    `maxToken`, inline trace, `text`; token buffer and memo table untouched. -/
def RuleSpecN (K : NKit) (inp : List Sym) (s : St) (p : Nat) (res : Res) (evs : List Token)
    (o : Outcome) (s' : St) : Prop :=
  match res with
  | .ok p' _ => o = .ret true ∧ s'.pos = p' ∧ StEffN K inp s s' evs
  | .fail => o = .ret false ∧ s'.pos = p ∧ StEffN K inp s s' evs

/-- **RN for a rule function**: there is a run of the emitted function of `n` from any state at a
    position inside the input, and it satisfies `RuleSpecN`. -/
theorem RN_rule (hW : WorldN K P cfg env G inp) {n cr p res evs s}
    (hfind : P.find n = some cr) (hev : Eval G cfg.rho inp (.name n) p res evs)
    (hpos : s.pos = p) (hple : p ≤ inp.length) :
    ∃ o s', Exec P cfg inp cr 0 s Frame.empty (o, s') ∧ RuleSpecN K inp s p res evs o s' := by
  cases hev with
  | name hb hev' =>
    obtain ⟨r, b', kr, stb, hb', hcr, hkr, huniq, hused, hfine, hok⟩ := hW.rules n cr hfind
    rw [hb] at hb'; cases hb'
    have h := calleeN_exec (K := K) (P := P) (cfg := cfg) hW.envAst hcr hkr huniq hused
      ((RN_all hW hev') hfine hok).1 hpos hple
    cases res with
    | ok p' forest =>
      obtain ⟨s', hex, h1, h2⟩ := h
      exact ⟨_, s', hex, rfl, h1, h2⟩
    | fail =>
      obtain ⟨s3, hex, h1, _, h2⟩ := h
      exact ⟨_, s3, hex, rfl, h1, h2⟩

/-- … and because the machine is deterministic, *every* run satisfies it. -/
theorem RN_rule_all (hW : WorldN K P cfg env G inp) {n cr p res evs s o s'}
    (hfind : P.find n = some cr) (hev : Eval G cfg.rho inp (.name n) p res evs)
    (hpos : s.pos = p) (hple : p ≤ inp.length)
    (hrun : Exec P cfg inp cr 0 s Frame.empty (o, s')) : RuleSpecN K inp s p res evs o s' := by
  obtain ⟨o1, s1, hex, hspec⟩ := RN_rule hW hfind hev hpos hple
  have := Exec_det hex hrun
  cases this
  exact hspec

end PegVerif
