import PegVerif.Proofs.RefineNoastDefs
/-
  Refinement theorem RN (`-noast`) — leaves, sequence, lookahead, optional, and the token-producing
  wrappers (where `-noast` differs: `cap`, inline action code, `add` without token buffer).
-/
namespace PegVerif
open Noast

variable {K : NKit} {P : Program} {cfg : Cfg} {env : CEnv} {G : Grammar} {inp : List Sym}

/-- Only the position changed. -/
theorem EffN.move {lbl s f} (p' : Nat) : EffN K inp lbl s f { s with pos := p' } f [] :=
  ⟨fun _ _ => rfl, rfl, rfl, rfl, rfl⟩

/-! ### leaves -/

theorem goodN_chr_ok {p c} (h : inp[p]? = some c) :
    GoodN K P cfg env inp (.chr c) p (.ok (p + 1) []) [] := by
  intro ko st code pc s f hc hp
  simp only [compile] at hc ⊢
  simp only [Bool.false_and, Bool.false_eq_true, ↓reduceIte] at hc ⊢
  obtain ⟨h1, hc1⟩ := hc.head
  obtain ⟨h2, _⟩ := hc1.head
  have hlt := inp_lt_of_some h
  have hb : (bufOf inp)[s.pos]? = some c := by rw [hp.pos, buf_lt hlt, h]
  refine ⟨{ s with pos := s.pos + 1 }, f, by simp [hp.pos], EffN.move _, ?_⟩
  refine Steps.trans (Steps.next (s' := s) (f' := f) h1 (by simp [stepLocal, hb])) ?_
  exact Steps.next h2 (by simp [stepLocal])

theorem goodN_chr_fail {p c} (hcE : c ≠ END) (h : inp[p]? ≠ some c) :
    GoodN K P cfg env inp (.chr c) p .fail [] := by
  intro ko st code pc s f hc hp
  simp only [compile] at hc ⊢
  simp only [Bool.false_and, Bool.false_eq_true, ↓reduceIte] at hc ⊢
  obtain ⟨h1, _⟩ := hc.head
  refine ⟨s, f, EffN.refl, by simp [jumps, Instr.target?], ?_⟩
  intro pcko hl
  rcases buf_cases hp.ple with ⟨x, hx, hbx⟩ | ⟨_, _, hbe⟩
  · have hne : x ≠ c := by intro e; subst e; exact h hx
    exact Steps.jump h1 (by rw [← hp.pos] at hbx; simp [stepLocal, hbx, hne]) hl
  · exact Steps.jump h1 (by rw [← hp.pos] at hbe; simp [stepLocal, hbe, Ne.symm hcE]) hl

theorem goodN_dot_ok (hW : WorldN K P cfg env G inp) {p c} (h : inp[p]? = some c) :
    GoodN K P cfg env inp .dot p (.ok (p + 1) []) [] := by
  intro ko st code pc s f hc hp
  simp only [compile] at hc ⊢
  simp only [Bool.false_eq_true, ↓reduceIte] at hc ⊢
  obtain ⟨h1, _⟩ := hc.head
  have hlt := inp_lt_of_some h
  have hb : (bufOf inp)[s.pos]? = some c := by rw [hp.pos, buf_lt hlt, h]
  have hcE : c ≠ END := hW.inpOK c (List.mem_of_getElem? h)
  refine ⟨{ s with pos := s.pos + 1 }, f, by simp [hp.pos], EffN.move _, ?_⟩
  exact Steps.next h1 (by simp [stepLocal, hb, hcE])

theorem goodN_dot_fail {p} (h : inp[p]? = none) :
    GoodN K P cfg env inp .dot p .fail [] := by
  intro ko st code pc s f hc hp
  simp only [compile] at hc ⊢
  simp only [Bool.false_eq_true, ↓reduceIte] at hc ⊢
  obtain ⟨h1, _⟩ := hc.head
  refine ⟨s, f, EffN.refl, by simp [jumps, Instr.target?], ?_⟩
  intro pcko hl
  rcases buf_cases hp.ple with ⟨x, hx, _⟩ | ⟨_, _, hbe⟩
  · rw [h] at hx; cases hx
  · exact Steps.jump h1 (by rw [← hp.pos] at hbe; simp [stepLocal, hbe]) hl

theorem goodN_rng_ok {p lo hi c} (h : inp[p]? = some c) (hl : lo ≤ c) (hh : c ≤ hi) :
    GoodN K P cfg env inp (.rng lo hi) p (.ok (p + 1) []) [] := by
  intro ko st code pc s f hc hp
  simp only [compile] at hc ⊢
  simp only [Bool.false_eq_true, ↓reduceIte] at hc ⊢
  obtain ⟨h1, hc1⟩ := hc.head
  obtain ⟨h2, _⟩ := hc1.head
  have hlt := inp_lt_of_some h
  have hb : (bufOf inp)[s.pos]? = some c := by rw [hp.pos, buf_lt hlt, h]
  have hnot : ¬ (c < lo ∨ c > hi) := by omega
  refine ⟨{ s with pos := s.pos + 1 }, f, by simp [hp.pos], EffN.move _, ?_⟩
  refine Steps.trans (Steps.next (s' := s) (f' := f) h1 (by simp [stepLocal, hb, hnot])) ?_
  exact Steps.next h2 (by simp [stepLocal])

theorem goodN_rng_fail {p lo hi} (hhi : hi < END)
    (h : ∀ c, inp[p]? = some c → c < lo ∨ hi < c) :
    GoodN K P cfg env inp (.rng lo hi) p .fail [] := by
  intro ko st code pc s f hc hp
  simp only [compile] at hc ⊢
  simp only [Bool.false_eq_true, ↓reduceIte] at hc ⊢
  obtain ⟨h1, _⟩ := hc.head
  refine ⟨s, f, EffN.refl, by simp [jumps, Instr.target?], ?_⟩
  intro pcko hl
  rcases buf_cases hp.ple with ⟨x, hx, hbx⟩ | ⟨_, _, hbe⟩
  · have hx' : x < lo ∨ x > hi := h x hx
    exact Steps.jump h1 (by rw [← hp.pos] at hbx; simp [stepLocal, hbx, hx']) hl
  · have : END < lo ∨ END > hi := Or.inr hhi
    exact Steps.jump h1 (by rw [← hp.pos] at hbe; simp [stepLocal, hbe, this]) hl

theorem goodN_pred_ok {p c} (h : cfg.rho c p = true) :
    GoodN K P cfg env inp (.pred c) p (.ok p []) [] := by
  intro ko st code pc s f hc hp
  simp only [compile] at hc ⊢
  obtain ⟨h1, _⟩ := hc.head
  exact ⟨s, f, hp.pos, EffN.refl, Steps.next h1 (by simp [stepLocal, hp.pos, h])⟩

theorem goodN_pred_fail {p c} (h : cfg.rho c p = false) :
    GoodN K P cfg env inp (.pred c) p .fail [] := by
  intro ko st code pc s f hc hp
  simp only [compile] at hc ⊢
  obtain ⟨h1, _⟩ := hc.head
  refine ⟨s, f, EffN.refl, by simp [jumps, Instr.target?], ?_⟩
  intro pcko hl
  exact Steps.jump h1 (by simp [stepLocal, hp.pos, h]) hl

/-- A state-change statement `!{…}` appends to the machine's trace an entry that is not compared. -/
theorem goodN_stmt {p c} (hk : K.keep c = false) : GoodN K P cfg env inp (.stmt c) p (.ok p []) [] := by
  intro ko st code pc s f hc hp
  simp only [compile] at hc ⊢
  obtain ⟨h1, _⟩ := hc.head
  refine ⟨{ s with trace := s.trace ++ [(c, s.text)] }, f, hp.pos, ?_, Steps.next h1 (by simp [stepLocal])⟩
  exact ⟨fun _ _ => rfl, rfl, by simp [obsN, List.filter_append, hk], rfl, rfl⟩

theorem goodN_empty {e : Expr} {p} (he : ∀ ko st, (compile env e ko false false st).code = []) :
    GoodN K P cfg env inp e p (.ok p []) [] := by
  intro ko st code pc s f hc hp
  rw [he]
  exact ⟨s, f, hp.pos, EffN.refl, by simpa using Steps.refl⟩

theorem goodN_act {p c} : GoodN K P cfg env inp (.act c) p (.ok p []) [] :=
  goodN_empty (by intro ko st; simp [compile])

theorem goodN_nil {p} : GoodN K P cfg env inp .nil p (.ok p []) [] :=
  goodN_empty (by intro ko st; simp [compile])

theorem goodN_seq_nil {p} : GoodN K P cfg env inp (.seq []) p (.ok p []) [] :=
  goodN_empty (by intro ko st; simp [compile, compileSeq])

/-! ### sequence -/

theorem goodN_seq_fail {e es p evs} (ih : GoodN K P cfg env inp e p .fail evs) :
    GoodN K P cfg env inp (.seq (e :: es)) p .fail evs := by
  intro ko st code pc s f hc hp
  cases es with
  | nil =>
    simp only [compile, compileSeq] at hc ⊢
    exact ih ko st code pc s f hc hp
  | cons e' es' =>
    simp only [compile, compileSeq] at hc ⊢
    obtain ⟨s2, f2, hF, hj, hst⟩ := ih ko st code pc s f hc.left hp
    exact ⟨s2, f2, hF, by simp [jumps_append, hj], hst⟩

theorem goodN_seq_ok_fail {e es p p1 f1 evs1 evs2}
    (hev : Eval G cfg.rho inp e p (.ok p1 f1) evs1)
    (hev2 : Eval G cfg.rho inp (.seq es) p1 .fail evs2)
    (ih1 : GoodN K P cfg env inp e p (.ok p1 f1) evs1)
    (ih2 : GoodN K P cfg env inp (.seq es) p1 .fail evs2) :
    GoodN K P cfg env inp (.seq (e :: es)) p .fail (evs1 ++ evs2) := by
  intro ko st code pc s f hc hp
  cases es with
  | nil => cases hev2
  | cons e' es' =>
    simp only [compile, compileSeq] at hc ⊢
    obtain ⟨s1, fr1, hpos1, hE, hst1⟩ := ih1 ko st code pc s f hc.left hp
    have hp1 : PreN env inp code s1 p1 := hp.move hpos1 (Eval_bound hev hp.ple _ _ rfl).2
    have hc2 := hc.right
    obtain ⟨s2, f2, hF, hj, hst2⟩ := ih2 ko _ code _ s1 fr1 (by simpa only [compile] using hc2) hp1
    refine ⟨s2, f2, hE.trans hF (compile_mono _ _ _ _ _ _), ?_, ?_⟩
    · simp only [compile] at hj; simp [jumps_append, hj]
    · intro pcko hl; exact hst1.trans (hst2 pcko hl)

theorem goodN_seq_ok {e es p p1 f1 evs1 p2 f2 evs2}
    (hev : Eval G cfg.rho inp e p (.ok p1 f1) evs1)
    (hev2 : Eval G cfg.rho inp (.seq es) p1 (.ok p2 f2) evs2)
    (ih1 : GoodN K P cfg env inp e p (.ok p1 f1) evs1)
    (ih2 : GoodN K P cfg env inp (.seq es) p1 (.ok p2 f2) evs2) :
    GoodN K P cfg env inp (.seq (e :: es)) p (.ok p2 (f1 ++ f2)) (evs1 ++ evs2) := by
  intro ko st code pc s f hc hp
  cases es with
  | nil =>
    cases hev2
    simp only [compile, compileSeq] at hc ⊢
    simpa using ih1 ko st code pc s f hc hp
  | cons e' es' =>
    simp only [compile, compileSeq] at hc ⊢
    obtain ⟨s1, fr1, hpos1, hE, hst1⟩ := ih1 ko st code pc s f hc.left hp
    have hp1 : PreN env inp code s1 p1 := hp.move hpos1 (Eval_bound hev hp.ple _ _ rfl).2
    have hc2 := hc.right
    obtain ⟨s2, fr2, hpos2, hE2, hst2⟩ := ih2 ko _ code _ s1 fr1 (by simpa only [compile] using hc2) hp1
    refine ⟨s2, fr2, hpos2, hE.trans hE2 (compile_mono _ _ _ _ _ _), ?_⟩
    simp only [compile] at hst2
    exact (hst1.trans hst2).cast (by simp [List.length_append]; omega)

/-! ### lookahead -/

theorem goodN_peekFor_ok {e p p1 f1 evs}
    (ih : GoodN K P cfg env inp e p (.ok p1 f1) evs) :
    GoodN K P cfg env inp (.peekFor e) p (.ok p []) evs := by
  intro ko st code pc s f hc hp
  norm_code at hc
  obtain ⟨h1, hc⟩ := hc.head
  obtain ⟨h2, hc⟩ := hc.head
  have hcb := hc.left
  obtain ⟨h3, hc⟩ := hc.right.head
  obtain ⟨h4, _⟩ := hc.head
  obtain ⟨s1, fr1, _, hE, hst⟩ := ih ko _ code _ s (f.set st.label (s.pos, s.ti)) hcb hp
  have hfr : fr1 st.label = (p, s.ti) := by
    rw [hE.frame st.label (Nat.lt_succ_self _)]; simp [Frame.set, hp.pos]
  refine ⟨{ s1 with pos := p, ti := s.ti }, fr1, rfl,
    (hE.unset (Nat.le_succ _) (Nat.le_refl _)).repos _ _, ?_⟩
  refine (Steps.next (s' := s) (f' := f) h1 (by simp [stepLocal])).trans ?_
  refine (Steps.next (s' := s) (f' := f.set st.label (s.pos, s.ti)) h2 (by simp [stepLocal])).trans ?_
  refine hst.trans ?_
  refine (Steps.next (s' := { s1 with pos := p, ti := s.ti }) (f' := fr1) h3 (by simp [stepLocal, hfr])).trans ?_
  exact (Steps.next (s' := { s1 with pos := p, ti := s.ti }) (f' := fr1) h4 (by simp [stepLocal])).cast
    (by simp [List.length_append]; omega)

theorem goodN_peekFor_fail {e p evs}
    (ih : GoodN K P cfg env inp e p .fail evs) :
    GoodN K P cfg env inp (.peekFor e) p .fail evs := by
  intro ko st code pc s f hc hp
  norm_code at hc
  obtain ⟨h1, hc⟩ := hc.head
  obtain ⟨h2, hc⟩ := hc.head
  have hcb := hc.left
  obtain ⟨s2, fr2, hF, hj, hst⟩ := ih ko _ code _ s (f.set st.label (s.pos, s.ti)) hcb hp
  refine ⟨s2, fr2, hF.unset (Nat.le_succ _) (Nat.le_refl _), by jmp, ?_⟩
  intro pcko hl
  refine (Steps.next (s' := s) (f' := f) h1 (by simp [stepLocal])).trans ?_
  refine (Steps.next (s' := s) (f' := f.set st.label (s.pos, s.ti)) h2 (by simp [stepLocal])).trans ?_
  exact (hst pcko hl)

theorem goodN_peekNot_ok {e p evs}
    (ih : GoodN K P cfg env inp e p .fail evs) :
    GoodN K P cfg env inp (.peekNot e) p (.ok p []) evs := by
  intro ko st code pc s f hc hp
  norm_code at hc
  obtain ⟨h1, hc⟩ := hc.head
  obtain ⟨h2, hc⟩ := hc.head
  have hcb := hc.left
  obtain ⟨s2, fr2, hF, hj, hst⟩ := ih st.label _ code _ s (f.set st.label (s.pos, s.ti)) hcb hp
  have hu : env.used st.label = true := hp.usedIn hcb hj
  obtain ⟨_, hc⟩ := hc.right.head
  simp only [CEnv.lbl, hu, ↓reduceIte, List.cons_append, List.nil_append] at hc
  have hlp := labelPos_of_uniq hp.uniq hc
  obtain ⟨h4, hc⟩ := hc.head
  obtain ⟨h5, hc⟩ := hc.head
  obtain ⟨h6, _⟩ := hc.head
  have hfr : fr2 st.label = (p, s.ti) := by
    rw [hF.frame st.label (Nat.lt_succ_self _)]; simp [Frame.set, hp.pos]
  refine ⟨{ s2 with pos := p, ti := s.ti }, fr2, rfl,
    (hF.unset (Nat.le_succ _) (Nat.le_refl _)).repos _ _, ?_⟩
  refine (Steps.next (s' := s) (f' := f) h1 (by simp [stepLocal])).trans ?_
  refine (Steps.next (s' := s) (f' := f.set st.label (s.pos, s.ti)) h2 (by simp [stepLocal])).trans ?_
  refine (hst _ hlp).trans ?_
  refine (Steps.next (s' := s2) (f' := fr2) h4 (by simp [stepLocal])).trans ?_
  refine (Steps.next (s' := { s2 with pos := p, ti := s.ti }) (f' := fr2) h5 (by simp [stepLocal, hfr])).trans ?_
  exact (Steps.next (s' := { s2 with pos := p, ti := s.ti }) (f' := fr2) h6 (by simp [stepLocal])).cast
    (by simp [List.length_append, CEnv.lbl, hu]; omega)

theorem goodN_peekNot_fail {e p p1 f1 evs}
    (ih : GoodN K P cfg env inp e p (.ok p1 f1) evs) :
    GoodN K P cfg env inp (.peekNot e) p .fail evs := by
  intro ko st code pc s f hc hp
  norm_code at hc
  obtain ⟨h1, hc⟩ := hc.head
  obtain ⟨h2, hc⟩ := hc.head
  have hcb := hc.left
  obtain ⟨s1, fr1, _, hE, hst⟩ := ih st.label _ code _ s (f.set st.label (s.pos, s.ti)) hcb hp
  obtain ⟨h3, _⟩ := hc.right.head
  refine ⟨s1, fr1, hE.unset (Nat.le_succ _) (Nat.le_refl _), by jmp, ?_⟩
  intro pcko hlk
  refine (Steps.next (s' := s) (f' := f) h1 (by simp [stepLocal])).trans ?_
  refine (Steps.next (s' := s) (f' := f.set st.label (s.pos, s.ti)) h2 (by simp [stepLocal])).trans ?_
  refine hst.trans ?_
  exact Steps.jump h3 (by simp [stepLocal]) hlk

/-! ### optional -/

theorem goodN_query_ok {e p p1 f1 evs}
    (ih : GoodN K P cfg env inp e p (.ok p1 f1) evs) :
    GoodN K P cfg env inp (.query e) p (.ok p1 f1) evs := by
  intro ko st code pc s f hc hp
  have hu : env.used (st.label + 1) = true := hp.usedIn hc (by norm_code at hc; jmp)
  norm_code at hc
  obtain ⟨h1, hc⟩ := hc.head
  obtain ⟨h2, hc⟩ := hc.head
  have hcb := hc.left
  obtain ⟨s1, fr1, hpos1, hE, hst⟩ := ih st.label _ code _ s (f.set st.label (s.pos, s.ti)) hcb hp
  obtain ⟨h3, hc⟩ := hc.right.head
  have hc := hc.right
  obtain ⟨_, hc⟩ := hc.head
  obtain ⟨_, hc⟩ := hc.head
  simp only [CEnv.lbl, hu, ↓reduceIte] at hc
  have hlp := labelPos_of_uniq hp.uniq hc
  obtain ⟨h6, _⟩ := hc.head
  refine ⟨s1, fr1, hpos1, hE.unset (by simp) (Nat.le_refl _), ?_⟩
  refine (Steps.next (s' := s) (f' := f) h1 (by simp [stepLocal])).trans ?_
  refine (Steps.next (s' := s) (f' := f.set st.label (s.pos, s.ti)) h2 (by simp [stepLocal])).trans ?_
  refine hst.trans ?_
  refine (Steps.jump (s' := s1) (f' := fr1) h3 (by simp [stepLocal]) hlp).trans ?_
  exact (Steps.next (s' := s1) (f' := fr1) h6 (by simp [stepLocal])).cast
    (by simp [List.length_append, CEnv.lbl, hu]; omega)

theorem goodN_query_none {e p evs}
    (ih : GoodN K P cfg env inp e p .fail evs) :
    GoodN K P cfg env inp (.query e) p (.ok p []) evs := by
  intro ko st code pc s f hc hp
  norm_code at hc
  obtain ⟨h1, hc⟩ := hc.head
  obtain ⟨h2, hc⟩ := hc.head
  have hcb := hc.left
  obtain ⟨s2, fr2, hF, hj, hst⟩ := ih st.label _ code _ s (f.set st.label (s.pos, s.ti)) hcb hp
  have hu : env.used st.label = true := hp.usedIn hcb hj
  obtain ⟨_, hc⟩ := hc.right.head
  simp only [CEnv.lbl, hu, ↓reduceIte, List.cons_append, List.nil_append] at hc
  have hlp := labelPos_of_uniq hp.uniq hc
  obtain ⟨h4, hc⟩ := hc.head
  obtain ⟨h5, hc⟩ := hc.head
  obtain ⟨h6, hc⟩ := hc.head
  have hfr : fr2 st.label = (p, s.ti) := by
    rw [hF.frame st.label (by simp)]; simp [Frame.set, hp.pos]
  have hEff : EffN K inp st.label s f { s2 with pos := p, ti := s.ti } fr2 evs :=
    (hF.unset (by simp) (Nat.le_refl _)).repos _ _
  have hsteps :=
    (Steps.next (P := P) (cfg := cfg) (inp := inp) (s := s) (f := f) (s' := s) (f' := f) h1 (by simp [stepLocal])).trans <|
    (Steps.next (s' := s) (f' := f.set st.label (s.pos, s.ti)) h2 (by simp [stepLocal])).trans <|
    (hst _ hlp).trans <|
    (Steps.next (s' := s2) (f' := fr2) h4 (by simp [stepLocal])).trans <|
    (Steps.next (s' := { s2 with pos := p, ti := s.ti }) (f' := fr2) h5 (by simp [stepLocal, hfr])).trans <|
    Steps.next (s' := { s2 with pos := p, ti := s.ti }) (f' := fr2) h6 (by simp [stepLocal])
  refine ⟨_, fr2, rfl, hEff, ?_⟩
  by_cases hq : env.used (st.label + 1) = true
  · simp only [hq, ↓reduceIte] at hc
    obtain ⟨h7, _⟩ := hc.head
    refine hsteps.trans ?_
    exact (Steps.next (s' := { s2 with pos := p, ti := s.ti }) (f' := fr2) h7 (by simp [stepLocal])).cast
      (by simp [List.length_append, CEnv.lbl, hu, hq]; omega)
  · exact hsteps.cast (by simp [List.length_append, CEnv.lbl, hu, hq]; omega)

/-! ### token-producing wrappers under `-noast` -/

theorem compile_push_nonact_noast {e : Expr} (h : e.isAct = false) (hast : env.ast = false) (r : String)
    (ko : Nat) (pd pmk : Bool) (st : CSt) :
    compile env (.push e r) ko pd pmk st =
      ⟨[.bb, .savePos st.label] ++ (compile env e ko pd pmk { st with label := st.label + 1 }).code ++
        [.cap st.label] ++ [.be], (compile env e ko pd pmk { st with label := st.label + 1 }).st, false⟩ := by
  cases e <;> simp_all [compile, Expr.isAct]

theorem compile_ipush_nonact_noast {e : Expr} (h : e.isAct = false) (r : String) (ko : Nat) (pd pmk : Bool)
    (st : CSt) :
    compile env (.ipush e r) ko pd pmk st =
      ⟨[.bb, .savePos st.label] ++ (compile env e ko pd pmk { st with label := st.label + 1 }).code ++
        [.add r st.label] ++ [.be], (compile env e ko pd pmk { st with label := st.label + 1 }).st, false⟩ := by
  cases e <;> simp_all [compile, Expr.isAct]

/-- `buffer[b:e]` inside the input does not see the end symbol. -/
theorem buf_extract {inp : List Sym} {b e : Nat} (hbe : b ≤ e) (he : e ≤ inp.length) :
    (bufOf inp).extract b e = inp.extract b e := by
  simp only [List.extract, bufOf]
  rw [List.drop_append_of_le_length (by omega)]
  rw [List.take_append_of_le_length (by simp; omega)]

/-- The implicit push of an ordinary rule: body, then `add(rule, positionN)` — which only counts
    the token and updates `maxToken`. -/
theorem goodN_ipush_ok (hW : WorldN K P cfg env G inp) {e : Expr} {r p p1 f1 evs}
    (hn : e.isAct = false) (hr : r ≠ "PegText") (hcode : K.codeOf r = none)
    (ih : GoodN K P cfg env inp e p (.ok p1 f1) evs) :
    GoodN K P cfg env inp (.ipush e r) p (.ok p1 [.node ⟨r, p, p1⟩ f1]) (evs ++ [⟨r, p, p1⟩]) := by
  intro ko st code pc s f hc hp
  rw [compile_ipush_nonact_noast hn] at hc ⊢
  simp only [List.cons_append, List.nil_append, List.append_assoc] at hc ⊢
  obtain ⟨h1, hc⟩ := hc.head
  obtain ⟨h2, hc⟩ := hc.head
  have hcb := hc.left
  obtain ⟨h3, hc⟩ := hc.right.head
  obtain ⟨h4, _⟩ := hc.head
  obtain ⟨s1, fr1, hpos1, hE, hst⟩ := ih ko _ code _ s (f.set st.label (s.pos, (f st.label).2)) hcb hp
  have hfr : (fr1 st.label).1 = p := by
    rw [hE.frame st.label (Nat.lt_succ_self _)]; simp [Frame.set, hp.pos]
  have hEadd : EffN K inp (st.label + 1) s1 fr1 (doAdd cfg r p s1) fr1 [⟨r, p, p1⟩] := by
    refine ⟨fun _ _ => rfl, ?_, ?_, by simp [doAdd, hW.ast], by simp [doAdd]⟩
    · rw [doAdd_maxTok, hpos1]; simp [noCap, hr]
    · simp [obsN, doAdd, inlineStep, hr, hcode]
  refine ⟨doAdd cfg r p s1, fr1, by simp [doAdd, hpos1],
    (hE.trans hEadd (Nat.le_refl _)).unset (Nat.le_succ _) (Nat.le_refl _), ?_⟩
  refine (Steps.next (s' := s) (f' := f) h1 (by simp [stepLocal])).trans ?_
  refine (Steps.next (s' := s) (f' := f.set st.label (s.pos, (f st.label).2)) h2 (by simp [stepLocal])).trans ?_
  refine hst.trans ?_
  refine (Steps.next (s' := doAdd cfg r p s1) (f' := fr1) h3 (by simp [stepLocal, hfr])).trans ?_
  exact (Steps.next (s' := doAdd cfg r p s1) (f' := fr1) h4 (by simp [stepLocal])).cast
    (by simp [List.length_append]; omega)

/-- A capture `<e>`: body, then `text = string(buffer[positionN:position])`. -/
theorem goodN_push_ok (hW : WorldN K P cfg env G inp) {e : Expr} {p p1 f1 evs}
    (hn : e.isAct = false) (hev : Eval G cfg.rho inp e p (.ok p1 f1) evs)
    (ih : GoodN K P cfg env inp e p (.ok p1 f1) evs) :
    GoodN K P cfg env inp (.push e "PegText") p (.ok p1 [.node ⟨"PegText", p, p1⟩ f1])
      (evs ++ [⟨"PegText", p, p1⟩]) := by
  intro ko st code pc s f hc hp
  rw [compile_push_nonact_noast hn hW.envAst] at hc ⊢
  simp only [List.cons_append, List.nil_append, List.append_assoc] at hc ⊢
  obtain ⟨h1, hc⟩ := hc.head
  obtain ⟨h2, hc⟩ := hc.head
  have hcb := hc.left
  obtain ⟨h3, hc⟩ := hc.right.head
  obtain ⟨h4, _⟩ := hc.head
  obtain ⟨s1, fr1, hpos1, hE, hst⟩ := ih ko _ code _ s (f.set st.label (s.pos, (f st.label).2)) hcb hp
  have hfr : (fr1 st.label).1 = p := by
    rw [hE.frame st.label (Nat.lt_succ_self _)]; simp [Frame.set, hp.pos]
  obtain ⟨hpp1, hp1⟩ := Eval_bound hev hp.ple _ _ rfl
  have hEcap : EffN K inp (st.label + 1) s1 fr1 { s1 with text := inp.extract p p1 } fr1 [⟨"PegText", p, p1⟩] := by
    refine ⟨fun _ _ => rfl, by simp [noCap], ?_, rfl, rfl⟩
    simp [obsN, inlineStep]
  refine ⟨{ s1 with text := inp.extract p p1 }, fr1, hpos1,
    (hE.trans hEcap (Nat.le_refl _)).unset (Nat.le_succ _) (Nat.le_refl _), ?_⟩
  have hstep : stepLocal cfg inp (.cap st.label) s1 fr1 = .next { s1 with text := inp.extract p p1 } fr1 := by
    have hlen : (bufOf inp).length = inp.length + 1 := by simp [bufOf]
    have hcond : p ≤ s1.pos ∧ s1.pos ≤ (bufOf inp).length := by rw [hpos1, hlen]; omega
    simp only [stepLocal, hfr, hcond, and_self, ↓reduceIte]
    rw [hpos1, buf_extract hpp1 hp1]
  refine (Steps.next (s' := s) (f' := f) h1 (by simp [stepLocal])).trans ?_
  refine (Steps.next (s' := s) (f' := f.set st.label (s.pos, (f st.label).2)) h2 (by simp [stepLocal])).trans ?_
  refine hst.trans ?_
  refine (Steps.next h3 hstep).trans ?_
  exact (Steps.next (s' := { s1 with text := inp.extract p p1 }) (f' := fr1) h4 (by simp [stepLocal])).cast
    (by simp [List.length_append]; omega)

theorem goodN_wrap_fail {w e : Expr} {p evs} {tail : Nat → Instr}
    (hw : ∀ ko st, compile env w ko false false st =
      ⟨[.bb, .savePos st.label] ++ (compile env e ko false false { st with label := st.label + 1 }).code ++
        [tail st.label] ++ [.be], (compile env e ko false false { st with label := st.label + 1 }).st, false⟩)
    (ih : GoodN K P cfg env inp e p .fail evs) :
    GoodN K P cfg env inp w p .fail evs := by
  intro ko st code pc s f hc hp
  rw [hw] at hc ⊢
  simp only [List.cons_append, List.nil_append, List.append_assoc] at hc ⊢
  obtain ⟨h1, hc⟩ := hc.head
  obtain ⟨h2, hc⟩ := hc.head
  have hcb := hc.left
  obtain ⟨s2, fr2, hF, hj, hst⟩ := ih ko _ code _ s (f.set st.label (s.pos, (f st.label).2)) hcb hp
  refine ⟨s2, fr2, hF.unset (Nat.le_succ _) (Nat.le_refl _), by jmp, ?_⟩
  intro pcko hl
  refine (Steps.next (s' := s) (f' := f) h1 (by simp [stepLocal])).trans ?_
  refine (Steps.next (s' := s) (f' := f.set st.label (s.pos, (f st.label).2)) h2 (by simp [stepLocal])).trans ?_
  exact hst pcko hl

/-- An action rule: the action's code runs right here, with the current `text`. -/
theorem goodN_ipush_act (hW : WorldN K P cfg env G inp) {c r p}
    (hr : r ≠ "PegText") (hcode : K.codeOf r = some c) (hk : K.keep c = true) :
    GoodN K P cfg env inp (.ipush (.act c) r) p (.ok p [.node ⟨r, p, p⟩ []]) [⟨r, p, p⟩] := by
  intro ko st code pc s f hc hp
  have hw : (compile env (.ipush (.act c) r) ko false false st).code = [.bb, .stmt c, .be] := by
    simp [compile, hW.envAst]
  rw [hw] at hc ⊢
  obtain ⟨h1, hc⟩ := hc.head
  obtain ⟨h2, hc⟩ := hc.head
  obtain ⟨h3, _⟩ := hc.head
  refine ⟨{ s with trace := s.trace ++ [(c, s.text)] }, f, hp.pos, ?_, ?_⟩
  · refine ⟨fun _ _ => rfl, ?_, ?_, rfl, rfl⟩
    · simp [noCap, hr, updTok]
    · simp [obsN, inlineStep, hr, hcode, List.filter_append, hk]
  · refine (Steps.next (s' := s) (f' := f) h1 (by simp [stepLocal])).trans ?_
    refine (Steps.next (s' := { s with trace := s.trace ++ [(c, s.text)] }) (f' := f) h2 (by simp [stepLocal])).trans ?_
    exact (Steps.next (s' := { s with trace := s.trace ++ [(c, s.text)] }) (f' := f) h3 (by simp [stepLocal]))

end PegVerif
