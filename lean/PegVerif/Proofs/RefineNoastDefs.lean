import PegVerif.Proofs.RefineCases
/-
  Definitions for the refinement theorem RN: the emitted code of a parser generated with `-noast`
  (`cfg.ast = false`, `env.ast = false`) does what the PEG semantics says, and runs every action
  inline, at the moment it is reached, with the text of the most recently completed capture.

  Differences to the AST mode (RefineDefs):
    * `<e>` emits `cap` (sets `text`) instead of `add`; an action rule emits the action's code as a
      statement instead of `add`; `add` (rule tokens) leaves the token buffer alone;
    * rule functions have neither `memoCheck` nor `memoSave`; the entry save exists iff something
      jumps to the rule's failure label;
    * `restore` does not undo `text` and `trace`.
  So the postconditions say nothing about the token buffer except "untouched"; instead they
  prescribe `text` and `trace` by a fold over the *events* `evs` of the derivation (every completed
  token-producing node, including those of failed alternatives and of lookahead).
-/
namespace PegVerif

/-! ### The specification of the inline trace -/

namespace Noast

/-- What is observable of the user code's execution: the actions run so far (code, `text` at that
    moment) and the current `text`. -/
abbrev Obs := List (String × List Sym) × List Sym

/-- One event: a completed capture sets `text`; a completed action rule runs its code with the
    current `text`; completed ordinary rules do nothing. -/
def inlineStep (codeOf : String → Option String) (inp : List Sym) (acc : Obs) (t : Token) : Obs :=
  if t.rule = "PegText" then (acc.1, inp.extract t.b t.e)
  else
    match codeOf t.rule with
    | some code => (acc.1 ++ [(code, acc.2)], acc.2)
    | none => acc

/-- **Spec** of `-noast`: the actions run (with their `text`) and the final `text` after the
    events `evs`, starting with `text0`. -/
def reachTrace (codeOf : String → Option String) (inp : List Sym) (evs : List Token)
    (text0 : List Sym) : Obs :=
  evs.foldl (inlineStep codeOf inp) ([], text0)

theorem inlineStep_fst_append (codeOf : String → Option String) (inp : List Sym) (tr : List (String × List Sym))
    (tx : List Sym) (t : Token) :
    inlineStep codeOf inp (tr, tx) t =
      (tr ++ (inlineStep codeOf inp ([], tx) t).1, (inlineStep codeOf inp ([], tx) t).2) := by
  unfold inlineStep
  split
  · simp
  · split <;> simp

/-- The fold from an arbitrary trace is the trace followed by `reachTrace`. -/
theorem foldl_inlineStep (codeOf : String → Option String) (inp : List Sym) (evs : List Token) :
    ∀ (tr : List (String × List Sym)) (tx : List Sym),
    evs.foldl (inlineStep codeOf inp) (tr, tx) =
      (tr ++ (reachTrace codeOf inp evs tx).1, (reachTrace codeOf inp evs tx).2) := by
  induction evs with
  | nil => intro tr tx; simp [reachTrace]
  | cons t ts ih =>
    intro tr tx
    simp only [List.foldl_cons, reachTrace]
    rw [inlineStep_fst_append]
    rw [ih, ih (inlineStep codeOf inp ([], tx) t).1]
    simp [List.append_assoc]

theorem reachTrace_append (codeOf : String → Option String) (inp : List Sym) (a b : List Token) (tx : List Sym) :
    reachTrace codeOf inp (a ++ b) tx =
      ((reachTrace codeOf inp a tx).1 ++ (reachTrace codeOf inp b (reachTrace codeOf inp a tx).2).1,
        (reachTrace codeOf inp b (reachTrace codeOf inp a tx).2).2) := by
  simp only [reachTrace, List.foldl_append]
  exact foldl_inlineStep codeOf inp b _ _

end Noast
open Noast

/-- The events that are tokens under `-noast`: captures are not. -/
def noCap (evs : List Token) : List Token := evs.filter (fun t => t.rule != "PegText")

theorem noCap_append (a b : List Token) : noCap (a ++ b) = noCap a ++ noCap b := by
  simp [noCap]

@[simp] theorem noCap_nil : noCap [] = [] := rfl

/-! ### The fragment -/

/-- The parameters of the statement: which rules are action rules (and their code), and which
    entries of the machine's trace are compared (`keep`; all of them when the grammar has no
    `!{…}` statements, see `Expr.okN`). -/
structure NKit where
  codeOf : String → Option String
  keep : String → Bool

mutual
  /-- Well-formedness under `-noast` (what `link` establishes): captures are exactly the nodes named
      "PegText" and never wrap a bare action; an implicit push is named by an action rule
      (`codeOf`) iff it wraps a bare action, with that code; the code of an action is compared
      (`keep`), the code of a state-change statement `!{…}` is not (it also goes to the machine's
      trace but is not an event of the semantics). -/
  def Expr.okN (K : NKit) : Expr → Prop
    | .dot => True
    | .chr _ => True
    | .rng _ _ => True
    | .str _ => True
    | .name _ => True
    | .inl _ e => e.okN K
    | .pred _ => True
    | .stmt c => K.keep c = false
    | .act _ => True
    | .seq es => okNL K es
    | .alt es => okNL K es
    | .ualt _ es => okNL K es
    | .peekFor e => e.okN K
    | .peekNot e => e.okN K
    | .query e => e.okN K
    | .star e => e.okN K
    | .plus e => e.okN K
    | .push e r => r = "PegText" ∧ e.isAct = false ∧ e.okN K
    | .ipush e r => r ≠ "PegText" ∧ (∀ c, e = .act c → K.codeOf r = some c ∧ K.keep c = true) ∧
        (e.isAct = false → K.codeOf r = none) ∧ e.okN K
    | .nil => True
  def okNL (K : NKit) : List Expr → Prop
    | [] => True
    | e :: es => e.okN K ∧ okNL K es
end

/-- What the proof observes of a machine state: the compared part of the trace, and `text`. -/
def obsN (K : NKit) (s : St) : Obs := (s.trace.filter (fun x => K.keep x.1), s.text)

/-- Static facts about a `-noast` program and the run that RN relies on. -/
structure WorldN (K : NKit) (P : Program) (cfg : Cfg) (env : CEnv) (G : Grammar) (inp : List Sym) : Prop where
  ast : cfg.ast = false
  envAst : env.ast = false
  inpOK : ∀ c ∈ inp, c ≠ END
  /-- `CheckAlwaysSucceeds` is sound: a rule called without failure branch never fails. -/
  always : ∀ n, env.always n = true → ∀ p evs, ¬ Eval G cfg.rho inp (.name n) p .fail evs
  /-- Every emitted function is the emission (with the `-noast` shape of `ruleFunc`) of its rule's body. -/
  rules : ∀ n cr, P.find n = some cr → ∃ (r : Rule) (b : Expr) (kr : Nat) (stb : CSt),
    G.body n = some b ∧ cr = (ruleFunc env r b kr stb).1 ∧ kr < stb.label ∧ Uniq cr ∧
    (∀ l ∈ jumps cr, env.used l = true) ∧ b.fine P ∧ b.okN K

/-- Preconditions on the point of the code and the state where an expression starts. -/
structure PreN (env : CEnv) (inp : List Sym) (code : Code) (s : St) (p : Nat) : Prop where
  uniq : Uniq code
  used : ∀ l ∈ jumps code, env.used l = true
  pos : s.pos = p
  ple : p ≤ inp.length

/-- The effect of an attempt (successful or not) with events `evs` on everything but the position
    and `tokenIndex`: saves of enclosing constructs intact, `maxToken` folded over every attempted
    token that is not a capture, trace and `text` as the inline execution of the events prescribes,
    token buffer and memo table untouched.  (Position and `tokenIndex` are prescribed separately on
    success; on failure they are restored at the label site.) -/
structure EffN (K : NKit) (inp : List Sym) (lbl : Nat) (s : St) (f : Frame) (s' : St) (f' : Frame)
    (evs : List Token) : Prop where
  frame : ∀ n, n < lbl → f' n = f n
  maxTok : s'.maxTok = (noCap evs).foldl updTok s.maxTok
  obs : obsN K s' = evs.foldl (inlineStep K.codeOf inp) (obsN K s)
  tree : s'.tree = s.tree
  memo : s'.memo = s.memo

section
variable (K : NKit) (P : Program) (cfg : Cfg) (env : CEnv) (inp : List Sym)

/-- The emitted `-noast` code of `e` refines the outcome `res` of the PEG semantics at `p`. -/
def GoodN (e : Expr) (p : Nat) (res : Res) (evs : List Token) : Prop :=
  ∀ (ko : Nat) (st : CSt) (code : Code) (pc : Nat) (s : St) (f : Frame),
    CodeAt code pc (compile env e ko false false st).code → PreN env inp code s p →
    match res with
    | .ok p' _ => ∃ s' f', s'.pos = p' ∧ EffN K inp st.label s f s' f' evs ∧
        Steps P cfg inp code pc s f (pc + (compile env e ko false false st).code.length) s' f'
    | .fail => ∃ s'' f'', EffN K inp st.label s f s'' f'' evs ∧
        ko ∈ jumps (compile env e ko false false st).code ∧
        ∀ pcko, labelPos code ko = some pcko → Steps P cfg inp code pc s f pcko s'' f''

/-- Tail of an ordered choice; slot `ok` holds the choice's entry position. -/
def GoodAltN (es : List Expr) (p : Nat) (res : Res) (evs : List Token) : Prop :=
  ∀ (ok ko : Nat) (st : CSt) (code : Code) (pc : Nat) (s : St) (f : Frame),
    CodeAt code pc ((compileAlt env es ok ko false false st).code ++ [Instr.be] ++ env.lbl ok) →
    PreN env inp code s p → ok < st.label → (f ok).1 = p →
    match res with
    | .ok p' _ => ∃ s' f', s'.pos = p' ∧ EffN K inp st.label s f s' f' evs ∧
        Steps P cfg inp code pc s f
          (pc + (compileAlt env es ok ko false false st).code.length + 1 + (env.lbl ok).length) s' f'
    | .fail => ∃ s'' f'', EffN K inp st.label s f s'' f'' evs ∧
        ko ∈ jumps (compileAlt env es ok ko false false st).code ∧
        ∀ pcko, labelPos code ko = some pcko → Steps P cfg inp code pc s f pcko s'' f''

def GoodLoopN (e : Expr) (p : Nat) (res : Res) (evs : List Token) : Prop :=
  ∀ (again out : Nat) (stb : CSt) (code : Code) (pc : Nat) (s : St) (f : Frame),
    CodeAt code pc (loopCode env e again out stb) → PreN env inp code s p →
    again < stb.label → out < stb.label →
    match res with
    | .ok p' _ => ∃ s' f', s'.pos = p' ∧ EffN K inp (min again out) s f s' f' evs ∧
        (∀ n, n < stb.label → n ≠ out → f' n = f n) ∧
        Steps P cfg inp code pc s f (pc + (loopCode env e again out stb).length) s' f'
    | .fail => False

end

theorem PreN.usedIn {env inp code s p pc c l} (hp : PreN env inp code s p) (h : CodeAt code pc c)
    (hl : l ∈ jumps c) : env.used l = true :=
  hp.used l (jumps_sub_of_codeAt h l hl)

theorem PreN.move {env inp code s p s1 p1} (hp : PreN env inp code s p) (hpos : s1.pos = p1)
    (hple : p1 ≤ inp.length) : PreN env inp code s1 p1 :=
  ⟨hp.uniq, hp.used, hpos, hple⟩

/-! ### Composition of effects -/

variable {K : NKit} {inp : List Sym}

theorem EffN.refl {lbl s f} : EffN K inp lbl s f s f [] :=
  ⟨fun _ _ => rfl, rfl, rfl, rfl, rfl⟩

/-- Position and `tokenIndex` are not part of the effect. -/
theorem EffN.repos {lbl s f s' f' evs} (h : EffN K inp lbl s f s' f' evs) (p t : Nat) :
    EffN K inp lbl s f { s' with pos := p, ti := t } f' evs :=
  ⟨h.frame, h.maxTok, h.obs, h.tree, h.memo⟩

theorem EffN.from_repos {lbl s f s' f' evs} {p t : Nat}
    (h : EffN K inp lbl { s with pos := p, ti := t } f s' f' evs) : EffN K inp lbl s f s' f' evs :=
  ⟨h.frame, h.maxTok, h.obs, h.tree, h.memo⟩

theorem EffN.trans {lbl lbl1 s f s1 f1 s2 f2 e1 e2}
    (h1 : EffN K inp lbl s f s1 f1 e1) (h2 : EffN K inp lbl1 s1 f1 s2 f2 e2) (hl : lbl ≤ lbl1) :
    EffN K inp lbl s f s2 f2 (e1 ++ e2) where
  frame := fun n hn => by rw [h2.frame n (by omega), h1.frame n hn]
  maxTok := by rw [h2.maxTok, h1.maxTok, noCap_append, List.foldl_append]
  obs := by rw [h2.obs, h1.obs, List.foldl_append]
  tree := by rw [h2.tree, h1.tree]
  memo := by rw [h2.memo, h1.memo]

theorem EffN.weaken {lbl lbl1 s f s2 f2 e} (h : EffN K inp lbl1 s f s2 f2 e) (hl : lbl ≤ lbl1) :
    EffN K inp lbl s f s2 f2 e :=
  ⟨fun n hn => h.frame n (by omega), h.maxTok, h.obs, h.tree, h.memo⟩

/-- The attempt started after a save into a slot at or above `lbl`. -/
theorem EffN.unset {lbl lbl1 s f k v s2 f2 e} (h : EffN K inp lbl1 s (f.set k v) s2 f2 e)
    (hl : lbl ≤ lbl1) (hk : lbl ≤ k) : EffN K inp lbl s f s2 f2 e :=
  ⟨fun n hn => by rw [h.frame n (by omega)]; simp [Frame.set]; omega, h.maxTok, h.obs, h.tree, h.memo⟩

end PegVerif
