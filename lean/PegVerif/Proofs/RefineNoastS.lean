import PegVerif.Proofs.RefineNoastSwitch
import PegVerif.Proofs.MachineLemmas
/-
  Refinement theorem RNS (`-noast -switch`): rule calls, the induction over the derivation
  (`RNS_all` — RN_all with the `.ualt` case, over the fragment `Expr.fineS`, for all settings of
  the `parentDetect` flags), and the statement for one emitted rule function (`RNS_rule`,
  `RNS_rule_all`).  `StEffN`, `RuleSpecN`, `ruleFunc_noast` are those of RefineNoast.lean.
-/
namespace PegVerif
open Noast

variable {K : NKit} {P : Program} {cfg : Cfg} {env : CEnv} {G : Grammar} {inp : List Sym}

/-- Running the emitted `-noast` function of a rule returns what the semantics of its body says.
    (The body of a rule function is compiled without `parentDetect`.) -/
theorem calleeNS_exec {cr : Code} {r : Rule} {b : Expr} {kr : Nat} {stb : CSt} {p res evs}
    (hast : env.ast = false)
    (hcr : cr = (ruleFunc env r b kr stb).1) (hkr : kr < stb.label)
    (huniq : Uniq cr) (hused : ∀ l ∈ jumps cr, env.used l = true)
    (ih : GoodNS K P cfg env inp b p res evs) {s : St}
    (hpos : s.pos = p) (hple : p ≤ inp.length) :
    match res with
    | .ok p' _ => ∃ s', Exec P cfg inp cr 0 s Frame.empty (.ret true, s') ∧ s'.pos = p' ∧
        StEffN K inp s s' evs
    | .fail => ∃ s3, Exec P cfg inp cr 0 s Frame.empty (.ret false, s3) ∧ s3.pos = p ∧ s3.ti = s.ti ∧
        StEffN K inp s s3 evs := by
  have hc : CodeAt cr 0 cr := CodeAt.whole cr
  have hcr' := hcr
  rw [ruleFunc_noast hast] at hcr'
  have hsu : SUniq cr := by rw [hcr]; exact ruleFunc_suniq _ _ _ _ _
  have hpre : PreNS env inp cr s p := ⟨huniq, hsu, hused, hpos, hple⟩
  have hlead : Lead inp p false false b := Lead_false _ _ _ _
  by_cases hu : env.used kr = true
  · simp only [hu, ↓reduceIte] at hcr'
    rw [hcr'] at hc
    obtain ⟨h1, hc⟩ := hc.head
    rw [← hcr'] at h1 hc
    have hcb := hc.left
    have hstart : Steps P cfg inp cr 0 s Frame.empty (0 + 1) s (Frame.empty.set kr (s.pos, s.ti)) :=
      Steps.next (s' := s) (f' := Frame.empty.set kr (s.pos, s.ti)) h1 (by simp [stepLocal])
    have h' := ih kr false false stb cr (0 + 1) s (Frame.empty.set kr (s.pos, s.ti)) hcb hpre hlead
    cases res with
    | ok p' forest =>
      obtain ⟨s', f', hp', hE, hst⟩ := h'
      obtain ⟨h2, _⟩ := hc.right.head
      exact ⟨s', hstart _ (hst _ (Exec.ret h2 (by simp [stepLocal]))), hp', hE.st⟩
    | fail =>
      obtain ⟨s2, f2, hF, hj, hst⟩ := h'
      obtain ⟨_, hc2⟩ := hc.right.head
      have hlp := labelPos_of_uniq huniq hc2
      obtain ⟨h4, hc2⟩ := hc2.head
      obtain ⟨h5, hc2⟩ := hc2.head
      obtain ⟨h6, _⟩ := hc2.head
      have hfr : f2 kr = (p, s.ti) := by rw [hF.frame kr hkr]; simp [Frame.set, hpos]
      refine ⟨{ s2 with pos := p, ti := s.ti }, ?_, rfl, rfl, (hF.repos _ _).st⟩
      apply hstart
      apply hst _ hlp
      apply (Steps.next (s' := s2) (f' := f2) h4 (by simp [stepLocal]))
      apply (Steps.next (s' := { s2 with pos := p, ti := s.ti }) (f' := f2) h5 (by simp [stepLocal, hfr]))
      exact Exec.ret h6 (by simp [stepLocal])
  · simp only [hu] at hcr'
    rw [hcr'] at hc
    have hcb := hc.left
    have hcr2 := hc.right
    rw [← hcr'] at hcb hcr2
    have h' := ih kr false false stb cr 0 s Frame.empty hcb hpre hlead
    cases res with
    | ok p' forest =>
      obtain ⟨s', f', hp', hE, hst⟩ := h'
      obtain ⟨h2, _⟩ := hcr2.head
      exact ⟨s', hst _ (Exec.ret h2 (by simp [stepLocal])), hp', hE.st⟩
    | fail =>
      obtain ⟨s2, f2, hF, hj, hst⟩ := h'
      exact absurd (hused kr (jumps_sub_of_codeAt hcb kr hj)) hu

theorem goodNS_name (hW : WorldNS K P cfg env G inp) {n b p res evs} (hb : G.body n = some b)
    (hfine : (Expr.name n).fineS P) (hev : Eval G cfg.rho inp b p res evs)
    (ih : GoodNS K P cfg env inp b p res evs) :
    GoodNS K P cfg env inp (.name n) p res evs := by
  intro ko pd pmk st code pc s f hc hp _
  simp only [Expr.fineS] at hfine
  obtain ⟨cr, hfind⟩ := Option.isSome_iff_exists.mp hfine
  obtain ⟨r, b', kr, stb, hb', hcr, hkr, huniq, hused, _, _⟩ := hW.rules n cr hfind
  rw [hb] at hb'; cases hb'
  have hcallee := calleeNS_exec (K := K) (P := P) (cfg := cfg) hW.envAst hcr hkr huniq hused ih hp.pos hp.ple
  simp only [compile] at hc ⊢
  cases res with
  | ok p' forest =>
    obtain ⟨s', hex, hpos, hE⟩ := hcallee
    refine ⟨s', f, hpos, ⟨fun _ _ => rfl, hE.maxTok, hE.obs, hE.tree, hE.memo⟩, ?_⟩
    by_cases ha : env.always n = true
    · simp only [ha, ↓reduceIte] at hc ⊢
      obtain ⟨h1, _⟩ := hc.head
      exact fun res hres => Exec.callOk (l := none) h1 (by simp [stepLocal]) hfind hex (Or.inl rfl) hres
    · simp only [ha] at hc ⊢
      obtain ⟨h1, _⟩ := hc.head
      exact fun res hres => Exec.callOk (l := some ko) h1 (by simp [stepLocal]) hfind hex (Or.inl rfl) hres
  | fail =>
    obtain ⟨s3, hex, hpos, hti, hE⟩ := hcallee
    by_cases ha : env.always n = true
    · exact absurd (Eval.name hb hev) (hW.always n ha p evs)
    · simp only [ha] at hc ⊢
      obtain ⟨h1, _⟩ := hc.head
      refine ⟨s3, f, ⟨fun _ _ => rfl, hE.maxTok, hE.obs, hE.tree, hE.memo⟩, by simp [jumps, Instr.target?], ?_⟩
      intro pcko hl
      exact fun res hres => Exec.callFail h1 (by simp [stepLocal]) hfind hex hl hres

theorem goodNS_inl {n e p res evs} (ih : GoodNS K P cfg env inp e p res evs) :
    GoodNS K P cfg env inp (.inl n e) p res evs := by
  intro ko pd pmk st code pc s f hc hp hlead
  have := ih ko pd pmk st code pc s f (by simpa [compile] using hc) hp (by simpa only [Lead] using hlead)
  simpa [compile] using this

/-- The three statements proved together by induction on the derivation. -/
def MotiveNS (K : NKit) (P : Program) (cfg : Cfg) (env : CEnv) (inp : List Sym) (e : Expr) (p : Nat)
    (res : Res) (evs : List Token) : Prop :=
  e.fineS P → e.okN K →
    GoodNS K P cfg env inp e p res evs ∧
    (∀ es, e = .alt es → GoodAltNS K P cfg env inp es p res evs) ∧
    (∀ e', e = .star e' → GoodLoopNS K P cfg env inp e' p res evs)

theorem MotiveNS.leaf {e : Expr} {p res evs} (hna : ∀ es, e ≠ .alt es) (hns : ∀ e', e ≠ .star e')
    (h : e.fineS P → e.okN K → GoodNS K P cfg env inp e p res evs) : MotiveNS K P cfg env inp e p res evs :=
  fun hf hk => ⟨h hf hk, fun es he => absurd he (hna es), fun e' he => absurd he (hns e')⟩

theorem okNL_mem {K : NKit} : ∀ {es : List Expr}, okNL K es → ∀ e ∈ es, e.okN K
  | [], _, e, he => by cases he
  | a :: as, h, e, he => by
    simp only [okNL] at h
    cases he with
    | head => exact h.1
    | tail _ he' => exact okNL_mem h.2 e he'

/-- **RNS**: for every derivation of the PEG semantics, the emitted `-noast` code of the expression
    — which may contain `-switch` nodes, and may itself sit inside a `case` (any `parentDetect`
    flags satisfying `Lead`) — does the same: verdict, consumed prefix, `maxToken` over the
    non-capture events; it runs the actions inline: trace and `text` are those of `reachTrace` over
    the events; token buffer and memo table are never touched.  From any point of any rule body. -/
theorem RNS_all (hW : WorldNS K P cfg env G inp) {e p res evs} (h : Eval G cfg.rho inp e p res evs) :
    MotiveNS K P cfg env inp e p res evs := by
  induction h with
  | dot_ok h => exact MotiveNS.leaf (by intro _ h; cases h) (by intro _ h; cases h) (fun _ _ => goodNS_dot_ok hW h)
  | dot_fail h => exact MotiveNS.leaf (by intro _ h; cases h) (by intro _ h; cases h) (fun _ _ => goodNS_dot_fail h)
  | chr_ok h => exact MotiveNS.leaf (by intro _ h; cases h) (by intro _ h; cases h) (fun _ _ => goodNS_chr_ok h)
  | chr_fail h =>
    exact MotiveNS.leaf (by intro _ h; cases h) (by intro _ h; cases h)
      (fun hf _ => goodNS_chr_fail (by simpa [Expr.fineS] using hf) h)
  | rng_ok h hl hh =>
    exact MotiveNS.leaf (by intro _ h; cases h) (by intro _ h; cases h) (fun _ _ => goodNS_rng_ok h hl hh)
  | rng_fail h =>
    exact MotiveNS.leaf (by intro _ h; cases h) (by intro _ h; cases h)
      (fun hf _ => goodNS_rng_fail (by simpa [Expr.fineS] using hf) h)
  | str_ok _ => exact fun hf => by simp [Expr.fineS] at hf
  | str_fail _ => exact fun hf => by simp [Expr.fineS] at hf
  | @name n b p res evs hb hev ih =>
    refine MotiveNS.leaf (by intro _ h; cases h) (by intro _ h; cases h) (fun hf _ => ?_)
    have hbf : b.fineS P ∧ b.okN K := by
      have hf' := hf
      simp only [Expr.fineS] at hf'
      obtain ⟨cr, hfind⟩ := Option.isSome_iff_exists.mp hf'
      obtain ⟨_, b', _, _, hb', _, _, _, _, hfb, hkb⟩ := hW.rules n cr hfind
      rw [hb] at hb'; cases hb'; exact ⟨hfb, hkb⟩
    exact goodNS_name hW hb hf hev (ih hbf.1 hbf.2).1
  | inl _ ih =>
    exact MotiveNS.leaf (by intro _ h; cases h) (by intro _ h; cases h)
      (fun hf hk => goodNS_inl (ih (by simpa [Expr.fineS] using hf) (by simpa [Expr.okN] using hk)).1)
  | pred_ok h => exact MotiveNS.leaf (by intro _ h; cases h) (by intro _ h; cases h) (fun _ _ => goodNS_pred_ok h)
  | pred_fail h => exact MotiveNS.leaf (by intro _ h; cases h) (by intro _ h; cases h) (fun _ _ => goodNS_pred_fail h)
  | stmt =>
    exact MotiveNS.leaf (by intro _ h; cases h) (by intro _ h; cases h)
      (fun _ hk => goodNS_stmt (by simpa [Expr.okN] using hk))
  | act => exact MotiveNS.leaf (by intro _ h; cases h) (by intro _ h; cases h) (fun _ _ => goodNS_act)
  | nil => exact MotiveNS.leaf (by intro _ h; cases h) (by intro _ h; cases h) (fun _ _ => goodNS_nil)
  | seq_nil => exact MotiveNS.leaf (by intro _ h; cases h) (by intro _ h; cases h) (fun _ _ => goodNS_seq_nil)
  | seq_fail _ ih =>
    refine MotiveNS.leaf (by intro _ h; cases h) (by intro _ h; cases h) (fun hf hk => ?_)
    simp only [Expr.fineS, fineSL] at hf
    simp only [Expr.okN, okNL] at hk
    exact goodNS_seq_fail (ih hf.1 hk.1).1
  | seq_ok_fail h1 h2 ih1 ih2 =>
    refine MotiveNS.leaf (by intro _ h; cases h) (by intro _ h; cases h) (fun hf hk => ?_)
    simp only [Expr.fineS, fineSL] at hf
    simp only [Expr.okN, okNL] at hk
    exact goodNS_seq_ok_fail h1 h2 (ih1 hf.1 hk.1).1
      (ih2 (by simpa [Expr.fineS] using hf.2) (by simpa [Expr.okN] using hk.2)).1
  | seq_ok h1 h2 ih1 ih2 =>
    refine MotiveNS.leaf (by intro _ h; cases h) (by intro _ h; cases h) (fun hf hk => ?_)
    simp only [Expr.fineS, fineSL] at hf
    simp only [Expr.okN, okNL] at hk
    exact goodNS_seq_ok h1 h2 (ih1 hf.1 hk.1).1
      (ih2 (by simpa [Expr.fineS] using hf.2) (by simpa [Expr.okN] using hk.2)).1
  | alt_last _ ih =>
    intro hf hk
    simp only [Expr.fineS, fineSL] at hf
    simp only [Expr.okN, okNL] at hk
    have g := (ih hf.1 hk.1).1
    exact ⟨goodNS_alt_of_goodAlt (goodAltNS_last g), fun es h => by cases h; exact goodAltNS_last g,
      fun _ h => by cases h⟩
  | alt_ok _ ih =>
    intro hf hk
    simp only [Expr.fineS, fineSL] at hf
    simp only [Expr.okN, okNL] at hk
    have g := (ih hf.1 hk.1).1
    exact ⟨goodNS_alt_of_goodAlt (goodAltNS_ok g), fun es h => by cases h; exact goodAltNS_ok g,
      fun _ h => by cases h⟩
  | alt_next _ _ ih1 ih2 =>
    intro hf hk
    simp only [Expr.fineS, fineSL] at hf
    simp only [Expr.okN, okNL] at hk
    have g1 := (ih1 hf.1 hk.1).1
    have g2 := (ih2 (by simpa [Expr.fineS, fineSL] using hf.2) (by simpa [Expr.okN, okNL] using hk.2)).2.1 _ rfl
    exact ⟨goodNS_alt_of_goodAlt (goodAltNS_next g1 g2), fun es h => by cases h; exact goodAltNS_next g1 g2,
      fun _ h => by cases h⟩
  | @ualt ks es p e res evs hidx _ ih =>
    refine MotiveNS.leaf (by intro _ h; cases h) (by intro _ h; cases h) (fun hf hk => ?_)
    simp only [Expr.fineS] at hf
    simp only [Expr.okN] at hk
    have hmem : e ∈ es := List.mem_of_getElem? hidx
    exact goodNS_ualt hidx hf.2.2 (ih (fineSL_mem hf.2.1 e hmem) (okNL_mem hk e hmem)).1
  | peekFor_ok _ ih =>
    exact MotiveNS.leaf (by intro _ h; cases h) (by intro _ h; cases h)
      (fun hf hk => goodNS_peekFor_ok (ih (by simpa [Expr.fineS] using hf) (by simpa [Expr.okN] using hk)).1)
  | peekFor_fail _ ih =>
    exact MotiveNS.leaf (by intro _ h; cases h) (by intro _ h; cases h)
      (fun hf hk => goodNS_peekFor_fail (ih (by simpa [Expr.fineS] using hf) (by simpa [Expr.okN] using hk)).1)
  | peekNot_ok _ ih =>
    exact MotiveNS.leaf (by intro _ h; cases h) (by intro _ h; cases h)
      (fun hf hk => goodNS_peekNot_ok (ih (by simpa [Expr.fineS] using hf) (by simpa [Expr.okN] using hk)).1)
  | peekNot_fail _ ih =>
    exact MotiveNS.leaf (by intro _ h; cases h) (by intro _ h; cases h)
      (fun hf hk => goodNS_peekNot_fail (ih (by simpa [Expr.fineS] using hf) (by simpa [Expr.okN] using hk)).1)
  | query_ok _ ih =>
    exact MotiveNS.leaf (by intro _ h; cases h) (by intro _ h; cases h)
      (fun hf hk => goodNS_query_ok (ih (by simpa [Expr.fineS] using hf) (by simpa [Expr.okN] using hk)).1)
  | query_none _ ih =>
    exact MotiveNS.leaf (by intro _ h; cases h) (by intro _ h; cases h)
      (fun hf hk => goodNS_query_none (ih (by simpa [Expr.fineS] using hf) (by simpa [Expr.okN] using hk)).1)
  | star_stop _ ih =>
    intro hf hk
    have g := goodLoopNS_stop (ih (by simpa [Expr.fineS] using hf) (by simpa [Expr.okN] using hk)).1
    exact ⟨goodNS_star_of_loop g, (fun _ h => by cases h), (fun _ h => by cases h; exact g)⟩
  | star_step h1 _ ih1 ih2 =>
    intro hf hk
    have g := goodLoopNS_step h1 (ih1 (by simpa [Expr.fineS] using hf) (by simpa [Expr.okN] using hk)).1
      ((ih2 hf hk).2.2 _ rfl)
    exact ⟨goodNS_star_of_loop g, (fun _ h => by cases h), (fun _ h => by cases h; exact g)⟩
  | plus_fail _ ih =>
    exact MotiveNS.leaf (by intro _ h; cases h) (by intro _ h; cases h)
      (fun hf hk => goodNS_plus_fail (ih (by simpa [Expr.fineS] using hf) (by simpa [Expr.okN] using hk)).1)
  | @plus_ok e p p1 f1 evs1 p2 f2 evs2 h1 _ ih1 ih2 =>
    refine MotiveNS.leaf (by intro _ h; cases h) (by intro _ h; cases h) (fun hf hk => ?_)
    have hf' : e.fineS P := by simpa [Expr.fineS] using hf
    have hk' : e.okN K := by simpa [Expr.okN] using hk
    exact goodNS_plus_ok h1 (ih1 hf' hk').1
      ((ih2 (by simpa [Expr.fineS] using hf') (by simpa [Expr.okN] using hk')).2.2 _ rfl)
  | @push_ok e r p p1 f1 evs hn hev ih =>
    refine MotiveNS.leaf (by intro _ h; cases h) (by intro _ h; cases h) (fun hf hk => ?_)
    simp only [Expr.okN] at hk
    obtain ⟨hr, _, hke⟩ := hk
    subst hr
    exact goodNS_push_ok hW hn hev (ih (by simpa [Expr.fineS] using hf) hke).1
  | @push_fail e r p evs hn _ ih =>
    refine MotiveNS.leaf (by intro _ h; cases h) (by intro _ h; cases h) (fun hf hk => ?_)
    simp only [Expr.okN] at hk
    exact goodNS_wrap_fail (tail := Instr.cap)
      (fun ko pd pmk st => compile_push_nonact_noast hn hW.envAst _ ko pd pmk st)
      (fun _ _ h => by simpa only [Lead] using h)
      (ih (by simpa [Expr.fineS] using hf) hk.2.2).1
  | push_act =>
    refine MotiveNS.leaf (by intro _ h; cases h) (by intro _ h; cases h) (fun _ hk => ?_)
    simp [Expr.okN, Expr.isAct] at hk
  | @ipush_ok e r p p1 f1 evs hn _ ih =>
    refine MotiveNS.leaf (by intro _ h; cases h) (by intro _ h; cases h) (fun hf hk => ?_)
    simp only [Expr.okN] at hk
    obtain ⟨hr, _, hnone, hke⟩ := hk
    exact goodNS_ipush_ok hW hn hr (hnone hn) (ih (by simpa [Expr.fineS] using hf) hke).1
  | @ipush_fail e r p evs hn _ ih =>
    refine MotiveNS.leaf (by intro _ h; cases h) (by intro _ h; cases h) (fun hf hk => ?_)
    simp only [Expr.okN] at hk
    exact goodNS_wrap_fail (tail := Instr.add r)
      (fun ko pd pmk st => compile_ipush_nonact_noast hn _ ko pd pmk st)
      (fun _ _ h => by simpa only [Lead] using h)
      (ih (by simpa [Expr.fineS] using hf) hk.2.2.2).1
  | @ipush_act c r p =>
    refine MotiveNS.leaf (by intro _ h; cases h) (by intro _ h; cases h) (fun _ hk => ?_)
    simp only [Expr.okN] at hk
    obtain ⟨hr, hact, _, _⟩ := hk
    exact goodNS_ipush_act hW hr (hact c rfl).1 (hact c rfl).2

/-! ### One emitted rule function -/

/-- **RNS for a rule function**: there is a run of the emitted function of `n` from any state at a
    position inside the input, and it satisfies `RuleSpecN`. -/
theorem RNS_rule (hW : WorldNS K P cfg env G inp) {n cr p res evs s}
    (hfind : P.find n = some cr) (hev : Eval G cfg.rho inp (.name n) p res evs)
    (hpos : s.pos = p) (hple : p ≤ inp.length) :
    ∃ o s', Exec P cfg inp cr 0 s Frame.empty (o, s') ∧ RuleSpecN K inp s p res evs o s' := by
  cases hev with
  | name hb hev' =>
    obtain ⟨r, b', kr, stb, hb', hcr, hkr, huniq, hused, hfine, hok⟩ := hW.rules n cr hfind
    rw [hb] at hb'; cases hb'
    have h := calleeNS_exec (K := K) (P := P) (cfg := cfg) hW.envAst hcr hkr huniq hused
      ((RNS_all hW hev') hfine hok).1 hpos hple
    cases res with
    | ok p' forest =>
      obtain ⟨s', hex, h1, h2⟩ := h
      exact ⟨_, s', hex, rfl, h1, h2⟩
    | fail =>
      obtain ⟨s3, hex, h1, _, h2⟩ := h
      exact ⟨_, s3, hex, rfl, h1, h2⟩

/-- … and because the machine is deterministic, *every* run satisfies it. -/
theorem RNS_rule_all (hW : WorldNS K P cfg env G inp) {n cr p res evs s o s'}
    (hfind : P.find n = some cr) (hev : Eval G cfg.rho inp (.name n) p res evs)
    (hpos : s.pos = p) (hple : p ≤ inp.length)
    (hrun : Exec P cfg inp cr 0 s Frame.empty (o, s')) : RuleSpecN K inp s p res evs o s' := by
  obtain ⟨o1, s1, hex, hspec⟩ := RNS_rule hW hfind hev hpos hple
  have := Exec_det hex hrun
  cases this
  exact hspec

end PegVerif

#print axioms PegVerif.RNS_all
#print axioms PegVerif.goodNS_ualt
#print axioms PegVerif.RNS_rule_all
