import PegVerif.Proofs.RefineNoastSCases
/-
  Refinement theorem RNS (`-noast -switch`) — ordered choice and repetition, for the generalised
  motives.  Only the first alternative of a choice inherits the `parentDetect` flags; the loop body
  of `e*` / `e+` is compiled without them.  `restore` puts back position and `tokenIndex` only: what
  a failed alternative / the last, failing iteration did to `text` and to the trace stays.
-/
namespace PegVerif
open Noast

variable {K : NKit} {P : Program} {cfg : Cfg} {env : CEnv} {G : Grammar} {inp : List Sym}

/-! ### ordered choice -/

theorem goodNS_alt_of_goodAlt {es p res evs} (h : GoodAltNS K P cfg env inp es p res evs) :
    GoodNS K P cfg env inp (.alt es) p res evs := by
  intro ko pd pmk st code pc s f hc hp hlead
  simp only [Lead] at hlead
  norm_code at hc
  obtain ⟨h1, hc⟩ := hc.head
  obtain ⟨h2, hc⟩ := hc.head
  have hstart : Steps P cfg inp code pc s f (pc + 1 + 1) s (f.set st.label (s.pos, s.ti)) :=
    (Steps.next (s' := s) (f' := f) h1 (by simp [stepLocal])).trans
      (Steps.next (s' := s) (f' := f.set st.label (s.pos, s.ti)) h2 (by simp [stepLocal]))
  have h' := h st.label ko pd pmk { st with label := st.label + 1 } code (pc + 1 + 1) s
    (f.set st.label (s.pos, s.ti)) (by simpa using hc) hp (Nat.lt_succ_self _)
    (by simp [Frame.set, hp.pos]) hlead
  cases res with
  | ok p' forest =>
    obtain ⟨s', f', hpos, hE, hst⟩ := h'
    refine ⟨s', f', hpos, hE.unset (Nat.le_succ _) (Nat.le_refl _), ?_⟩
    exact (hstart.trans hst).cast (by simp [List.length_append]; omega)
  | fail =>
    obtain ⟨s'', f'', hF, hj, hst⟩ := h'
    refine ⟨s'', f'', hF.unset (Nat.le_succ _) (Nat.le_refl _), by jmp, ?_⟩
    intro pcko hl; exact hstart.trans (hst pcko hl)

theorem goodAltNS_last {e p res evs} (ih : GoodNS K P cfg env inp e p res evs) :
    GoodAltNS K P cfg env inp [e] p res evs := by
  intro ok ko pd pmk st code pc s f hc hp hok hf hlead
  simp only [LeadL] at hlead
  simp only [compileAlt] at hc ⊢
  have hcb := hc.left.left
  obtain ⟨h1, _⟩ := hc.left.right.head
  have hcl := hc.right.cast (b := pc + (compile env e ko pd pmk st).code.length + 1) (by simp; omega)
  have h' := ih ko pd pmk st code pc s f hcb hp hlead
  cases res with
  | ok p' forest =>
    obtain ⟨s', f', hpos, hE, hst⟩ := h'
    refine ⟨s', f', hpos, hE, ?_⟩
    have h2 := hst.trans (Steps.next (s' := s') (f' := f') h1 (by simp [stepLocal]))
    by_cases hu : env.used ok = true
    · simp only [CEnv.lbl, hu, ↓reduceIte] at hcl ⊢
      obtain ⟨h3, _⟩ := hcl.head
      exact h2.trans (Steps.next (s' := s') (f' := f') h3 (by simp [stepLocal]))
    · simp only [CEnv.lbl, hu]
      exact h2
  | fail => exact h'

theorem goodAltNS_ok {e e' es p p1 f1 evs} (ih : GoodNS K P cfg env inp e p (.ok p1 f1) evs) :
    GoodAltNS K P cfg env inp (e :: e' :: es) p (.ok p1 f1) evs := by
  intro ok ko pd pmk st code pc s f hc hp hok hf hlead
  simp only [LeadL] at hlead
  have hu : env.used ok = true := hp.usedIn hc (by simp only [compileAlt]; jmp)
  simp only [compileAlt] at hc ⊢
  have hcl := hc.right
  simp only [CEnv.lbl, hu, ↓reduceIte] at hcl
  have hlp := labelPos_of_uniq hp.uniq hcl
  obtain ⟨h9, _⟩ := hcl.head
  have hcx := hc.left.left
  simp only [List.append_assoc, List.cons_append, List.nil_append] at hcx
  have hca := hcx.left
  obtain ⟨h1, _⟩ := hcx.right.head
  obtain ⟨s', f', hpos, hE, hst⟩ := ih st.label pd pmk { st with label := st.label + 1 } code pc s f hca hp hlead
  refine ⟨s', f', hpos, hE.weaken (Nat.le_succ _), ?_⟩
  refine hst.trans ?_
  refine (Steps.jump (s' := s') (f' := f') h1 (by simp [stepLocal]) hlp).trans ?_
  exact (Steps.next (s' := s') (f' := f') h9 (by simp [stepLocal])).cast
    (by simp [List.length_append, CEnv.lbl, hu]; omega)

/-- An alternative other than the last fails: position and `tokenIndex` of the entry are restored
    (not `text`, not the trace), then the rest is tried — without `parentDetect`. -/
theorem goodAltNS_next {e e' es p evs1 res evs2} (ih1 : GoodNS K P cfg env inp e p .fail evs1)
    (ih2 : GoodAltNS K P cfg env inp (e' :: es) p res evs2) :
    GoodAltNS K P cfg env inp (e :: e' :: es) p res (evs1 ++ evs2) := by
  intro ok ko pd pmk st code pc s f hc hp hok hf hlead
  simp only [LeadL] at hlead
  simp only [compileAlt] at hc ⊢
  have hc' : CodeAt code pc
      ((compile env e st.label pd pmk { st with label := st.label + 1 }).code ++
        (Instr.goto ok :: (env.lbl st.label ++ Instr.restore ok ::
          ((compileAlt env (e' :: es) ok ko false false
              (compile env e st.label pd pmk { st with label := st.label + 1 }).st).code ++
            [Instr.be] ++ env.lbl ok)))) := by
    simpa [List.append_assoc] using hc
  have hca := hc'.left
  obtain ⟨s2, fr2, hF, hj, hst⟩ := ih1 st.label pd pmk { st with label := st.label + 1 } code pc s f hca hp hlead
  have hu : env.used st.label = true := hp.usedIn hca hj
  obtain ⟨_, hc2⟩ := hc'.right.head
  simp only [CEnv.lbl, hu, ↓reduceIte, List.cons_append, List.nil_append] at hc2
  have hlp := labelPos_of_uniq hp.uniq hc2
  obtain ⟨h3, hc2⟩ := hc2.head
  obtain ⟨h4, hc2⟩ := hc2.head
  have hfr : (fr2 ok).1 = p := by rw [hF.frame ok (Nat.lt_succ_of_lt hok)]; exact hf
  have hp3 : PreNS env inp code { s2 with pos := p, ti := (fr2 ok).2 } p := hp.move rfl hp.ple
  have hmono := compile_mono env e st.label pd pmk { st with label := st.label + 1 }
  have hsteps : Steps P cfg inp code pc s f _ { s2 with pos := p, ti := (fr2 ok).2 } fr2 :=
    (hst _ hlp).trans <|
    (Steps.next (s' := s2) (f' := fr2) h3 (by simp [stepLocal])).trans <|
    Steps.next (s' := { s2 with pos := p, ti := (fr2 ok).2 }) (f' := fr2) h4 (by simp [stepLocal, hfr])
  have h' := ih2 ok ko false false _ code _ { s2 with pos := p, ti := (fr2 ok).2 } fr2 hc2 hp3
    (by simp at hmono; omega) hfr (LeadL_false _ _ _ _)
  have hF' : EffN K inp st.label s f { s2 with pos := p, ti := (fr2 ok).2 } fr2 evs1 :=
    (hF.weaken (Nat.le_succ _)).repos _ _
  cases res with
  | ok p' forest =>
    obtain ⟨s', f', hpos, hE, hst2⟩ := h'
    refine ⟨s', f', hpos, hF'.trans hE (by simp at hmono ⊢; omega), ?_⟩
    exact (hsteps.trans hst2).cast (by simp [List.length_append, CEnv.lbl, hu]; omega)
  | fail =>
    obtain ⟨s4, f4, hF2, hj2, hst2⟩ := h'
    refine ⟨s4, f4, hF'.trans hF2 (by simp at hmono ⊢; omega), by jmp, ?_⟩
    intro pcko hl
    exact hsteps.trans (hst2 pcko hl)

/-! ### repetition -/

theorem goodLoopNS_stop {e p evs} (ih : GoodNS K P cfg env inp e p .fail evs) :
    GoodLoopNS K P cfg env inp e p (.ok p []) evs := by
  intro again out stb code pc s f hc hp hag hout
  unfold loopCode at hc ⊢
  simp only [List.append_assoc, List.cons_append, List.nil_append] at hc
  obtain ⟨pc0, hpc0, hlead, hc⟩ : ∃ pc0, pc0 = pc + (env.lbl again).length ∧
      Steps P cfg inp code pc s f pc0 s f ∧
      CodeAt code pc0 (Instr.bb :: Instr.save out :: ((compile env e out false false stb).code ++
        Instr.goto again :: (env.lbl out ++ [Instr.restore out, Instr.be]))) := by
    by_cases hu : env.used again = true
    · simp only [CEnv.lbl, hu, ↓reduceIte, List.cons_append, List.nil_append] at hc ⊢
      obtain ⟨h0, hc⟩ := hc.head
      exact ⟨pc + 1, by simp, Steps.next h0 (by simp [stepLocal]), hc⟩
    · simp only [CEnv.lbl, hu] at hc ⊢
      exact ⟨pc, by simp, Steps.refl, hc⟩
  obtain ⟨h1, hc⟩ := hc.head
  obtain ⟨h2, hc⟩ := hc.head
  have hcb := hc.left
  obtain ⟨s2, fr2, hF, hj, hst⟩ := ih out false false stb code _ s (f.set out (s.pos, s.ti)) hcb hp
    (Lead_false _ _ _ _)
  have hu : env.used out = true := hp.usedIn hcb hj
  obtain ⟨_, hc⟩ := hc.right.head
  simp only [CEnv.lbl, hu, ↓reduceIte, List.cons_append, List.nil_append] at hc
  have hlp := labelPos_of_uniq hp.uniq hc
  obtain ⟨h4, hc⟩ := hc.head
  obtain ⟨h5, hc⟩ := hc.head
  obtain ⟨h6, _⟩ := hc.head
  have hfr : fr2 out = (p, s.ti) := by rw [hF.frame out hout]; simp [Frame.set, hp.pos]
  have hframe : ∀ n, n < stb.label → n ≠ out → fr2 n = f n := by
    intro n hn hne; rw [hF.frame n hn]; simp [Frame.set, hne]
  refine ⟨{ s2 with pos := p, ti := s.ti }, fr2, rfl, ?_, hframe, ?_⟩
  · exact ⟨fun n hn => hframe n (by omega) (by omega), hF.maxTok, hF.obs, hF.tree, hF.memo⟩
  · have hsteps := hlead.trans <|
      (Steps.next (s' := s) (f' := f) h1 (by simp [stepLocal])).trans <|
      (Steps.next (s' := s) (f' := f.set out (s.pos, s.ti)) h2 (by simp [stepLocal])).trans <|
      (hst _ hlp).trans <|
      (Steps.next (s' := s2) (f' := fr2) h4 (by simp [stepLocal])).trans <|
      (Steps.next (s' := { s2 with pos := p, ti := s.ti }) (f' := fr2) h5 (by simp [stepLocal, hfr])).trans <|
      Steps.next (s' := { s2 with pos := p, ti := s.ti }) (f' := fr2) h6 (by simp [stepLocal])
    exact hsteps.cast (by simp [List.length_append, CEnv.lbl, hu] at hpc0 ⊢; omega)

theorem goodLoopNS_step {e p p1 f1 evs1 p2 f2 evs2}
    (hev : Eval G cfg.rho inp e p (.ok p1 f1) evs1)
    (ih1 : GoodNS K P cfg env inp e p (.ok p1 f1) evs1)
    (ih2 : GoodLoopNS K P cfg env inp e p1 (.ok p2 f2) evs2) :
    GoodLoopNS K P cfg env inp e p (.ok p2 (f1 ++ f2)) (evs1 ++ evs2) := by
  intro again out stb code pc s f hc hp hag hout
  have hcAll := hc
  unfold loopCode at hc
  have hua : env.used again = true := hp.usedIn hc (by jmp)
  simp only [CEnv.lbl, hua, ↓reduceIte, List.append_assoc, List.cons_append, List.nil_append] at hc
  have hlp := labelPos_of_uniq hp.uniq hc
  obtain ⟨h0, hc⟩ := hc.head
  obtain ⟨h1, hc⟩ := hc.head
  obtain ⟨h2, hc⟩ := hc.head
  have hcb := hc.left
  obtain ⟨s1, fr1, hpos1, hE, hst⟩ := ih1 out false false stb code _ s (f.set out (s.pos, s.ti)) hcb hp
    (Lead_false _ _ _ _)
  obtain ⟨h3, _⟩ := hc.right.head
  have hp1 : PreNS env inp code s1 p1 := hp.move hpos1 (Eval_bound hev hp.ple _ _ rfl).2
  obtain ⟨s', f', hpos2, hE2, hfr2, hst2⟩ := ih2 again out stb code pc s1 fr1 hcAll hp1 hag hout
  have hE1 : EffN K inp (min again out) s f s1 fr1 evs1 :=
    hE.unset (by omega) (by omega)
  refine ⟨s', f', hpos2, hE1.trans hE2 (Nat.le_refl _), ?_, ?_⟩
  · intro n hn hne
    rw [hfr2 n hn hne, hE.frame n hn]; simp [Frame.set, hne]
  · exact
      (Steps.next (P := P) (cfg := cfg) (inp := inp) (s := s) (f := f) (s' := s) (f' := f) h0 (by simp [stepLocal])).trans <|
      (Steps.next (s' := s) (f' := f) h1 (by simp [stepLocal])).trans <|
      (Steps.next (s' := s) (f' := f.set out (s.pos, s.ti)) h2 (by simp [stepLocal])).trans <|
      hst.trans <|
      (Steps.jump (s' := s1) (f' := fr1) h3 (by simp [stepLocal]) hlp).trans hst2

theorem goodNS_star_of_loop {e p res evs} (h : GoodLoopNS K P cfg env inp e p res evs) :
    GoodNS K P cfg env inp (.star e) p res evs := by
  intro ko pd pmk st code pc s f hc hp _
  have h' := h st.label (st.label + 1) { st with label := st.label + 2 } code pc s f
    (by simpa [compile, loopCode] using hc) hp (by simp) (by simp)
  cases res with
  | ok p' forest =>
    obtain ⟨s', f', hpos, hE, _, hst⟩ := h'
    refine ⟨s', f', hpos, by simpa using hE, ?_⟩
    exact hst.cast (by simp [compile, loopCode])
  | fail => exact h'.elim

theorem goodNS_plus_fail {e p evs} (ih : GoodNS K P cfg env inp e p .fail evs) :
    GoodNS K P cfg env inp (.plus e) p .fail evs := by
  intro ko pd pmk st code pc s f hc hp _
  simp only [compile, List.append_assoc] at hc ⊢
  obtain ⟨s2, fr2, hF, hj, hst⟩ := ih ko false false { st with label := st.label + 2 } code pc s f hc.left hp
    (Lead_false _ _ _ _)
  exact ⟨s2, fr2, hF.weaken (by simp), by simp [jumps_append, hj], hst⟩

theorem goodNS_plus_ok {e p p1 f1 evs1 p2 f2 evs2}
    (hev : Eval G cfg.rho inp e p (.ok p1 f1) evs1)
    (ih1 : GoodNS K P cfg env inp e p (.ok p1 f1) evs1)
    (ih2 : GoodLoopNS K P cfg env inp e p1 (.ok p2 f2) evs2) :
    GoodNS K P cfg env inp (.plus e) p (.ok p2 (f1 ++ f2)) (evs1 ++ evs2) := by
  intro ko pd pmk st code pc s f hc hp _
  have hc' : CodeAt code pc ((compile env e ko false false { st with label := st.label + 2 }).code ++
      loopCode env e st.label (st.label + 1) (compile env e ko false false { st with label := st.label + 2 }).st) := by
    simpa [compile, loopCode] using hc
  obtain ⟨s1, fr1, hpos1, hE, hst⟩ := ih1 ko false false { st with label := st.label + 2 } code pc s f hc'.left hp
    (Lead_false _ _ _ _)
  have hp1 : PreNS env inp code s1 p1 := hp.move hpos1 (Eval_bound hev hp.ple _ _ rfl).2
  have hmono := compile_mono env e ko false false { st with label := st.label + 2 }
  obtain ⟨s', f', hpos2, hE2, _, hst2⟩ := ih2 st.label (st.label + 1) _ code _ s1 fr1 hc'.right hp1
    (by simp at hmono; omega) (by simp at hmono; omega)
  refine ⟨s', f', hpos2, ?_, ?_⟩
  · exact (hE.weaken (lbl := st.label) (by simp)).trans (by simpa using hE2) (Nat.le_refl _)
  · exact (hst.trans hst2).cast (by simp [compile, loopCode, List.length_append]; omega)

end PegVerif
