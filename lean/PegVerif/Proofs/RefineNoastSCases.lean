import PegVerif.Proofs.RefineNoastSDefs
/-
  Refinement theorem RNS (`-noast -switch`) — leaves, sequence, lookahead, optional, and the
  token-producing wrappers, for every setting of the `parentDetect`/`parentMultipleKey` flags
  (`Lead`).  The cases of RefineNoastCases.lean, re-proved for the generalised motive `GoodNS`:
  a terminal whose test is elided is `position++` alone (and cannot fail, by `Lead`); sequence,
  `<…>`, implicit push and `?` hand the flags to the node executed first; `&e`, `!e` compile their
  operand without them.
-/
namespace PegVerif
open Noast

variable {K : NKit} {P : Program} {cfg : Cfg} {env : CEnv} {G : Grammar} {inp : List Sym}

/-! ### leaves -/

theorem goodNS_chr_ok {p c} (h : inp[p]? = some c) :
    GoodNS K P cfg env inp (.chr c) p (.ok (p + 1) []) [] := by
  intro ko pd pmk st code pc s f hc hp _
  simp only [compile] at hc ⊢
  have hlt := inp_lt_of_some h
  have hb : (bufOf inp)[s.pos]? = some c := by rw [hp.pos, buf_lt hlt, h]
  refine ⟨{ s with pos := s.pos + 1 }, f, by simp [hp.pos], EffN.move _, ?_⟩
  by_cases hel : (pd && !pmk) = true
  · -- test elided: `position++` only
    simp only [hel, ↓reduceIte] at hc ⊢
    obtain ⟨h2, _⟩ := hc.head
    exact Steps.next h2 (by simp [stepLocal])
  · simp only [hel, Bool.false_eq_true, ↓reduceIte] at hc ⊢
    obtain ⟨h1, hc1⟩ := hc.head
    obtain ⟨h2, _⟩ := hc1.head
    refine Steps.trans (Steps.next (s' := s) (f' := f) h1 (by simp [stepLocal, hb])) ?_
    exact Steps.next h2 (by simp [stepLocal])

theorem goodNS_chr_fail {p c} (hcE : c ≠ END) (h : inp[p]? ≠ some c) :
    GoodNS K P cfg env inp (.chr c) p .fail [] := by
  intro ko pd pmk st code pc s f hc hp hlead
  simp only [compile] at hc ⊢
  by_cases hel : (pd && !pmk) = true
  · -- test elided: `Lead` says the symbol is `c`, so the semantics cannot fail
    exfalso
    simp only [Bool.and_eq_true, Bool.not_eq_true'] at hel
    simp only [Lead] at hlead
    have hpk := hlead hel.1 hel.2
    cases hx : inp[p]? with
    | none => rw [peek_of_none hx] at hpk; exact hcE hpk.symm
    | some x => rw [peek_of_some hx] at hpk; subst hpk; exact h hx
  · simp only [hel, Bool.false_eq_true, ↓reduceIte] at hc ⊢
    obtain ⟨h1, _⟩ := hc.head
    refine ⟨s, f, EffN.refl, by simp [jumps, Instr.target?], ?_⟩
    intro pcko hl
    rcases buf_cases hp.ple with ⟨x, hx, hbx⟩ | ⟨_, _, hbe⟩
    · have hne : x ≠ c := by intro e; subst e; exact h hx
      exact Steps.jump h1 (by rw [← hp.pos] at hbx; simp [stepLocal, hbx, hne]) hl
    · exact Steps.jump h1 (by rw [← hp.pos] at hbe; simp [stepLocal, hbe, Ne.symm hcE]) hl

theorem goodNS_dot_ok (hW : WorldNS K P cfg env G inp) {p c} (h : inp[p]? = some c) :
    GoodNS K P cfg env inp .dot p (.ok (p + 1) []) [] := by
  intro ko pd pmk st code pc s f hc hp _
  simp only [compile] at hc ⊢
  have hlt := inp_lt_of_some h
  have hb : (bufOf inp)[s.pos]? = some c := by rw [hp.pos, buf_lt hlt, h]
  have hcE : c ≠ END := hW.inpOK c (List.mem_of_getElem? h)
  refine ⟨{ s with pos := s.pos + 1 }, f, by simp [hp.pos], EffN.move _, ?_⟩
  by_cases hel : pd = true
  · -- test elided: `position++` only
    simp only [hel, ↓reduceIte] at hc ⊢
    obtain ⟨h2, _⟩ := hc.head
    exact Steps.next h2 (by simp [stepLocal])
  · simp only [hel, Bool.false_eq_true, ↓reduceIte] at hc ⊢
    obtain ⟨h1, _⟩ := hc.head
    exact Steps.next h1 (by simp [stepLocal, hb, hcE])

theorem goodNS_dot_fail {p} (h : inp[p]? = none) :
    GoodNS K P cfg env inp .dot p .fail [] := by
  intro ko pd pmk st code pc s f hc hp hlead
  simp only [compile] at hc ⊢
  by_cases hel : pd = true
  · -- test elided: `Lead` says the position is inside the input, so the semantics cannot fail
    exfalso
    simp only [Lead] at hlead
    have hlt := hlead hel
    have : inp[p]? ≠ none := by simp; omega
    exact this h
  · simp only [hel, Bool.false_eq_true, ↓reduceIte] at hc ⊢
    obtain ⟨h1, _⟩ := hc.head
    refine ⟨s, f, EffN.refl, by simp [jumps, Instr.target?], ?_⟩
    intro pcko hl
    rcases buf_cases hp.ple with ⟨x, hx, _⟩ | ⟨_, _, hbe⟩
    · rw [h] at hx; cases hx
    · exact Steps.jump h1 (by rw [← hp.pos] at hbe; simp [stepLocal, hbe]) hl

theorem goodNS_rng_ok {p lo hi c} (h : inp[p]? = some c) (hl : lo ≤ c) (hh : c ≤ hi) :
    GoodNS K P cfg env inp (.rng lo hi) p (.ok (p + 1) []) [] := by
  intro ko pd pmk st code pc s f hc hp _
  simp only [compile] at hc ⊢
  have hlt := inp_lt_of_some h
  have hb : (bufOf inp)[s.pos]? = some c := by rw [hp.pos, buf_lt hlt, h]
  have hnot : ¬ (c < lo ∨ c > hi) := by omega
  refine ⟨{ s with pos := s.pos + 1 }, f, by simp [hp.pos], EffN.move _, ?_⟩
  by_cases hel : (pd && !pmk) = true
  · simp only [hel, ↓reduceIte] at hc ⊢
    obtain ⟨h2, _⟩ := hc.head
    exact Steps.next h2 (by simp [stepLocal])
  · simp only [hel, Bool.false_eq_true, ↓reduceIte] at hc ⊢
    obtain ⟨h1, hc1⟩ := hc.head
    obtain ⟨h2, _⟩ := hc1.head
    refine Steps.trans (Steps.next (s' := s) (f' := f) h1 (by simp [stepLocal, hb, hnot])) ?_
    exact Steps.next h2 (by simp [stepLocal])

theorem goodNS_rng_fail {p lo hi} (hhi : hi < END)
    (h : ∀ c, inp[p]? = some c → c < lo ∨ hi < c) :
    GoodNS K P cfg env inp (.rng lo hi) p .fail [] := by
  intro ko pd pmk st code pc s f hc hp hlead
  simp only [compile] at hc ⊢
  by_cases hel : (pd && !pmk) = true
  · exfalso
    simp only [Bool.and_eq_true, Bool.not_eq_true'] at hel
    simp only [Lead] at hlead
    have hpk := hlead hel.1 hel.2
    cases hx : inp[p]? with
    | none => rw [peek_of_none hx] at hpk; omega
    | some x => rw [peek_of_some hx] at hpk; have := h x hx; omega
  · simp only [hel, Bool.false_eq_true, ↓reduceIte] at hc ⊢
    obtain ⟨h1, _⟩ := hc.head
    refine ⟨s, f, EffN.refl, by simp [jumps, Instr.target?], ?_⟩
    intro pcko hl
    rcases buf_cases hp.ple with ⟨x, hx, hbx⟩ | ⟨_, _, hbe⟩
    · have hx' : x < lo ∨ x > hi := h x hx
      exact Steps.jump h1 (by rw [← hp.pos] at hbx; simp [stepLocal, hbx, hx']) hl
    · have : END < lo ∨ END > hi := Or.inr hhi
      exact Steps.jump h1 (by rw [← hp.pos] at hbe; simp [stepLocal, hbe, this]) hl

theorem goodNS_pred_ok {p c} (h : cfg.rho c p = true) :
    GoodNS K P cfg env inp (.pred c) p (.ok p []) [] := by
  intro ko pd pmk st code pc s f hc hp _
  simp only [compile] at hc ⊢
  obtain ⟨h1, _⟩ := hc.head
  exact ⟨s, f, hp.pos, EffN.refl, Steps.next h1 (by simp [stepLocal, hp.pos, h])⟩

theorem goodNS_pred_fail {p c} (h : cfg.rho c p = false) :
    GoodNS K P cfg env inp (.pred c) p .fail [] := by
  intro ko pd pmk st code pc s f hc hp _
  simp only [compile] at hc ⊢
  obtain ⟨h1, _⟩ := hc.head
  refine ⟨s, f, EffN.refl, by simp [jumps, Instr.target?], ?_⟩
  intro pcko hl
  exact Steps.jump h1 (by simp [stepLocal, hp.pos, h]) hl

/-- A state-change statement `!{…}` appends to the machine's trace an entry that is not compared. -/
theorem goodNS_stmt {p c} (hk : K.keep c = false) : GoodNS K P cfg env inp (.stmt c) p (.ok p []) [] := by
  intro ko pd pmk st code pc s f hc hp _
  simp only [compile] at hc ⊢
  obtain ⟨h1, _⟩ := hc.head
  refine ⟨{ s with trace := s.trace ++ [(c, s.text)] }, f, hp.pos, ?_, Steps.next h1 (by simp [stepLocal])⟩
  exact ⟨fun _ _ => rfl, rfl, by simp [obsN, List.filter_append, hk], rfl, rfl⟩

theorem goodNS_empty {e : Expr} {p} (he : ∀ ko pd pmk st, (compile env e ko pd pmk st).code = []) :
    GoodNS K P cfg env inp e p (.ok p []) [] := by
  intro ko pd pmk st code pc s f hc hp _
  rw [he]
  exact ⟨s, f, hp.pos, EffN.refl, by simpa using Steps.refl⟩

theorem goodNS_act {p c} : GoodNS K P cfg env inp (.act c) p (.ok p []) [] :=
  goodNS_empty (by intro ko pd pmk st; simp [compile])

theorem goodNS_nil {p} : GoodNS K P cfg env inp .nil p (.ok p []) [] :=
  goodNS_empty (by intro ko pd pmk st; simp [compile])

theorem goodNS_seq_nil {p} : GoodNS K P cfg env inp (.seq []) p (.ok p []) [] :=
  goodNS_empty (by intro ko pd pmk st; simp [compile, compileSeq])

/-! ### sequence -/

theorem goodNS_seq_fail {e es p evs} (ih : GoodNS K P cfg env inp e p .fail evs) :
    GoodNS K P cfg env inp (.seq (e :: es)) p .fail evs := by
  intro ko pd pmk st code pc s f hc hp hlead
  simp only [Lead, LeadL] at hlead
  cases es with
  | nil =>
    simp only [compile, compileSeq] at hc ⊢
    exact ih ko pd pmk st code pc s f hc hp hlead
  | cons e' es' =>
    simp only [compile, compileSeq] at hc ⊢
    obtain ⟨s2, f2, hF, hj, hst⟩ := ih ko pd pmk st code pc s f hc.left hp hlead
    exact ⟨s2, f2, hF, by simp [jumps_append, hj], hst⟩

theorem goodNS_seq_ok_fail {e es p p1 f1 evs1 evs2}
    (hev : Eval G cfg.rho inp e p (.ok p1 f1) evs1)
    (hev2 : Eval G cfg.rho inp (.seq es) p1 .fail evs2)
    (ih1 : GoodNS K P cfg env inp e p (.ok p1 f1) evs1)
    (ih2 : GoodNS K P cfg env inp (.seq es) p1 .fail evs2) :
    GoodNS K P cfg env inp (.seq (e :: es)) p .fail (evs1 ++ evs2) := by
  intro ko pd pmk st code pc s f hc hp hlead
  simp only [Lead, LeadL] at hlead
  cases es with
  | nil => cases hev2
  | cons e' es' =>
    simp only [compile, compileSeq] at hc ⊢
    obtain ⟨s1, fr1, hpos1, hE, hst1⟩ := ih1 ko pd pmk st code pc s f hc.left hp hlead
    have hp1 : PreNS env inp code s1 p1 := hp.move hpos1 (Eval_bound hev hp.ple _ _ rfl).2
    have hc2 := hc.right
    obtain ⟨s2, f2, hF, hj, hst2⟩ := ih2 ko false false _ code _ s1 fr1
      (by simpa only [compile] using hc2) hp1 (Lead_false _ _ _ _)
    refine ⟨s2, f2, hE.trans hF (compile_mono _ _ _ _ _ _), ?_, ?_⟩
    · simp only [compile] at hj; simp [jumps_append, hj]
    · intro pcko hl; exact hst1.trans (hst2 pcko hl)

theorem goodNS_seq_ok {e es p p1 f1 evs1 p2 f2 evs2}
    (hev : Eval G cfg.rho inp e p (.ok p1 f1) evs1)
    (hev2 : Eval G cfg.rho inp (.seq es) p1 (.ok p2 f2) evs2)
    (ih1 : GoodNS K P cfg env inp e p (.ok p1 f1) evs1)
    (ih2 : GoodNS K P cfg env inp (.seq es) p1 (.ok p2 f2) evs2) :
    GoodNS K P cfg env inp (.seq (e :: es)) p (.ok p2 (f1 ++ f2)) (evs1 ++ evs2) := by
  intro ko pd pmk st code pc s f hc hp hlead
  simp only [Lead, LeadL] at hlead
  cases es with
  | nil =>
    cases hev2
    simp only [compile, compileSeq] at hc ⊢
    simpa using ih1 ko pd pmk st code pc s f hc hp hlead
  | cons e' es' =>
    simp only [compile, compileSeq] at hc ⊢
    obtain ⟨s1, fr1, hpos1, hE, hst1⟩ := ih1 ko pd pmk st code pc s f hc.left hp hlead
    have hp1 : PreNS env inp code s1 p1 := hp.move hpos1 (Eval_bound hev hp.ple _ _ rfl).2
    have hc2 := hc.right
    obtain ⟨s2, fr2, hpos2, hE2, hst2⟩ := ih2 ko false false _ code _ s1 fr1
      (by simpa only [compile] using hc2) hp1 (Lead_false _ _ _ _)
    refine ⟨s2, fr2, hpos2, hE.trans hE2 (compile_mono _ _ _ _ _ _), ?_⟩
    simp only [compile] at hst2
    exact (hst1.trans hst2).cast (by simp [List.length_append]; omega)

/-! ### lookahead -/

theorem goodNS_peekFor_ok {e p p1 f1 evs}
    (ih : GoodNS K P cfg env inp e p (.ok p1 f1) evs) :
    GoodNS K P cfg env inp (.peekFor e) p (.ok p []) evs := by
  intro ko pd pmk st code pc s f hc hp _
  have hlead := Lead_false inp p false e
  norm_code at hc
  obtain ⟨h1, hc⟩ := hc.head
  obtain ⟨h2, hc⟩ := hc.head
  have hcb := hc.left
  obtain ⟨h3, hc⟩ := hc.right.head
  obtain ⟨h4, _⟩ := hc.head
  obtain ⟨s1, fr1, _, hE, hst⟩ := ih ko false false _ code _ s (f.set st.label (s.pos, s.ti)) hcb hp hlead
  have hfr : fr1 st.label = (p, s.ti) := by
    rw [hE.frame st.label (Nat.lt_succ_self _)]; simp [Frame.set, hp.pos]
  refine ⟨{ s1 with pos := p, ti := s.ti }, fr1, rfl,
    (hE.unset (Nat.le_succ _) (Nat.le_refl _)).repos _ _, ?_⟩
  refine (Steps.next (s' := s) (f' := f) h1 (by simp [stepLocal])).trans ?_
  refine (Steps.next (s' := s) (f' := f.set st.label (s.pos, s.ti)) h2 (by simp [stepLocal])).trans ?_
  refine hst.trans ?_
  refine (Steps.next (s' := { s1 with pos := p, ti := s.ti }) (f' := fr1) h3 (by simp [stepLocal, hfr])).trans ?_
  exact (Steps.next (s' := { s1 with pos := p, ti := s.ti }) (f' := fr1) h4 (by simp [stepLocal])).cast
    (by simp [List.length_append]; omega)

theorem goodNS_peekFor_fail {e p evs}
    (ih : GoodNS K P cfg env inp e p .fail evs) :
    GoodNS K P cfg env inp (.peekFor e) p .fail evs := by
  intro ko pd pmk st code pc s f hc hp _
  have hlead := Lead_false inp p false e
  norm_code at hc
  obtain ⟨h1, hc⟩ := hc.head
  obtain ⟨h2, hc⟩ := hc.head
  have hcb := hc.left
  obtain ⟨s2, fr2, hF, hj, hst⟩ := ih ko false false _ code _ s (f.set st.label (s.pos, s.ti)) hcb hp hlead
  refine ⟨s2, fr2, hF.unset (Nat.le_succ _) (Nat.le_refl _), by jmp, ?_⟩
  intro pcko hl
  refine (Steps.next (s' := s) (f' := f) h1 (by simp [stepLocal])).trans ?_
  refine (Steps.next (s' := s) (f' := f.set st.label (s.pos, s.ti)) h2 (by simp [stepLocal])).trans ?_
  exact (hst pcko hl)

theorem goodNS_peekNot_ok {e p evs}
    (ih : GoodNS K P cfg env inp e p .fail evs) :
    GoodNS K P cfg env inp (.peekNot e) p (.ok p []) evs := by
  intro ko pd pmk st code pc s f hc hp _
  have hlead := Lead_false inp p false e
  norm_code at hc
  obtain ⟨h1, hc⟩ := hc.head
  obtain ⟨h2, hc⟩ := hc.head
  have hcb := hc.left
  obtain ⟨s2, fr2, hF, hj, hst⟩ := ih st.label false false _ code _ s (f.set st.label (s.pos, s.ti)) hcb hp hlead
  have hu : env.used st.label = true := hp.usedIn hcb hj
  obtain ⟨_, hc⟩ := hc.right.head
  simp only [CEnv.lbl, hu, ↓reduceIte, List.cons_append, List.nil_append] at hc
  have hlp := labelPos_of_uniq hp.uniq hc
  obtain ⟨h4, hc⟩ := hc.head
  obtain ⟨h5, hc⟩ := hc.head
  obtain ⟨h6, _⟩ := hc.head
  have hfr : fr2 st.label = (p, s.ti) := by
    rw [hF.frame st.label (Nat.lt_succ_self _)]; simp [Frame.set, hp.pos]
  refine ⟨{ s2 with pos := p, ti := s.ti }, fr2, rfl,
    (hF.unset (Nat.le_succ _) (Nat.le_refl _)).repos _ _, ?_⟩
  refine (Steps.next (s' := s) (f' := f) h1 (by simp [stepLocal])).trans ?_
  refine (Steps.next (s' := s) (f' := f.set st.label (s.pos, s.ti)) h2 (by simp [stepLocal])).trans ?_
  refine (hst _ hlp).trans ?_
  refine (Steps.next (s' := s2) (f' := fr2) h4 (by simp [stepLocal])).trans ?_
  refine (Steps.next (s' := { s2 with pos := p, ti := s.ti }) (f' := fr2) h5 (by simp [stepLocal, hfr])).trans ?_
  exact (Steps.next (s' := { s2 with pos := p, ti := s.ti }) (f' := fr2) h6 (by simp [stepLocal])).cast
    (by simp [List.length_append, CEnv.lbl, hu]; omega)

theorem goodNS_peekNot_fail {e p p1 f1 evs}
    (ih : GoodNS K P cfg env inp e p (.ok p1 f1) evs) :
    GoodNS K P cfg env inp (.peekNot e) p .fail evs := by
  intro ko pd pmk st code pc s f hc hp _
  have hlead := Lead_false inp p false e
  norm_code at hc
  obtain ⟨h1, hc⟩ := hc.head
  obtain ⟨h2, hc⟩ := hc.head
  have hcb := hc.left
  obtain ⟨s1, fr1, _, hE, hst⟩ := ih st.label false false _ code _ s (f.set st.label (s.pos, s.ti)) hcb hp hlead
  obtain ⟨h3, _⟩ := hc.right.head
  refine ⟨s1, fr1, hE.unset (Nat.le_succ _) (Nat.le_refl _), by jmp, ?_⟩
  intro pcko hlk
  refine (Steps.next (s' := s) (f' := f) h1 (by simp [stepLocal])).trans ?_
  refine (Steps.next (s' := s) (f' := f.set st.label (s.pos, s.ti)) h2 (by simp [stepLocal])).trans ?_
  refine hst.trans ?_
  exact Steps.jump h3 (by simp [stepLocal]) hlk

/-! ### optional -/

theorem goodNS_query_ok {e p p1 f1 evs}
    (ih : GoodNS K P cfg env inp e p (.ok p1 f1) evs) :
    GoodNS K P cfg env inp (.query e) p (.ok p1 f1) evs := by
  intro ko pd pmk st code pc s f hc hp hlead
  simp only [Lead] at hlead
  have hu : env.used (st.label + 1) = true := hp.usedIn hc (by norm_code at hc; jmp)
  norm_code at hc
  obtain ⟨h1, hc⟩ := hc.head
  obtain ⟨h2, hc⟩ := hc.head
  have hcb := hc.left
  obtain ⟨s1, fr1, hpos1, hE, hst⟩ := ih st.label pd pmk _ code _ s (f.set st.label (s.pos, s.ti)) hcb hp hlead
  obtain ⟨h3, hc⟩ := hc.right.head
  have hc := hc.right
  obtain ⟨_, hc⟩ := hc.head
  obtain ⟨_, hc⟩ := hc.head
  simp only [CEnv.lbl, hu, ↓reduceIte] at hc
  have hlp := labelPos_of_uniq hp.uniq hc
  obtain ⟨h6, _⟩ := hc.head
  refine ⟨s1, fr1, hpos1, hE.unset (by simp) (Nat.le_refl _), ?_⟩
  refine (Steps.next (s' := s) (f' := f) h1 (by simp [stepLocal])).trans ?_
  refine (Steps.next (s' := s) (f' := f.set st.label (s.pos, s.ti)) h2 (by simp [stepLocal])).trans ?_
  refine hst.trans ?_
  refine (Steps.jump (s' := s1) (f' := fr1) h3 (by simp [stepLocal]) hlp).trans ?_
  exact (Steps.next (s' := s1) (f' := fr1) h6 (by simp [stepLocal])).cast
    (by simp [List.length_append, CEnv.lbl, hu]; omega)

theorem goodNS_query_none {e p evs}
    (ih : GoodNS K P cfg env inp e p .fail evs) :
    GoodNS K P cfg env inp (.query e) p (.ok p []) evs := by
  intro ko pd pmk st code pc s f hc hp hlead
  simp only [Lead] at hlead
  norm_code at hc
  obtain ⟨h1, hc⟩ := hc.head
  obtain ⟨h2, hc⟩ := hc.head
  have hcb := hc.left
  obtain ⟨s2, fr2, hF, hj, hst⟩ := ih st.label pd pmk _ code _ s (f.set st.label (s.pos, s.ti)) hcb hp hlead
  have hu : env.used st.label = true := hp.usedIn hcb hj
  obtain ⟨_, hc⟩ := hc.right.head
  simp only [CEnv.lbl, hu, ↓reduceIte, List.cons_append, List.nil_append] at hc
  have hlp := labelPos_of_uniq hp.uniq hc
  obtain ⟨h4, hc⟩ := hc.head
  obtain ⟨h5, hc⟩ := hc.head
  obtain ⟨h6, hc⟩ := hc.head
  have hfr : fr2 st.label = (p, s.ti) := by
    rw [hF.frame st.label (by simp)]; simp [Frame.set, hp.pos]
  have hEff : EffN K inp st.label s f { s2 with pos := p, ti := s.ti } fr2 evs :=
    (hF.unset (by simp) (Nat.le_refl _)).repos _ _
  have hsteps :=
    (Steps.next (P := P) (cfg := cfg) (inp := inp) (s := s) (f := f) (s' := s) (f' := f) h1 (by simp [stepLocal])).trans <|
    (Steps.next (s' := s) (f' := f.set st.label (s.pos, s.ti)) h2 (by simp [stepLocal])).trans <|
    (hst _ hlp).trans <|
    (Steps.next (s' := s2) (f' := fr2) h4 (by simp [stepLocal])).trans <|
    (Steps.next (s' := { s2 with pos := p, ti := s.ti }) (f' := fr2) h5 (by simp [stepLocal, hfr])).trans <|
    Steps.next (s' := { s2 with pos := p, ti := s.ti }) (f' := fr2) h6 (by simp [stepLocal])
  refine ⟨_, fr2, rfl, hEff, ?_⟩
  by_cases hq : env.used (st.label + 1) = true
  · simp only [hq, ↓reduceIte] at hc
    obtain ⟨h7, _⟩ := hc.head
    refine hsteps.trans ?_
    exact (Steps.next (s' := { s2 with pos := p, ti := s.ti }) (f' := fr2) h7 (by simp [stepLocal])).cast
      (by simp [List.length_append, CEnv.lbl, hu, hq]; omega)
  · exact hsteps.cast (by simp [List.length_append, CEnv.lbl, hu, hq]; omega)

/-! ### token-producing wrappers under `-noast` -/

/-- The implicit push of an ordinary rule: body, then `add(rule, positionN)` — which only counts
    the token and updates `maxToken`. -/
theorem goodNS_ipush_ok (hW : WorldNS K P cfg env G inp) {e : Expr} {r p p1 f1 evs}
    (hn : e.isAct = false) (hr : r ≠ "PegText") (hcode : K.codeOf r = none)
    (ih : GoodNS K P cfg env inp e p (.ok p1 f1) evs) :
    GoodNS K P cfg env inp (.ipush e r) p (.ok p1 [.node ⟨r, p, p1⟩ f1]) (evs ++ [⟨r, p, p1⟩]) := by
  intro ko pd pmk st code pc s f hc hp hlead
  simp only [Lead] at hlead
  rw [compile_ipush_nonact_noast hn] at hc ⊢
  simp only [List.cons_append, List.nil_append, List.append_assoc] at hc ⊢
  obtain ⟨h1, hc⟩ := hc.head
  obtain ⟨h2, hc⟩ := hc.head
  have hcb := hc.left
  obtain ⟨h3, hc⟩ := hc.right.head
  obtain ⟨h4, _⟩ := hc.head
  obtain ⟨s1, fr1, hpos1, hE, hst⟩ := ih ko pd pmk _ code _ s (f.set st.label (s.pos, (f st.label).2)) hcb hp hlead
  have hfr : (fr1 st.label).1 = p := by
    rw [hE.frame st.label (Nat.lt_succ_self _)]; simp [Frame.set, hp.pos]
  have hEadd : EffN K inp (st.label + 1) s1 fr1 (doAdd cfg r p s1) fr1 [⟨r, p, p1⟩] := by
    refine ⟨fun _ _ => rfl, ?_, ?_, by simp [doAdd, hW.ast], by simp [doAdd]⟩
    · rw [doAdd_maxTok, hpos1]; simp [noCap, hr]
    · simp [obsN, doAdd, inlineStep, hr, hcode]
  refine ⟨doAdd cfg r p s1, fr1, by simp [doAdd, hpos1],
    (hE.trans hEadd (Nat.le_refl _)).unset (Nat.le_succ _) (Nat.le_refl _), ?_⟩
  refine (Steps.next (s' := s) (f' := f) h1 (by simp [stepLocal])).trans ?_
  refine (Steps.next (s' := s) (f' := f.set st.label (s.pos, (f st.label).2)) h2 (by simp [stepLocal])).trans ?_
  refine hst.trans ?_
  refine (Steps.next (s' := doAdd cfg r p s1) (f' := fr1) h3 (by simp [stepLocal, hfr])).trans ?_
  exact (Steps.next (s' := doAdd cfg r p s1) (f' := fr1) h4 (by simp [stepLocal])).cast
    (by simp [List.length_append]; omega)

/-- A capture `<e>`: body, then `text = string(buffer[positionN:position])`. -/
theorem goodNS_push_ok (hW : WorldNS K P cfg env G inp) {e : Expr} {p p1 f1 evs}
    (hn : e.isAct = false) (hev : Eval G cfg.rho inp e p (.ok p1 f1) evs)
    (ih : GoodNS K P cfg env inp e p (.ok p1 f1) evs) :
    GoodNS K P cfg env inp (.push e "PegText") p (.ok p1 [.node ⟨"PegText", p, p1⟩ f1])
      (evs ++ [⟨"PegText", p, p1⟩]) := by
  intro ko pd pmk st code pc s f hc hp hlead
  simp only [Lead] at hlead
  rw [compile_push_nonact_noast hn hW.envAst] at hc ⊢
  simp only [List.cons_append, List.nil_append, List.append_assoc] at hc ⊢
  obtain ⟨h1, hc⟩ := hc.head
  obtain ⟨h2, hc⟩ := hc.head
  have hcb := hc.left
  obtain ⟨h3, hc⟩ := hc.right.head
  obtain ⟨h4, _⟩ := hc.head
  obtain ⟨s1, fr1, hpos1, hE, hst⟩ := ih ko pd pmk _ code _ s (f.set st.label (s.pos, (f st.label).2)) hcb hp hlead
  have hfr : (fr1 st.label).1 = p := by
    rw [hE.frame st.label (Nat.lt_succ_self _)]; simp [Frame.set, hp.pos]
  obtain ⟨hpp1, hp1⟩ := Eval_bound hev hp.ple _ _ rfl
  have hEcap : EffN K inp (st.label + 1) s1 fr1 { s1 with text := inp.extract p p1 } fr1 [⟨"PegText", p, p1⟩] := by
    refine ⟨fun _ _ => rfl, by simp [noCap], ?_, rfl, rfl⟩
    simp [obsN, inlineStep]
  refine ⟨{ s1 with text := inp.extract p p1 }, fr1, hpos1,
    (hE.trans hEcap (Nat.le_refl _)).unset (Nat.le_succ _) (Nat.le_refl _), ?_⟩
  have hstep : stepLocal cfg inp (.cap st.label) s1 fr1 = .next { s1 with text := inp.extract p p1 } fr1 := by
    have hlen : (bufOf inp).length = inp.length + 1 := by simp [bufOf]
    have hcond : p ≤ s1.pos ∧ s1.pos ≤ (bufOf inp).length := by rw [hpos1, hlen]; omega
    simp only [stepLocal, hfr, hcond, and_self, ↓reduceIte]
    rw [hpos1, buf_extract hpp1 hp1]
  refine (Steps.next (s' := s) (f' := f) h1 (by simp [stepLocal])).trans ?_
  refine (Steps.next (s' := s) (f' := f.set st.label (s.pos, (f st.label).2)) h2 (by simp [stepLocal])).trans ?_
  refine hst.trans ?_
  refine (Steps.next h3 hstep).trans ?_
  exact (Steps.next (s' := { s1 with text := inp.extract p p1 }) (f' := fr1) h4 (by simp [stepLocal])).cast
    (by simp [List.length_append]; omega)

theorem goodNS_wrap_fail {w e : Expr} {p evs} {tail : Nat → Instr}
    (hw : ∀ ko pd pmk st, compile env w ko pd pmk st =
      ⟨[.bb, .savePos st.label] ++ (compile env e ko pd pmk { st with label := st.label + 1 }).code ++
        [tail st.label] ++ [.be], (compile env e ko pd pmk { st with label := st.label + 1 }).st, false⟩)
    (hl : ∀ pd pmk, Lead inp p pd pmk w → Lead inp p pd pmk e)
    (ih : GoodNS K P cfg env inp e p .fail evs) :
    GoodNS K P cfg env inp w p .fail evs := by
  intro ko pd pmk st code pc s f hc hp hlead
  rw [hw] at hc ⊢
  simp only [List.cons_append, List.nil_append, List.append_assoc] at hc ⊢
  obtain ⟨h1, hc⟩ := hc.head
  obtain ⟨h2, hc⟩ := hc.head
  have hcb := hc.left
  obtain ⟨s2, fr2, hF, hj, hst⟩ := ih ko pd pmk _ code _ s (f.set st.label (s.pos, (f st.label).2)) hcb hp
    (hl _ _ hlead)
  refine ⟨s2, fr2, hF.unset (Nat.le_succ _) (Nat.le_refl _), by jmp, ?_⟩
  intro pcko hl
  refine (Steps.next (s' := s) (f' := f) h1 (by simp [stepLocal])).trans ?_
  refine (Steps.next (s' := s) (f' := f.set st.label (s.pos, (f st.label).2)) h2 (by simp [stepLocal])).trans ?_
  exact hst pcko hl

/-- An action rule: the action's code runs right here, with the current `text`. -/
theorem goodNS_ipush_act (hW : WorldNS K P cfg env G inp) {c r p}
    (hr : r ≠ "PegText") (hcode : K.codeOf r = some c) (hk : K.keep c = true) :
    GoodNS K P cfg env inp (.ipush (.act c) r) p (.ok p [.node ⟨r, p, p⟩ []]) [⟨r, p, p⟩] := by
  intro ko pd pmk st code pc s f hc hp _
  have hw : (compile env (.ipush (.act c) r) ko pd pmk st).code = [.bb, .stmt c, .be] := by
    simp [compile, hW.envAst]
  rw [hw] at hc ⊢
  obtain ⟨h1, hc⟩ := hc.head
  obtain ⟨h2, hc⟩ := hc.head
  obtain ⟨h3, _⟩ := hc.head
  refine ⟨{ s with trace := s.trace ++ [(c, s.text)] }, f, hp.pos, ?_, ?_⟩
  · refine ⟨fun _ _ => rfl, ?_, ?_, rfl, rfl⟩
    · simp [noCap, hr, updTok]
    · simp [obsN, inlineStep, hr, hcode, List.filter_append, hk]
  · refine (Steps.next (s' := s) (f' := f) h1 (by simp [stepLocal])).trans ?_
    refine (Steps.next (s' := { s with trace := s.trace ++ [(c, s.text)] }) (f' := f) h2 (by simp [stepLocal])).trans ?_
    exact (Steps.next (s' := { s with trace := s.trace ++ [(c, s.text)] }) (f' := f) h3 (by simp [stepLocal]))

end PegVerif
