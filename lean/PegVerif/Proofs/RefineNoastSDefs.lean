import PegVerif.Proofs.RefineNoast
import PegVerif.Proofs.RefineSwitch
/-
  Definitions for the refinement theorem RNS: RN (`-noast`, RefineNoastDefs.lean) for programs with
  `-switch` nodes (`TypeUnorderedAlternate`, `.ualt`), i.e. for `-noast -switch`.

  RN fixes the `parentDetect`/`parentMultipleKey` flags of `compile` at `false false` and dismisses
  `.ualt` (`Expr.fine`).  Here the motives quantify over the two flags under the hypothesis `Lead`
  (LeadDefs.lean: the terminal tests elided because of the flags would have passed), exactly as the
  AST motives of RefineDefs.lean do, the fragment is `Expr.fineS` (a `.ualt` whose cases are in the
  fragment and satisfy `casesLeadOK`), and the precondition carries `SUniq` (every `slabel` / `send`
  defined once — true of every emitted rule function, `ruleFunc_suniq`).

  Everything observable is reused unchanged from RN: `NKit`, `Expr.okN` (which already descends into
  the cases of a `.ualt`), `obsN`, `EffN` (frame, `maxToken` over the non-capture events, trace and
  `text` as the fold `inlineStep` over the events, token buffer and memo table untouched),
  `StEffN`, `RuleSpecN`.
-/
namespace PegVerif
open Noast

/-- Static facts about a `-noast` program that may contain `-switch` nodes: `WorldN` with the
    fragment `Expr.fineS` in place of `Expr.fine`. -/
structure WorldNS (K : NKit) (P : Program) (cfg : Cfg) (env : CEnv) (G : Grammar) (inp : List Sym) : Prop where
  ast : cfg.ast = false
  envAst : env.ast = false
  inpOK : ∀ c ∈ inp, c ≠ END
  /-- `CheckAlwaysSucceeds` is sound: a rule called without failure branch never fails. -/
  always : ∀ n, env.always n = true → ∀ p evs, ¬ Eval G cfg.rho inp (.name n) p .fail evs
  /-- Every emitted function is the emission (with the `-noast` shape of `ruleFunc`) of its rule's body. -/
  rules : ∀ n cr, P.find n = some cr → ∃ (r : Rule) (b : Expr) (kr : Nat) (stb : CSt),
    G.body n = some b ∧ cr = (ruleFunc env r b kr stb).1 ∧ kr < stb.label ∧ Uniq cr ∧
    (∀ l ∈ jumps cr, env.used l = true) ∧ b.fineS P ∧ b.okN K

/-- The `-switch`-free world is a special case. -/
theorem WorldN.toS {K : NKit} {P : Program} {cfg : Cfg} {env : CEnv} {G : Grammar} {inp : List Sym}
    (h : WorldN K P cfg env G inp) : WorldNS K P cfg env G inp where
  ast := h.ast
  envAst := h.envAst
  inpOK := h.inpOK
  always := h.always
  rules := by
    intro n cr hf
    obtain ⟨r, b, kr, stb, h1, h2, h3, h4, h5, h6, h7⟩ := h.rules n cr hf
    exact ⟨r, b, kr, stb, h1, h2, h3, h4, h5, h6.fineS, h7⟩

/-- Preconditions on the point of the code and the state where an expression starts: `PreN` and
    uniqueness of the synthetic labels of flattened switches. -/
structure PreNS (env : CEnv) (inp : List Sym) (code : Code) (s : St) (p : Nat) : Prop where
  uniq : Uniq code
  suniq : SUniq code
  used : ∀ l ∈ jumps code, env.used l = true
  pos : s.pos = p
  ple : p ≤ inp.length

section
variable (K : NKit) (P : Program) (cfg : Cfg) (env : CEnv) (inp : List Sym)

/-- The emitted `-noast` code of `e` refines the outcome `res` of the PEG semantics at `p` — for
    every setting of the `parentDetect`/`parentMultipleKey` flags under which the elided terminal
    tests would have passed (`Lead`). -/
def GoodNS (e : Expr) (p : Nat) (res : Res) (evs : List Token) : Prop :=
  ∀ (ko : Nat) (pd pmk : Bool) (st : CSt) (code : Code) (pc : Nat) (s : St) (f : Frame),
    CodeAt code pc (compile env e ko pd pmk st).code → PreNS env inp code s p →
    Lead inp p pd pmk e →
    match res with
    | .ok p' _ => ∃ s' f', s'.pos = p' ∧ EffN K inp st.label s f s' f' evs ∧
        Steps P cfg inp code pc s f (pc + (compile env e ko pd pmk st).code.length) s' f'
    | .fail => ∃ s'' f'', EffN K inp st.label s f s'' f'' evs ∧
        ko ∈ jumps (compile env e ko pd pmk st).code ∧
        ∀ pcko, labelPos code ko = some pcko → Steps P cfg inp code pc s f pcko s'' f''

/-- Tail of an ordered choice; slot `ok` holds the choice's entry position. -/
def GoodAltNS (es : List Expr) (p : Nat) (res : Res) (evs : List Token) : Prop :=
  ∀ (ok ko : Nat) (pd pmk : Bool) (st : CSt) (code : Code) (pc : Nat) (s : St) (f : Frame),
    CodeAt code pc ((compileAlt env es ok ko pd pmk st).code ++ [Instr.be] ++ env.lbl ok) →
    PreNS env inp code s p → ok < st.label → (f ok).1 = p →
    LeadL inp p pd pmk es →
    match res with
    | .ok p' _ => ∃ s' f', s'.pos = p' ∧ EffN K inp st.label s f s' f' evs ∧
        Steps P cfg inp code pc s f
          (pc + (compileAlt env es ok ko pd pmk st).code.length + 1 + (env.lbl ok).length) s' f'
    | .fail => ∃ s'' f'', EffN K inp st.label s f s'' f'' evs ∧
        ko ∈ jumps (compileAlt env es ok ko pd pmk st).code ∧
        ∀ pcko, labelPos code ko = some pcko → Steps P cfg inp code pc s f pcko s'' f''

/-- The loop of `e*` (also the second half of `e+`); its body is compiled without `parentDetect`. -/
def GoodLoopNS (e : Expr) (p : Nat) (res : Res) (evs : List Token) : Prop :=
  ∀ (again out : Nat) (stb : CSt) (code : Code) (pc : Nat) (s : St) (f : Frame),
    CodeAt code pc (loopCode env e again out stb) → PreNS env inp code s p →
    again < stb.label → out < stb.label →
    match res with
    | .ok p' _ => ∃ s' f', s'.pos = p' ∧ EffN K inp (min again out) s f s' f' evs ∧
        (∀ n, n < stb.label → n ≠ out → f' n = f n) ∧
        Steps P cfg inp code pc s f (pc + (loopCode env e again out stb).length) s' f'
    | .fail => False

end

theorem PreNS.usedIn {env inp code s p pc c l} (hp : PreNS env inp code s p) (h : CodeAt code pc c)
    (hl : l ∈ jumps c) : env.used l = true :=
  hp.used l (jumps_sub_of_codeAt h l hl)

theorem PreNS.move {env inp code s p s1 p1} (hp : PreNS env inp code s p) (hpos : s1.pos = p1)
    (hple : p1 ≤ inp.length) : PreNS env inp code s1 p1 :=
  ⟨hp.uniq, hp.suniq, hp.used, hpos, hple⟩

theorem PreNS.toPreN {env inp code s p} (hp : PreNS env inp code s p) : PreN env inp code s p :=
  ⟨hp.uniq, hp.used, hp.pos, hp.ple⟩

end PegVerif
