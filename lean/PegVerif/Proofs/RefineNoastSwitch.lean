import PegVerif.Proofs.RefineNoastSAlt
/-
  Refinement theorem RNS — `TypeUnorderedAlternate` under `-noast -switch`:

      { switch buffer[position] { case k₀: body₀ [break] … default: bodyₙ [break] } } lN:

  flattened as  `bb; switchOn sw keys; slabel sw 0; body₀; [brk sw;] sjmp sw; …; send sw; be; lN:`.
  The switch itself touches neither `text` nor the trace nor `maxToken`: the effect (`EffN`) of the
  node is the effect of the selected case body — inline actions, captures and non-capture tokens of
  exactly the events of that case's derivation.  The case bodies (all but the default) are compiled
  with `parentDetect`; `casesLeadOK` (part of `Expr.fineS`) justifies the elided tests.

  The no-AST counterparts of `good_case_body`, `good_cases`, `good_ualt` (RefineSwitch.lean); the
  facts about the case selection (`caseIdx_lt`, `casesLeadOK_get`, …) are reused from there.
-/
namespace PegVerif
open Noast

variable {K : NKit} {P : Program} {cfg : Cfg} {env : CEnv} {G : Grammar} {inp : List Sym}

/-! ### One case body -/

/-- `slabel sw j; body; [brk sw;] sjmp sw` — from the case label to the exit instruction (success)
    or to the failure label `done` of the switch. -/
theorem goodNS_case_body {e : Expr} {p res evs} (ih : GoodNS K P cfg env inp e p res evs)
    (sw j done : Nat) (pdk pmkk : Bool) (st : CSt) (rest : Code) (code : Code) (pc : Nat) (s : St) (f : Frame)
    (hc : CodeAt code pc (Instr.slabel sw j :: ((compile env e done pdk pmkk st).code ++
      ((if (compile env e done pdk pmkk st).labelLast then [Instr.brk sw] else []) ++
        Instr.sjmp sw :: rest))))
    (hp : PreNS env inp code s p) (hl : Lead inp p pdk pmkk e) :
    slabelPos code sw j = some pc ∧
      match res with
      | .ok p' _ => ∃ s' f' pce ie, s'.pos = p' ∧ EffN K inp st.label s f s' f' evs ∧
          code[pce]? = some ie ∧ (∀ s0 f0, stepLocal cfg inp ie s0 f0 = .sexit sw s0 f0) ∧
          Steps P cfg inp code pc s f pce s' f'
      | .fail => ∃ s'' f'', EffN K inp st.label s f s'' f'' evs ∧
          done ∈ jumps (compile env e done pdk pmkk st).code ∧
          ∀ pcko, labelPos code done = some pcko → Steps P cfg inp code pc s f pcko s'' f'' := by
  refine ⟨slabelPos_of_suniq hp.suniq hc, ?_⟩
  obtain ⟨h0, hc1⟩ := hc.head
  have hstart : Steps P cfg inp code pc s f (pc + 1) s f := Steps.next h0 (by simp [stepLocal])
  have h' := ih done pdk pmkk st code (pc + 1) s f hc1.left hp hl
  cases res with
  | ok p' forest =>
    obtain ⟨s', f', hpos, hE, hst⟩ := h'
    have hc2 := hc1.right
    by_cases hll : (compile env e done pdk pmkk st).labelLast = true
    · simp only [hll, ↓reduceIte, List.cons_append, List.nil_append] at hc2
      obtain ⟨h3, _⟩ := hc2.head
      exact ⟨s', f', _, _, hpos, hE, h3, fun _ _ => by simp [stepLocal], hstart.trans hst⟩
    · simp only [hll, Bool.false_eq_true, ↓reduceIte, List.nil_append] at hc2
      obtain ⟨h3, _⟩ := hc2.head
      exact ⟨s', f', _, _, hpos, hE, h3, fun _ _ => by simp [stepLocal], hstart.trans hst⟩
  | fail =>
    obtain ⟨s'', f'', hF, hj, hst⟩ := h'
    exact ⟨s'', f'', hF, hj, fun pcko hlk => hstart.trans (hst pcko hlk)⟩

/-! ### The case list -/

/-- The code of case `k` inside `compileCases`: its label is found, and from there the body behaves
    as the semantics of `es[k]` prescribes.  `hl` is the `Lead` fact for the flags `compileCases`
    passes to a case other than the default. -/
theorem goodNS_cases {e : Expr} {p res evs} (ih : GoodNS K P cfg env inp e p res evs) :
    ∀ (es : List Expr) (ks : List KeySet) (k : Nat), es[k]? = some e →
    (k + 1 < es.length →
      Lead inp p true (decide ((ks.getD k []).card > 1)) e) →
    ∀ (sw i done : Nat) (st : CSt) (code : Code) (pc : Nat) (s : St) (f : Frame),
    CodeAt code pc (compileCases env ks es sw i done st).code → PreNS env inp code s p →
    ∃ pck, slabelPos code sw (i + k) = some pck ∧
      match res with
      | .ok p' _ => ∃ s' f' pce ie, s'.pos = p' ∧ EffN K inp st.label s f s' f' evs ∧
          code[pce]? = some ie ∧ (∀ s0 f0, stepLocal cfg inp ie s0 f0 = .sexit sw s0 f0) ∧
          Steps P cfg inp code pck s f pce s' f'
      | .fail => ∃ s'' f'', EffN K inp st.label s f s'' f'' evs ∧
          done ∈ jumps (compileCases env ks es sw i done st).code ∧
          ∀ pcko, labelPos code done = some pcko → Steps P cfg inp code pck s f pcko s'' f''
  | [], ks, k, hk, _ => by simp at hk
  | [e0], ks, k, hk, _ => by
    intro sw i done st code pc s f hc hp
    have hk0 : k = 0 := by
      cases k with
      | zero => rfl
      | succ k => simp at hk
    subst hk0
    simp only [List.getElem?_cons_zero, Option.some.injEq] at hk
    subst hk
    simp only [compileCases, List.append_assoc, List.cons_append, List.nil_append] at hc ⊢
    obtain ⟨hpos, h'⟩ := goodNS_case_body ih sw i done false false st [] code pc s f hc hp
      (Lead_false _ _ _ _)
    refine ⟨pc, by simpa using hpos, ?_⟩
    cases res with
    | ok p' forest => exact h'
    | fail =>
      obtain ⟨s'', f'', hF, hj, hst⟩ := h'
      exact ⟨s'', f'', hF, by simp [jumps_cons, jumps_append, hj], hst⟩
  | e0 :: e1 :: es, ks, k, hk, hl => by
    intro sw i done st code pc s f hc hp
    simp only [compileCases, List.append_assoc, List.cons_append, List.nil_append] at hc ⊢
    cases k with
    | zero =>
      simp only [List.getElem?_cons_zero, Option.some.injEq] at hk
      subst hk
      have hl' := hl (by simp)
      rw [getD_zero_headD] at hl'
      obtain ⟨hpos, h'⟩ := goodNS_case_body ih sw i done _ _ st _ code pc s f hc hp hl'
      refine ⟨pc, by simpa using hpos, ?_⟩
      cases res with
      | ok p' forest => exact h'
      | fail =>
        obtain ⟨s'', f'', hF, hj, hst⟩ := h'
        refine ⟨s'', f'', hF, ?_, hst⟩
        rw [jumps_cons, jumps_append]
        exact List.mem_append_right _ (List.mem_append_left _ hj)
    | succ k =>
      simp only [List.getElem?_cons_succ] at hk
      -- skip the first case
      obtain ⟨_, hc1⟩ := hc.head
      obtain ⟨_, hc2⟩ := hc1.right.right.head
      have hmono := compile_mono env e0 done true
        (decide ((ks.headD []).card > 1)) st
      obtain ⟨pck, hpos, h'⟩ := goodNS_cases ih (e1 :: es) ks.tail k hk
        (fun hlt => by
          have := hl (by simp only [List.length_cons] at hlt ⊢; omega)
          rwa [getD_succ_tail] at this)
        sw (i + 1) done _ code _ s f hc2 hp
      refine ⟨pck, by rw [← hpos]; congr 1; omega, ?_⟩
      cases res with
      | ok p' forest =>
        obtain ⟨s', f', pce, ie, hpos', hE, h1, h2, hst⟩ := h'
        exact ⟨s', f', pce, ie, hpos', hE.weaken hmono, h1, h2, hst⟩
      | fail =>
        obtain ⟨s'', f'', hF, hj, hst⟩ := h'
        refine ⟨s'', f'', hF.weaken hmono, ?_, hst⟩
        rw [jumps_cons, jumps_append, jumps_append, jumps_cons]
        exact List.mem_append_right _ (List.mem_append_right _ (List.mem_append_right _
          (List.mem_append_right _ hj)))

/-! ### The switch -/

/-- The `.ualt` case of RNS: the machine's `switch` selects the case the semantics evaluates, its
    body runs (inline actions, captures, `maxToken` over its non-capture events), and control leaves
    through `send`.  The node ignores the flags it is compiled with. -/
theorem goodNS_ualt {ks : List KeySet} {es : List Expr} {e : Expr} {p res evs}
    (hidx : es[caseIdx (ks.take (es.length - 1)) (peek inp p)]? = some e)
    (hcl : casesLeadOK ks es = true)
    (ih : GoodNS K P cfg env inp e p res evs) :
    GoodNS K P cfg env inp (.ualt ks es) p res evs := by
  intro ko pd pmk st code pc s f hc hp _
  norm_code at hc
  obtain ⟨h1, hc⟩ := hc.head
  obtain ⟨h2, hc⟩ := hc.head
  have hcases := hc.left
  have hcend := hc.right
  have hsend := sendPos_of_suniq hp.suniq hcend
  obtain ⟨h3, hcend⟩ := hcend.head
  obtain ⟨h4, hcend⟩ := hcend.head
  -- the case selected by the machine is the one the semantics evaluates
  generalize hkdef : caseIdx (ks.take (es.length - 1)) (peek inp p) = k at hidx
  have hklt : k < es.length := by
    rcases Nat.lt_or_ge k es.length with h | h
    · exact h
    · rw [List.getElem?_eq_none h] at hidx; cases hidx
  have hlead : k + 1 < es.length →
      Lead inp p true (decide ((ks.getD k []).card > 1)) e := by
    intro hlt
    obtain ⟨K', hK, hok⟩ := casesLeadOK_get hcl hidx hlt
    have hlen := casesLeadOK_length hcl
    have hkk : caseIdx (ks.take (es.length - 1)) (peek inp p) < (ks.take (es.length - 1)).length := by
      rw [hkdef]; simp only [List.length_take]; omega
    obtain ⟨K'', hK', hhas⟩ := caseIdx_lt hkk
    rw [hkdef] at hK'
    have hKK : K'' = K' := by
      have h5 : (ks.take (es.length - 1))[k]? = ks[k]? := by
        rw [List.getElem?_take]; simp; omega
      have h6 : (ks.take (es.length - 1))[k]? = some K'' := hK'
      rw [h5, hK] at h6
      exact (Option.some.inj h6).symm
    subst hKK
    have hgetD : ks.getD k [] = K'' := by simp [List.getD, hK]
    rw [hgetD]
    exact leadOK_sound hhas e hok
  obtain ⟨pck, hpos, h'⟩ := goodNS_cases ih es ks k hidx hlead st.sw 0 ko
    { label := st.label + 1, sw := st.sw + 1 } code (pc + 1 + 1) s f hcases hp
  have hbuf : (bufOf inp)[s.pos]? = some (peek inp p) := by rw [hp.pos]; exact buf_peek hp.ple
  have hstart : Steps P cfg inp code pc s f pck s f :=
    (Steps.next (s' := s) (f' := f) h1 (by simp [stepLocal])).trans
      (Steps.sjump (sw := st.sw) (k := k) (s' := s) (f' := f) h2
        (by simp only [stepLocal, hbuf, caseIndex_eq_caseIdx, hkdef]) (by simpa using hpos))
  cases res with
  | ok p' forest =>
    obtain ⟨s', f', pce, ie, hpos', hE, hie, hex, hst⟩ := h'
    refine ⟨s', f', hpos', hE.weaken (Nat.le_succ _), ?_⟩
    have hsteps := hstart.trans <| hst.trans <|
      (Steps.sexit (s' := s') (f' := f') hie (hex s' f') hsend).trans <|
      (Steps.next (s' := s') (f' := f') h3 (by simp [stepLocal])).trans <|
      Steps.next (s' := s') (f' := f') h4 (by simp [stepLocal])
    by_cases hu : env.used st.label = true
    · simp only [CEnv.lbl, hu, ↓reduceIte] at hcend
      obtain ⟨h5, _⟩ := hcend.head
      exact (hsteps.trans (Steps.next (s' := s') (f' := f') h5 (by simp [stepLocal]))).cast
        (by simp [List.length_append, CEnv.lbl, hu]; omega)
    · exact hsteps.cast (by simp [List.length_append, CEnv.lbl, hu]; omega)
  | fail =>
    obtain ⟨s'', f'', hF, hj, hst⟩ := h'
    refine ⟨s'', f'', hF.weaken (Nat.le_succ _), ?_, fun pcko hlk => hstart.trans (hst pcko hlk)⟩
    simp only [jumps_cons, jumps_append]
    simp [hj]

end PegVerif
