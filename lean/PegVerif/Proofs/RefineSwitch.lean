import PegVerif.Proofs.RefineAlt
/-
  Refinement theorem R — `TypeUnorderedAlternate` (`-switch`):

      { switch buffer[position] { case k₀: body₀ [break] … default: bodyₙ [break] } } lN:

  flattened as  `bb; switchOn sw keys; slabel sw 0; body₀; [brk sw;] sjmp sw; …; send sw; be; lN:`.
  The case bodies (all but the default) are compiled with `parentDetect`, so their leading terminal
  test may be elided; `casesLeadOK` (part of `Expr.fineS`) justifies the elision: the switch
  selects case `k` only if the next symbol is one of its keys.
-/
namespace PegVerif

variable [MInv] {P : Program} {cfg : Cfg} {env : CEnv} {G : Grammar} {inp : List Sym}

omit [MInv] in
theorem Steps.sjump {code pc s f i sw k s' f' pc'} (hi : code[pc]? = some i)
    (hs : stepLocal cfg inp i s f = .sjump sw k s' f') (hl : slabelPos code sw k = some pc') :
    Steps P cfg inp code pc s f pc' s' f' :=
  fun _ h => Exec.sjump hi hs hl h

omit [MInv] in
theorem Steps.sexit {code pc s f i sw s' f' pc'} (hi : code[pc]? = some i)
    (hs : stepLocal cfg inp i s f = .sexit sw s' f') (hl : sendPos code sw = some pc') :
    Steps P cfg inp code pc s f pc' s' f' :=
  fun _ h => Exec.sexit hi hs hl h

/-! ### The machine's case selection is the semantics' -/

omit [MInv] in
theorem caseIndex_eq_caseIdx (keys : List KeySet) (c : Sym) : caseIndex keys c = caseIdx keys c := rfl

omit [MInv] in
/-- What `switch buffer[position]` sees at a position inside (or at the end of) the input. -/
theorem buf_peek {p : Nat} (h : p ≤ inp.length) : (bufOf inp)[p]? = some (peek inp p) := by
  rcases buf_cases h with ⟨c, hc, hb⟩ | ⟨hn, _, hb⟩
  · rw [hb, peek, hc]; rfl
  · rw [hb, peek, hn]; rfl

omit [MInv] in
/-- A case other than the default is selected only by one of its keys. -/
theorem caseIdx_lt {keys : List KeySet} {c : Sym} (h : caseIdx keys c < keys.length) :
    ∃ K, keys[caseIdx keys c]? = some K ∧ K.has c = true := by
  unfold caseIdx at h ⊢
  cases hf : keys.findIdx? (fun ks => ks.has c) with
  | none => simp [hf] at h
  | some i =>
    rw [List.findIdx?_eq_some_iff_getElem] at hf
    obtain ⟨hi, hhas, _⟩ := hf
    exact ⟨keys[i], by simp [hi], hhas⟩

omit [MInv] in
/-- `casesLeadOK` at one case: there is a key set, and the body passes the check for it. -/
theorem casesLeadOK_get : ∀ {ks : List KeySet} {es : List Expr} {k : Nat} {e : Expr},
    casesLeadOK ks es = true → es[k]? = some e → k + 1 < es.length →
    ∃ K, ks[k]? = some K ∧ leadOK K true (decide (K.card > 1)) e = true
  | _, [], k, e, _, hk, _ => by simp at hk
  | _, [_], k, e, _, _, hlt => by simp at hlt
  | [], _ :: _ :: _, k, e, h, _, _ => by simp [casesLeadOK] at h
  | K :: ks, e0 :: e1 :: es, 0, e, h, hk, _ => by
    simp only [casesLeadOK, Bool.and_eq_true] at h
    simp only [List.getElem?_cons_zero, Option.some.injEq] at hk
    subst hk
    exact ⟨K, rfl, h.1⟩
  | K :: ks, e0 :: e1 :: es, k + 1, e, h, hk, hlt => by
    simp only [casesLeadOK, Bool.and_eq_true] at h
    simp only [List.getElem?_cons_succ] at hk
    have := casesLeadOK_get (ks := ks) (es := e1 :: es) (k := k) h.2 hk
      (by simp only [List.length_cons] at hlt ⊢; omega)
    simpa only [List.getElem?_cons_succ] using this

omit [MInv] in
/-- `casesLeadOK` implies there is a key set for every case but the default. -/
theorem casesLeadOK_length : ∀ {ks : List KeySet} {es : List Expr},
    casesLeadOK ks es = true → es.length - 1 ≤ ks.length
  | _, [], _ => by simp
  | _, [_], _ => by simp
  | [], _ :: _ :: _, h => by simp [casesLeadOK] at h
  | K :: ks, e0 :: e1 :: es, h => by
    simp only [casesLeadOK, Bool.and_eq_true] at h
    have := casesLeadOK_length h.2
    simp only [List.length_cons] at this ⊢
    omega

/-! ### One case body -/

/-- `slabel sw j; body; [brk sw;] sjmp sw` — from the case label to the exit instruction (success)
    or to the failure label `done` of the switch. -/
theorem good_case_body {e : Expr} {p res evs} (ih : Good P cfg env inp e p res evs)
    (sw j done : Nat) (pdk pmkk : Bool) (st : CSt) (rest : Code) (code : Code) (pc : Nat) (s : St) (f : Frame)
    (hc : CodeAt code pc (Instr.slabel sw j :: ((compile env e done pdk pmkk st).code ++
      ((if (compile env e done pdk pmkk st).labelLast then [Instr.brk sw] else []) ++
        Instr.sjmp sw :: rest))))
    (hp : Pre env inp code s p) (hl : Lead inp p pdk pmkk e) :
    slabelPos code sw j = some pc ∧
      match res with
      | .ok p' forest => ∃ s' f' pce ie, Succ st.label s f s' f' p' (postorderL forest) evs ∧
          code[pce]? = some ie ∧ (∀ s0 f0, stepLocal cfg inp ie s0 f0 = .sexit sw s0 f0) ∧
          Steps P cfg inp code pc s f pce s' f'
      | .fail => ∃ s'' f'', Failed st.label s f s'' f'' evs ∧
          done ∈ jumps (compile env e done pdk pmkk st).code ∧
          ∀ pcko, labelPos code done = some pcko → Steps P cfg inp code pc s f pcko s'' f'' := by
  refine ⟨slabelPos_of_suniq hp.suniq hc, ?_⟩
  obtain ⟨h0, hc1⟩ := hc.head
  have hstart : Steps P cfg inp code pc s f (pc + 1) s f := Steps.next h0 (by simp [stepLocal])
  have h' := ih done pdk pmkk st code (pc + 1) s f hc1.left hp hl
  cases res with
  | ok p' forest =>
    obtain ⟨s', f', hS, hst⟩ := h'
    have hc2 := hc1.right
    by_cases hll : (compile env e done pdk pmkk st).labelLast = true
    · simp only [hll, ↓reduceIte, List.cons_append, List.nil_append] at hc2
      obtain ⟨h3, _⟩ := hc2.head
      exact ⟨s', f', _, _, hS, h3, fun _ _ => by simp [stepLocal], hstart.trans hst⟩
    · simp only [hll, Bool.false_eq_true, ↓reduceIte, List.nil_append] at hc2
      obtain ⟨h3, _⟩ := hc2.head
      exact ⟨s', f', _, _, hS, h3, fun _ _ => by simp [stepLocal], hstart.trans hst⟩
  | fail =>
    obtain ⟨s'', f'', hF, hj, hst⟩ := h'
    exact ⟨s'', f'', hF, hj, fun pcko hlk => hstart.trans (hst pcko hlk)⟩

omit [MInv] in
theorem getD_zero_headD (ks : List KeySet) : ks.getD 0 [] = ks.headD [] := by cases ks <;> rfl

omit [MInv] in
theorem getD_succ_tail (ks : List KeySet) (k : Nat) : ks.getD (k + 1) [] = ks.tail.getD k [] := by
  cases ks <;> simp

/-! ### The case list -/

/-- The code of case `k` inside `compileCases`: its label is found, and from there the body behaves
    as the semantics of `es[k]` prescribes.  `hl` is the `Lead` fact for the flags `compileCases`
    passes to a case other than the default. -/
theorem good_cases {e : Expr} {p res evs} (ih : Good P cfg env inp e p res evs) :
    ∀ (es : List Expr) (ks : List KeySet) (k : Nat), es[k]? = some e →
    (k + 1 < es.length →
      Lead inp p true (decide ((ks.getD k []).card > 1)) e) →
    ∀ (sw i done : Nat) (st : CSt) (code : Code) (pc : Nat) (s : St) (f : Frame),
    CodeAt code pc (compileCases env ks es sw i done st).code → Pre env inp code s p →
    ∃ pck, slabelPos code sw (i + k) = some pck ∧
      match res with
      | .ok p' forest => ∃ s' f' pce ie, Succ st.label s f s' f' p' (postorderL forest) evs ∧
          code[pce]? = some ie ∧ (∀ s0 f0, stepLocal cfg inp ie s0 f0 = .sexit sw s0 f0) ∧
          Steps P cfg inp code pck s f pce s' f'
      | .fail => ∃ s'' f'', Failed st.label s f s'' f'' evs ∧
          done ∈ jumps (compileCases env ks es sw i done st).code ∧
          ∀ pcko, labelPos code done = some pcko → Steps P cfg inp code pck s f pcko s'' f''
  | [], ks, k, hk, _ => by simp at hk
  | [e0], ks, k, hk, _ => by
    intro sw i done st code pc s f hc hp
    have hk0 : k = 0 := by
      cases k with
      | zero => rfl
      | succ k => simp at hk
    subst hk0
    simp only [List.getElem?_cons_zero, Option.some.injEq] at hk
    subst hk
    simp only [compileCases, List.append_assoc, List.cons_append, List.nil_append] at hc ⊢
    obtain ⟨hpos, h'⟩ := good_case_body ih sw i done false false st [] code pc s f hc hp
      (Lead_false _ _ _ _)
    refine ⟨pc, by simpa using hpos, ?_⟩
    cases res with
    | ok p' forest => exact h'
    | fail =>
      obtain ⟨s'', f'', hF, hj, hst⟩ := h'
      exact ⟨s'', f'', hF, by simp [jumps_cons, jumps_append, hj], hst⟩
  | e0 :: e1 :: es, ks, k, hk, hl => by
    intro sw i done st code pc s f hc hp
    simp only [compileCases, List.append_assoc, List.cons_append, List.nil_append] at hc ⊢
    cases k with
    | zero =>
      simp only [List.getElem?_cons_zero, Option.some.injEq] at hk
      subst hk
      have hl' := hl (by simp)
      rw [getD_zero_headD] at hl'
      obtain ⟨hpos, h'⟩ := good_case_body ih sw i done _ _ st _ code pc s f hc hp hl'
      refine ⟨pc, by simpa using hpos, ?_⟩
      cases res with
      | ok p' forest => exact h'
      | fail =>
        obtain ⟨s'', f'', hF, hj, hst⟩ := h'
        refine ⟨s'', f'', hF, ?_, hst⟩
        rw [jumps_cons, jumps_append]
        exact List.mem_append_right _ (List.mem_append_left _ hj)
    | succ k =>
      simp only [List.getElem?_cons_succ] at hk
      -- skip the first case
      obtain ⟨_, hc1⟩ := hc.head
      obtain ⟨_, hc2⟩ := hc1.right.right.head
      have hmono := compile_mono env e0 done true
        (decide ((ks.headD []).card > 1)) st
      obtain ⟨pck, hpos, h'⟩ := good_cases ih (e1 :: es) ks.tail k hk
        (fun hlt => by
          have := hl (by simp only [List.length_cons] at hlt ⊢; omega)
          rwa [getD_succ_tail] at this)
        sw (i + 1) done _ code _ s f hc2 hp
      refine ⟨pck, by rw [← hpos]; congr 1; omega, ?_⟩
      cases res with
      | ok p' forest =>
        obtain ⟨s', f', pce, ie, hS, h1, h2, hst⟩ := h'
        exact ⟨s', f', pce, ie, hS.weaken hmono, h1, h2, hst⟩
      | fail =>
        obtain ⟨s'', f'', hF, hj, hst⟩ := h'
        refine ⟨s'', f'', hF.weaken hmono, ?_, hst⟩
        rw [jumps_cons, jumps_append, jumps_append, jumps_cons]
        exact List.mem_append_right _ (List.mem_append_right _ (List.mem_append_right _
          (List.mem_append_right _ hj)))

/-! ### The switch -/

theorem good_ualt {ks : List KeySet} {es : List Expr} {e : Expr} {p res evs}
    (hidx : es[caseIdx (ks.take (es.length - 1)) (peek inp p)]? = some e)
    (hcl : casesLeadOK ks es = true)
    (ih : Good P cfg env inp e p res evs) :
    Good P cfg env inp (.ualt ks es) p res evs := by
  intro ko pd pmk st code pc s f hc hp _
  norm_code at hc
  obtain ⟨h1, hc⟩ := hc.head
  obtain ⟨h2, hc⟩ := hc.head
  have hcases := hc.left
  have hcend := hc.right
  have hsend := sendPos_of_suniq hp.suniq hcend
  obtain ⟨h3, hcend⟩ := hcend.head
  obtain ⟨h4, hcend⟩ := hcend.head
  -- the case selected by the machine is the one the semantics evaluates
  generalize hkdef : caseIdx (ks.take (es.length - 1)) (peek inp p) = k at hidx
  have hklt : k < es.length := by
    rcases Nat.lt_or_ge k es.length with h | h
    · exact h
    · rw [List.getElem?_eq_none h] at hidx; cases hidx
  have hlead : k + 1 < es.length →
      Lead inp p true (decide ((ks.getD k []).card > 1)) e := by
    intro hlt
    · obtain ⟨K, hK, hok⟩ := casesLeadOK_get hcl hidx hlt
      have hlen := casesLeadOK_length hcl
      have hkk : caseIdx (ks.take (es.length - 1)) (peek inp p) < (ks.take (es.length - 1)).length := by
        rw [hkdef]; simp only [List.length_take]; omega
      obtain ⟨K', hK', hhas⟩ := caseIdx_lt hkk
      rw [hkdef] at hK'
      have hKK : K' = K := by
        have h5 : (ks.take (es.length - 1))[k]? = ks[k]? := by
          rw [List.getElem?_take]; simp; omega
        have h6 : (ks.take (es.length - 1))[k]? = some K' := hK'
        rw [h5, hK] at h6
        exact (Option.some.inj h6).symm
      subst hKK
      have hgetD : ks.getD k [] = K' := by simp [List.getD, hK]
      rw [hgetD]
      exact leadOK_sound hhas e hok
  obtain ⟨pck, hpos, h'⟩ := good_cases ih es ks k hidx hlead st.sw 0 ko
    { label := st.label + 1, sw := st.sw + 1 } code (pc + 1 + 1) s f hcases hp
  have hbuf : (bufOf inp)[s.pos]? = some (peek inp p) := by rw [hp.pos]; exact buf_peek hp.ple
  have hstart : Steps P cfg inp code pc s f pck s f :=
    (Steps.next (s' := s) (f' := f) h1 (by simp [stepLocal])).trans
      (Steps.sjump (sw := st.sw) (k := k) (s' := s) (f' := f) h2
        (by simp only [stepLocal, hbuf, caseIndex_eq_caseIdx, hkdef]) (by simpa using hpos))
  cases res with
  | ok p' forest =>
    obtain ⟨s', f', pce, ie, hS, hie, hex, hst⟩ := h'
    refine ⟨s', f', hS.weaken (Nat.le_succ _), ?_⟩
    have hsteps := hstart.trans <| hst.trans <|
      (Steps.sexit (s' := s') (f' := f') hie (hex s' f') hsend).trans <|
      (Steps.next (s' := s') (f' := f') h3 (by simp [stepLocal])).trans <|
      Steps.next (s' := s') (f' := f') h4 (by simp [stepLocal])
    by_cases hu : env.used st.label = true
    · simp only [CEnv.lbl, hu, ↓reduceIte] at hcend
      obtain ⟨h5, _⟩ := hcend.head
      exact (hsteps.trans (Steps.next (s' := s') (f' := f') h5 (by simp [stepLocal]))).cast
        (by simp [List.length_append, CEnv.lbl, hu]; omega)
    · exact hsteps.cast (by simp [List.length_append, CEnv.lbl, hu]; omega)
  | fail =>
    obtain ⟨s'', f'', hF, hj, hst⟩ := h'
    refine ⟨s'', f'', hF.weaken (Nat.le_succ _), ?_, fun pcko hlk => hstart.trans (hst pcko hlk)⟩
    simp only [jumps_cons, jumps_append]
    simp [hj]

end PegVerif
