import PegVerif.Proofs.RefineDefs
/-
  Refinement theorem R — the cases of terminals and other leaves.
-/
namespace PegVerif

variable [MInv] {P : Program} {cfg : Cfg} {env : CEnv} {G : Grammar} {inp : List Sym}

omit [MInv] in
theorem updTok_e_ge (mt t : Token) : mt.e ≤ (updTok mt t).e := by
  unfold updTok; split <;> omega

/-- `add` leaves the memo table alone and can only move `maxToken` forward. -/
theorem doAdd_memo_ok (cfg : Cfg) (rule : String) (b : Nat) (s : St) (h : MInv.ok s.memo s.maxTok.e) :
    MInv.ok (doAdd cfg rule b s).memo (doAdd cfg rule b s).maxTok.e := by
  have hm : (doAdd cfg rule b s).memo = s.memo := by simp [doAdd]
  rw [hm, doAdd_maxTok]
  exact MInv.mono (updTok_e_ge _ _) h

theorem Succ.refl_nil {lbl s f} (hlen : s.ti ≤ s.tree.length) (hm : MInv.ok s.memo s.maxTok.e) :
    Succ lbl s f s f s.pos [] [] :=
  ⟨rfl, by simp, by simp, hlen, fun _ _ => rfl, by simp, hm⟩

/-- Only the position changed. -/
theorem Succ.move {lbl s f} (p' : Nat) (hlen : s.ti ≤ s.tree.length) (hm : MInv.ok s.memo s.maxTok.e) :
    Succ lbl s f { s with pos := p' } f p' [] [] :=
  ⟨rfl, by simp, by simp, hlen, fun _ _ => rfl, by simp, hm⟩

theorem Failed.refl {lbl s f} (hlen : s.ti ≤ s.tree.length) (hm : MInv.ok s.memo s.maxTok.e) :
    Failed lbl s f s f [] :=
  ⟨rfl, hlen, fun _ _ => rfl, by simp, hm⟩

omit [MInv] in
theorem inp_lt_of_some {p : Nat} {c : Sym} (h : inp[p]? = some c) : p < inp.length := by
  rcases Nat.lt_or_ge p inp.length with h' | h'
  · exact h'
  · simp [List.getElem?_eq_none h'] at h

omit [MInv] in
theorem peek_of_some {p : Nat} {c : Sym} (h : inp[p]? = some c) : peek inp p = c := by
  simp [peek, h]

omit [MInv] in
theorem peek_of_none {p : Nat} (h : inp[p]? = none) : peek inp p = END := by
  simp [peek, h]

theorem good_chr_ok {p c} (h : inp[p]? = some c) :
    Good P cfg env inp (.chr c) p (.ok (p + 1) []) [] := by
  intro ko pd pmk st code pc s f hc hp _
  simp only [compile] at hc ⊢
  have hlt : p < inp.length := inp_lt_of_some h
  have hb : (bufOf inp)[s.pos]? = some c := by rw [hp.pos, buf_lt hlt, h]
  have hS : Succ st.label s f { s with pos := s.pos + 1 } f (p + 1) (postorderL []) [] := by
    have := Succ.move (lbl := st.label) (s := s) (f := f) (s.pos + 1) hp.len hp.memo
    rw [hp.pos] at this ⊢; simpa using this
  refine ⟨{ s with pos := s.pos + 1 }, f, hS, ?_⟩
  by_cases hel : (pd && !pmk) = true
  · -- test elided: `position++` only
    simp only [hel, ↓reduceIte] at hc ⊢
    obtain ⟨h2, _⟩ := hc.head
    exact Steps.next h2 (by simp [stepLocal])
  · simp only [hel, Bool.false_eq_true, ↓reduceIte] at hc ⊢
    obtain ⟨h1, hc1⟩ := hc.head
    obtain ⟨h2, _⟩ := hc1.head
    refine Steps.trans (Steps.next (s' := s) (f' := f) h1 (by simp [stepLocal, hb])) ?_
    exact Steps.next h2 (by simp [stepLocal])

theorem good_chr_fail {p c} (hcE : c ≠ END) (h : inp[p]? ≠ some c) :
    Good P cfg env inp (.chr c) p .fail [] := by
  intro ko pd pmk st code pc s f hc hp hlead
  simp only [compile] at hc ⊢
  by_cases hel : (pd && !pmk) = true
  · -- test elided: `Lead` says the symbol is `c`, so the semantics cannot fail
    exfalso
    simp only [Bool.and_eq_true, Bool.not_eq_true'] at hel
    simp only [Lead] at hlead
    have hpk := hlead hel.1 hel.2
    cases hx : inp[p]? with
    | none => rw [peek_of_none hx] at hpk; exact hcE hpk.symm
    | some x => rw [peek_of_some hx] at hpk; subst hpk; exact h hx
  · simp only [hel, Bool.false_eq_true, ↓reduceIte] at hc ⊢
    obtain ⟨h1, _⟩ := hc.head
    refine ⟨s, f, Failed.refl hp.len hp.memo, by simp [jumps, Instr.target?], ?_⟩
    intro pcko hl
    rcases buf_cases hp.ple with ⟨x, hx, hbx⟩ | ⟨_, _, hbe⟩
    · have hne : x ≠ c := by intro e; subst e; exact h hx
      exact Steps.jump h1 (by rw [← hp.pos] at hbx; simp [stepLocal, hbx, hne]) hl
    · exact Steps.jump h1 (by rw [← hp.pos] at hbe; simp [stepLocal, hbe, Ne.symm hcE]) hl

theorem good_dot_ok (hW : World P cfg env G inp) {p c} (h : inp[p]? = some c) :
    Good P cfg env inp .dot p (.ok (p + 1) []) [] := by
  intro ko pd pmk st code pc s f hc hp _
  simp only [compile] at hc ⊢
  have hlt := inp_lt_of_some h
  have hb : (bufOf inp)[s.pos]? = some c := by rw [hp.pos, buf_lt hlt, h]
  have hcE : c ≠ END := hW.inpOK c (List.mem_of_getElem? h)
  have hS : Succ st.label s f { s with pos := s.pos + 1 } f (p + 1) (postorderL []) [] := by
    have := Succ.move (lbl := st.label) (s := s) (f := f) (s.pos + 1) hp.len hp.memo
    rw [hp.pos] at this ⊢; simpa using this
  refine ⟨{ s with pos := s.pos + 1 }, f, hS, ?_⟩
  by_cases hel : pd = true
  · -- test elided: `position++` only
    simp only [hel, ↓reduceIte] at hc ⊢
    obtain ⟨h2, _⟩ := hc.head
    exact Steps.next h2 (by simp [stepLocal])
  · simp only [hel, Bool.false_eq_true, ↓reduceIte] at hc ⊢
    obtain ⟨h1, _⟩ := hc.head
    exact Steps.next h1 (by simp [stepLocal, hb, hcE])

theorem good_dot_fail {p} (h : inp[p]? = none) :
    Good P cfg env inp .dot p .fail [] := by
  intro ko pd pmk st code pc s f hc hp hlead
  simp only [compile] at hc ⊢
  by_cases hel : pd = true
  · -- test elided: `Lead` says the position is inside the input, so the semantics cannot fail
    exfalso
    simp only [Lead] at hlead
    have hlt := hlead hel
    have : inp[p]? ≠ none := by simp [List.getElem?_eq_none_iff]; omega
    exact this h
  · simp only [hel, Bool.false_eq_true, ↓reduceIte] at hc ⊢
    obtain ⟨h1, _⟩ := hc.head
    refine ⟨s, f, Failed.refl hp.len hp.memo, by simp [jumps, Instr.target?], ?_⟩
    intro pcko hl
    rcases buf_cases hp.ple with ⟨x, hx, _⟩ | ⟨_, _, hbe⟩
    · rw [h] at hx; cases hx
    · exact Steps.jump h1 (by rw [← hp.pos] at hbe; simp [stepLocal, hbe]) hl

theorem good_rng_ok {p lo hi c} (h : inp[p]? = some c) (hl : lo ≤ c) (hh : c ≤ hi) :
    Good P cfg env inp (.rng lo hi) p (.ok (p + 1) []) [] := by
  intro ko pd pmk st code pc s f hc hp _
  simp only [compile] at hc ⊢
  have hlt := inp_lt_of_some h
  have hb : (bufOf inp)[s.pos]? = some c := by rw [hp.pos, buf_lt hlt, h]
  have hnot : ¬ (c < lo ∨ c > hi) := by omega
  have hS : Succ st.label s f { s with pos := s.pos + 1 } f (p + 1) (postorderL []) [] := by
    have := Succ.move (lbl := st.label) (s := s) (f := f) (s.pos + 1) hp.len hp.memo
    rw [hp.pos] at this ⊢; simpa using this
  refine ⟨{ s with pos := s.pos + 1 }, f, hS, ?_⟩
  by_cases hel : (pd && !pmk) = true
  · simp only [hel, ↓reduceIte] at hc ⊢
    obtain ⟨h2, _⟩ := hc.head
    exact Steps.next h2 (by simp [stepLocal])
  · simp only [hel, Bool.false_eq_true, ↓reduceIte] at hc ⊢
    obtain ⟨h1, hc1⟩ := hc.head
    obtain ⟨h2, _⟩ := hc1.head
    refine Steps.trans (Steps.next (s' := s) (f' := f) h1 (by simp [stepLocal, hb, hnot])) ?_
    exact Steps.next h2 (by simp [stepLocal])

theorem good_rng_fail {p lo hi} (hhi : hi < END)
    (h : ∀ c, inp[p]? = some c → c < lo ∨ hi < c) :
    Good P cfg env inp (.rng lo hi) p .fail [] := by
  intro ko pd pmk st code pc s f hc hp hlead
  simp only [compile] at hc ⊢
  by_cases hel : (pd && !pmk) = true
  · exfalso
    simp only [Bool.and_eq_true, Bool.not_eq_true'] at hel
    simp only [Lead] at hlead
    have hpk := hlead hel.1 hel.2
    cases hx : inp[p]? with
    | none => rw [peek_of_none hx] at hpk; omega
    | some x => rw [peek_of_some hx] at hpk; have := h x hx; omega
  · simp only [hel, Bool.false_eq_true, ↓reduceIte] at hc ⊢
    obtain ⟨h1, _⟩ := hc.head
    refine ⟨s, f, Failed.refl hp.len hp.memo, by simp [jumps, Instr.target?], ?_⟩
    intro pcko hl
    rcases buf_cases hp.ple with ⟨x, hx, hbx⟩ | ⟨_, _, hbe⟩
    · have hx' : x < lo ∨ x > hi := h x hx
      exact Steps.jump h1 (by rw [← hp.pos] at hbx; simp [stepLocal, hbx, hx']) hl
    · have : END < lo ∨ END > hi := Or.inr hhi
      exact Steps.jump h1 (by rw [← hp.pos] at hbe; simp [stepLocal, hbe, this]) hl

theorem good_pred_ok {p c} (h : cfg.rho c p = true) :
    Good P cfg env inp (.pred c) p (.ok p []) [] := by
  intro ko pd pmk st code pc s f hc hp _
  simp only [compile] at hc ⊢
  obtain ⟨h1, _⟩ := hc.head
  refine ⟨s, f, by simpa [hp.pos] using Succ.refl_nil (lbl := st.label) (f := f) hp.len hp.memo, ?_⟩
  exact Steps.next h1 (by simp [stepLocal, hp.pos, h])

theorem good_pred_fail {p c} (h : cfg.rho c p = false) :
    Good P cfg env inp (.pred c) p .fail [] := by
  intro ko pd pmk st code pc s f hc hp _
  simp only [compile] at hc ⊢
  obtain ⟨h1, _⟩ := hc.head
  refine ⟨s, f, Failed.refl hp.len hp.memo, by simp [jumps, Instr.target?], ?_⟩
  intro pcko hl
  exact Steps.jump h1 (by simp [stepLocal, hp.pos, h]) hl

/-- A user statement `!{…}` changes only the trace. -/
theorem good_stmt {p c} : Good P cfg env inp (.stmt c) p (.ok p []) [] := by
  intro ko pd pmk st code pc s f hc hp _
  simp only [compile] at hc ⊢
  obtain ⟨h1, _⟩ := hc.head
  refine ⟨{ s with trace := s.trace ++ [(c, s.text)] }, f, ?_, ?_⟩
  · exact ⟨hp.pos, by simp, by simp, hp.len, fun _ _ => rfl, by simp, hp.memo⟩
  · exact Steps.next h1 (by simp [stepLocal])

theorem good_empty {e : Expr} {p} (he : ∀ ko pd pmk st, (compile env e ko pd pmk st).code = []) :
    Good P cfg env inp e p (.ok p []) [] := by
  intro ko pd pmk st code pc s f hc hp _
  rw [he]
  exact ⟨s, f, by simpa [hp.pos] using Succ.refl_nil (lbl := st.label) (f := f) hp.len hp.memo,
    by simpa using Steps.refl⟩

theorem good_act {p c} : Good P cfg env inp (.act c) p (.ok p []) [] :=
  good_empty (by intro ko pd pmk st; simp [compile])

theorem good_nil {p} : Good P cfg env inp .nil p (.ok p []) [] :=
  good_empty (by intro ko pd pmk st; simp [compile])

theorem good_seq_nil {p} : Good P cfg env inp (.seq []) p (.ok p []) [] :=
  good_empty (by intro ko pd pmk st; simp [compile, compileSeq])

end PegVerif
