import PegVerif.Proofs.Refine
import PegVerif.Proofs.MachineLemmas
/-
  Consequences of R at the level of one emitted rule function and of `parse`.
-/
namespace PegVerif

variable {P : Program} {cfg : Cfg} {env : CEnv} {G : Grammar} {inp : List Sym}

/-- What the emitted function of rule `n` returns, as prescribed by the semantics of `n`. -/
def RuleSpec (P : Program) (G : Grammar) (ρ : String → Nat → Bool) (inp : List Sym) (s : St) (p : Nat) (res : Res)
    (evs : List Token) (o : Outcome) (s' : St) : Prop :=
  match res with
  | .ok p' forest => o = .ret true ∧ s'.pos = p' ∧ s'.ti = s.ti + (postorderL forest).length ∧
      s'.tree.take s'.ti = s.tree.take s.ti ++ postorderL forest ∧ s'.ti ≤ s'.tree.length ∧
      s'.maxTok = evs.foldl updTok s.maxTok ∧ MemoOK P G ρ inp s'.memo s'.maxTok.e
  | .fail => o = .ret false ∧ s'.pos = p ∧ s'.ti = s.ti ∧ s'.tree.take s.ti = s.tree.take s.ti ∧
      s.ti ≤ s'.tree.length ∧ s'.maxTok = evs.foldl updTok s.maxTok ∧ MemoOK P G ρ inp s'.memo s'.maxTok.e

theorem memoOK_nil {P G ρ inp e} : MemoOK P G ρ inp [] e := by intro m hm; cases hm

theorem memoOK_init {P G ρ inp} : MemoOK P G ρ inp St.init.memo St.init.maxTok.e := memoOK_nil

/-- **R for a rule function**: there is a run of the emitted function of `n` from any admissible
    state, and it satisfies `RuleSpec`. -/
theorem R_rule (hW : World P cfg env G inp) {n cr p res evs s}
    (hfind : P.find n = some cr) (hev : Eval G cfg.rho inp (.name n) p res evs)
    (hpos : s.pos = p) (hple : p ≤ inp.length) (hlen : s.ti ≤ s.tree.length)
    (hm : MemoOK P G cfg.rho inp s.memo s.maxTok.e) :
    ∃ o s', Exec P cfg inp cr 0 s Frame.empty (o, s') ∧ RuleSpec P G cfg.rho inp s p res evs o s' := by
  cases hev with
  | name hb hev' =>
    obtain ⟨r, b', kr, stb, hb', hcr, hkr, huniq, hused, hfine, hid, e, hshape⟩ := hW.rules n cr hfind
    rw [hb] at hb'; cases hb'
    have h := callee_exec hW hfind hcr hkr huniq hused hid hshape hb hev' ((R_all hW hev') hfine).1 hpos hple hlen hm
    cases res with
    | ok p' forest =>
      obtain ⟨s', hex, h1, h2, h3, h4, h5, h6⟩ := h
      exact ⟨_, s', hex, rfl, h1, h2, h3, h4, h5, h6⟩
    | fail =>
      obtain ⟨s3, hex, h1, h2, h3, h4, h5, h6⟩ := h
      exact ⟨_, s3, hex, rfl, h1, h2, h3, h4, h5, h6⟩

/-- … and because the machine is deterministic, *every* run satisfies it: the emitted function
    returns true exactly when the semantics succeeds, etc. -/
theorem R_rule_all (hW : World P cfg env G inp) {n cr p res evs s o s'}
    (hfind : P.find n = some cr) (hev : Eval G cfg.rho inp (.name n) p res evs)
    (hpos : s.pos = p) (hple : p ≤ inp.length) (hlen : s.ti ≤ s.tree.length)
    (hm : MemoOK P G cfg.rho inp s.memo s.maxTok.e)
    (hrun : Exec P cfg inp cr 0 s Frame.empty (o, s')) : RuleSpec P G cfg.rho inp s p res evs o s' := by
  obtain ⟨o1, s1, hex, hspec⟩ := R_rule hW hfind hev hpos hple hlen hm
  have := Exec_det hex hrun
  cases this
  exact hspec

/-- The same for the executable `parseF` on a fresh parser: verdict, published tokens
    (`Tokens()` after `Trim`) and error token are those of the semantics. -/
theorem R_parseF (hW : World P cfg env G inp) {n cr res evs fuel pr st}
    (hfind : P.find n = some cr) (hev : Eval G cfg.rho inp (.name n) 0 res evs)
    (hrun : parseF P cfg inp fuel n St.init = (pr, st)) (hfuel : pr ≠ .stuck) :
    match res with
    | .ok p' forest => pr = .ok (postorderL forest) ∧ st.pos = p'
    | .fail => pr = .fail (evs.foldl updTok zeroTok) := by
  unfold parseF at hrun
  rw [hfind] at hrun
  simp only at hrun
  split at hrun
  · cases hrun; exact absurd rfl hfuel
  · next s' hx =>
    have := R_rule_all hW hfind hev rfl (Nat.zero_le _) (by simp [St.init]) memoOK_init
      (execF_sound _ _ _ _ _ _ hx)
    cases res <;> simp [RuleSpec] at this
  · next s' hx =>
    have := R_rule_all hW hfind hev rfl (Nat.zero_le _) (by simp [St.init]) memoOK_init
      (execF_sound _ _ _ _ _ _ hx)
    cases hrun
    cases res with
    | ok p' forest =>
      obtain ⟨_, h1, _, h3, _⟩ := this
      refine ⟨?_, h1⟩
      simp [St.init] at h3
      rw [h3]
    | fail => simp [RuleSpec] at this
  · next s' hx =>
    have := R_rule_all hW hfind hev rfl (Nat.zero_le _) (by simp [St.init]) memoOK_init
      (execF_sound _ _ _ _ _ _ hx)
    cases hrun
    cases res with
    | ok p' forest => simp [RuleSpec] at this
    | fail =>
      obtain ⟨_, _, _, _, _, h5, _⟩ := this
      simp [St.init] at h5
      rw [h5]

end PegVerif
