import PegVerif.Model.Runes
/-
  Every rune of a decoded Go string is a Unicode scalar value or U+FFFD — in particular below the
  end symbol `0x110000`, which is the hypothesis `∀ c ∈ inp, c ≠ END` of the refinement theorems.
-/
namespace PegVerif

theorem utf8Lead_spec {c w lo hi : Nat} (h : utf8Lead c = some (w, lo, hi)) :
    w = 2 ∨ w = 3 ∨ (w = 4 ∧ (c % 8 ≤ 3 ∨ (c % 8 = 4 ∧ lo = 0x80 ∧ hi = 0x8F))) := by
  unfold utf8Lead at h
  repeat' split at h
  all_goals simp at h
  all_goals omega

theorem decodeRune_lt_END (bs : List Nat) : (decodeRune bs).1 < END := by
  unfold decodeRune
  cases bs with
  | nil => simp [END]
  | cons c rest =>
    simp only
    split
    · next hc => simp [END]; omega
    · next hc =>
      cases hl : utf8Lead c with
      | none => simp [END]
      | some t =>
        obtain ⟨w, lo, hi⟩ := t
        have hs := utf8Lead_spec hl
        rcases hs with h2 | h3 | ⟨h4, hb⟩
        · subst h2
          simp only
          cases rest with
          | nil => simp [END]
          | cons b1 r1 => simp only; split <;> simp [END] <;> omega
        · subst h3
          simp only
          match rest with
          | [] => simp [END]
          | [_] => simp [END]
          | b1 :: b2 :: r2 => simp only; split <;> simp [END] <;> omega
        · subst h4
          simp only
          match rest with
          | [] => simp [END]
          | [_] => simp [END]
          | [_, _] => simp [END]
          | b1 :: b2 :: b3 :: r3 =>
            simp only
            split
            · next hcond =>
              simp only [END]
              rcases hb with hb | ⟨hb, hlo, hhi⟩
              · omega
              · subst hhi; subst hlo; omega
            · simp [END]

theorem decodeRune_width (bs : List Nat) : 1 ≤ (decodeRune bs).2 ∧ (decodeRune bs).2 ≤ 4 := by
  unfold decodeRune
  cases bs with
  | nil => simp
  | cons c rest =>
    simp only
    split
    · simp
    · cases hl : utf8Lead c with
      | none => simp
      | some t =>
        obtain ⟨w, lo, hi⟩ := t
        rcases utf8Lead_spec hl with h | h | ⟨h, _⟩ <;> subst h <;> simp only
        · cases rest with
          | nil => simp
          | cons b1 r1 => simp only; split <;> simp
        · match rest with
          | [] => simp
          | [_] => simp
          | b1 :: b2 :: r2 => simp only; split <;> simp
        · match rest with
          | [] => simp
          | [_] => simp
          | [_, _] => simp
          | b1 :: b2 :: b3 :: r3 => simp only; split <;> simp

theorem runesF_lt_END (f : Nat) (bs : List Nat) : ∀ c ∈ runesF f bs, c < END := by
  induction f generalizing bs with
  | zero => simp [runesF]
  | succ f ih =>
    cases bs with
    | nil => simp [runesF]
    | cons b rest =>
      intro c hc
      simp only [runesF] at hc
      rcases List.mem_cons.1 hc with h | h
      · rw [h]; exact decodeRune_lt_END _
      · exact ih _ c h

/-- The buffer a generated parser works on never contains the end symbol. -/
theorem runes_ne_END (bs : List Nat) : ∀ c ∈ runes bs, c ≠ END :=
  fun c hc => Nat.ne_of_lt (runesF_lt_END _ _ c hc)

/-- ASCII text decodes to itself. -/
theorem runesF_ascii (bs : List Nat) (h : ∀ b ∈ bs, b < 0x80) (f : Nat) (hf : bs.length ≤ f) :
    runesF f bs = bs := by
  induction bs generalizing f with
  | nil => cases f <;> simp [runesF]
  | cons b rest ih =>
    cases f with
    | zero => simp at hf
    | succ f =>
      have hb := h b (by simp)
      simp only [runesF, decodeRune, hb, if_true, List.drop_succ_cons, List.drop_zero]
      rw [ih (fun x hx => h x (by simp [hx])) f (by simpa using hf)]

theorem runes_ascii (bs : List Nat) (h : ∀ b ∈ bs, b < 0x80) : runes bs = bs :=
  runesF_ascii bs h _ (Nat.le_refl _)

/-- Decoding never produces more runes than bytes (so rune offsets fit wherever byte offsets do). -/
theorem runesF_length_le (f : Nat) (bs : List Nat) : (runesF f bs).length ≤ bs.length := by
  induction f generalizing bs with
  | zero => simp [runesF]
  | succ f ih =>
    cases bs with
    | nil => simp [runesF]
    | cons b rest =>
      simp only [runesF, List.length_cons]
      have hw := (decodeRune_width (b :: rest)).1
      have := ih ((b :: rest).drop (decodeRune (b :: rest)).2)
      simp only [List.length_drop, List.length_cons] at this
      omega

theorem runes_length_le (bs : List Nat) : (runes bs).length ≤ bs.length := runesF_length_le _ _

end PegVerif
