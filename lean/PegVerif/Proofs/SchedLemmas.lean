/-
  Lemmas about the interleaving model `PegVerif.Model.Sched`: frame and agreement lemmas,
  commutation of steps with Bernstein-disjoint footprints, invariance of `run` under permutation
  of the schedule, and the generic theorems used by `Props/C09.lean` and `Props/C14.lean`.
-/
import PegVerif.Model.Sched

namespace PegVerif.Sched

variable {V : Type}

/-! ### One thread -/

theorem stepT_frame {t : Thread V} {W : List Loc} (h : WritesOnly t W) (σ : State V) {l : Loc}
    (hl : l ∉ W) : t.stepT σ l = σ l := by
  unfold Thread.stepT
  cases hs : t.step σ with
  | none => rfl
  | some σ' => exact h σ σ' hs l hl

theorem stepT_of_done {t : Thread V} {σ : State V} (h : t.Done σ) : t.stepT σ = σ := by
  unfold Thread.Done at h
  simp [Thread.stepT, h]

theorem AgreeOn.symm {L : List Loc} {σ τ : State V} (h : AgreeOn L σ τ) : AgreeOn L τ σ :=
  fun l hl => (h l hl).symm

theorem AgreeOn.trans {L : List Loc} {σ τ υ : State V} (h : AgreeOn L σ τ) (h' : AgreeOn L τ υ) :
    AgreeOn L σ υ := fun l hl => (h l hl).trans (h' l hl)

/-- A step of a thread whose write set is disjoint from `L` leaves `L` unchanged. -/
theorem stepT_agree_of_disj {t : Thread V} {W L : List Loc} (h : WritesOnly t W) (hd : Disj W L)
    (σ : State V) : AgreeOn L (t.stepT σ) σ := by
  intro l hl
  apply stepT_frame h
  intro hw
  exact hd l hw hl

/-- States that agree on the footprint produce steps that agree on the write set. -/
theorem stepT_agree {t : Thread V} {R W : List Loc} (h : Respects t R W) {σ τ : State V}
    (hA : AgreeOn (R ++ W) σ τ) : AgreeOn W (t.stepT σ) (t.stepT τ) := by
  have hr := h.reads σ τ hA
  unfold Thread.stepT
  cases hs : t.step σ <;> cases ht : t.step τ <;> simp only [hs, ht] at hr
  · intro l hl
    exact hA l (List.mem_append_right _ hl)
  · exact hr

/-- Termination depends only on the footprint. -/
theorem done_of_agree {t : Thread V} {R W : List Loc} (h : Respects t R W) {σ τ : State V}
    (hA : AgreeOn (R ++ W) σ τ) (hd : t.Done σ) : t.Done τ := by
  have hr := h.reads σ τ hA
  unfold Thread.Done at hd ⊢
  cases ht : t.step τ with
  | none => rfl
  | some τ' => simp only [hd, ht] at hr

/-! ### Commutation (Bernstein) -/

theorem stepT_comm {t₁ t₂ : Thread V} {R₁ W₁ R₂ W₂ : List Loc}
    (h₁ : Respects t₁ R₁ W₁) (h₂ : Respects t₂ R₂ W₂)
    (d₁ : Disj W₁ (R₂ ++ W₂)) (d₂ : Disj W₂ (R₁ ++ W₁)) (σ : State V) :
    t₁.stepT (t₂.stepT σ) = t₂.stepT (t₁.stepT σ) := by
  have A1 : AgreeOn (R₁ ++ W₁) (t₂.stepT σ) σ := stepT_agree_of_disj h₂.writes d₂ σ
  have A2 : AgreeOn (R₂ ++ W₂) (t₁.stepT σ) σ := stepT_agree_of_disj h₁.writes d₁ σ
  funext l
  by_cases hl1 : l ∈ W₁
  · have hl2 : l ∉ W₂ := fun hw => d₁ l hl1 (List.mem_append_right _ hw)
    rw [stepT_agree h₁ A1 l hl1, stepT_frame h₂.writes _ hl2]
  · by_cases hl2 : l ∈ W₂
    · rw [stepT_frame h₁.writes _ hl1, stepT_agree h₂ A2 l hl2]
    · rw [stepT_frame h₁.writes _ hl1, stepT_frame h₂.writes _ hl2,
        stepT_frame h₂.writes _ hl2, stepT_frame h₁.writes _ hl1]

/-! ### Schedules over a family of threads -/

section Family
variable {ι : Type} {T : ι → Thread V} {R W : ι → List Loc}

theorem run_append (s s' : List ι) (σ : State V) :
    run T (s ++ s') σ = run T s' (run T s σ) := by
  induction s generalizing σ with
  | nil => rfl
  | cons i s ih => simp [run, ih]

theorem run_of_all_done {τ : State V} (h : ∀ i, (T i).Done τ) (s : List ι) : run T s τ = τ := by
  induction s with
  | nil => rfl
  | cons i s ih => simp [run, stepT_of_done (h i), ih]

/-- The result of a schedule depends only on how often each thread is scheduled. -/
theorem run_perm [DecidableEq ι] (hR : ∀ i, Respects (T i) (R i) (W i)) (hB : Bernstein R W)
    {s s' : List ι} (hp : s.Perm s') (σ : State V) : run T s σ = run T s' σ := by
  induction hp generalizing σ with
  | nil => rfl
  | cons x _ ih => simp [run, ih]
  | swap x y l =>
    simp only [run]
    by_cases hxy : x = y
    · subst hxy; rfl
    · rw [stepT_comm (hR x) (hR y) (hB x y hxy) (hB y x (Ne.symm hxy)) σ]
  | trans _ _ ih1 ih2 => rw [ih1, ih2]

/-- **Interleaving independence (N threads).**  With pairwise Bernstein-disjoint footprints, any two
    complete schedules end in the same state: the result is a function of the initial state alone. -/
theorem interleave_indep [DecidableEq ι] (hR : ∀ i, Respects (T i) (R i) (W i))
    (hB : Bernstein R W) {s s' : List ι} {σ : State V}
    (hc : Complete T s σ) (hc' : Complete T s' σ) : run T s σ = run T s' σ := by
  calc run T s σ = run T s' (run T s σ) := (run_of_all_done hc s').symm
    _ = run T (s ++ s') σ := (run_append s s' σ).symm
    _ = run T (s' ++ s) σ := run_perm hR hB List.perm_append_comm σ
    _ = run T s (run T s' σ) := run_append s' s σ
    _ = run T s' σ := run_of_all_done hc' s

/-- No data race at the level of abstract locations. -/
theorem no_conflict (hB : Bernstein R W) : ¬ ∃ i j l, Conflict R W i j l := by
  rintro ⟨i, j, l, hne, h⟩
  rcases h with ⟨hw, ha⟩ | ⟨hw, ha⟩
  · apply hB i j hne l hw
    rcases ha with h | h
    · exact List.mem_append_left _ h
    · exact List.mem_append_right _ h
  · apply hB j i (Ne.symm hne) l hw
    rcases ha with h | h
    · exact List.mem_append_left _ h
    · exact List.mem_append_right _ h

/-- Semantic form: a location that some step of thread `i` really changes is ignored by every
    other thread (it neither reads nor writes it). -/
theorem no_conflict_sem (hR : ∀ i, Respects (T i) (R i) (W i)) (hB : Bernstein R W)
    {i j : ι} (hne : i ≠ j) {σ : State V} {l : Loc} (hw : WritesAt (T i) σ l) :
    Ignores (T j) (W j) l := by
  obtain ⟨σ', hs, hch⟩ := hw
  have hlW : l ∈ W i := by
    by_cases h : l ∈ W i
    · exact h
    · exact absurd ((hR i).writes σ σ' hs l h) hch
  have hnot : l ∉ R j ++ W j := hB i j hne l hlW
  intro σ₁ τ₁ hag
  apply (hR j).reads
  intro l' hl'
  apply hag
  intro heq
  exact hnot (heq ▸ hl')

end Family

/-! ### Two threads -/

/-- The two-thread family: `false` is the first thread, `true` the second. -/
def two (t₁ t₂ : Thread V) : Bool → Thread V
  | false => t₁
  | true => t₂

def twoL (a b : List Loc) : Bool → List Loc
  | false => a
  | true => b

theorem respects_two {t₁ t₂ : Thread V} {R₁ W₁ R₂ W₂ : List Loc}
    (h₁ : Respects t₁ R₁ W₁) (h₂ : Respects t₂ R₂ W₂) :
    ∀ b, Respects (two t₁ t₂ b) (twoL R₁ R₂ b) (twoL W₁ W₂ b) := by
  intro b; cases b <;> assumption

theorem bernstein_two {R₁ W₁ R₂ W₂ : List Loc} (hB : Bernstein2 R₁ W₁ R₂ W₂) :
    Bernstein (twoL R₁ R₂) (twoL W₁ W₂) := by
  intro i j hne
  cases i <;> cases j <;> first | exact absurd rfl hne | exact hB.1 | exact hB.2

theorem solo_stepT_comm {t₁ t₂ : Thread V} {R₁ W₁ R₂ W₂ : List Loc}
    (h₁ : Respects t₁ R₁ W₁) (h₂ : Respects t₂ R₂ W₂) (hB : Bernstein2 R₁ W₁ R₂ W₂)
    (k : Nat) (σ : State V) : solo t₁ k (t₂.stepT σ) = t₂.stepT (solo t₁ k σ) := by
  induction k generalizing σ with
  | zero => rfl
  | succ k ih => simp only [solo]; rw [stepT_comm h₁ h₂ hB.1 hB.2 σ, ih]

theorem solo_agree_of_disj {t : Thread V} {W L : List Loc} (h : WritesOnly t W) (hd : Disj W L)
    (k : Nat) (σ : State V) : AgreeOn L (solo t k σ) σ := by
  induction k generalizing σ with
  | zero => intro l _; rfl
  | succ k ih => exact (ih (t.stepT σ)).trans (stepT_agree_of_disj h hd σ)

/-- Every schedule of two Bernstein-disjoint threads equals "all steps of the first thread, then
    all steps of the second". -/
theorem run_two_sorted {t₁ t₂ : Thread V} {R₁ W₁ R₂ W₂ : List Loc}
    (h₁ : Respects t₁ R₁ W₁) (h₂ : Respects t₂ R₂ W₂) (hB : Bernstein2 R₁ W₁ R₂ W₂)
    (s : List Bool) (σ : State V) :
    run (two t₁ t₂) s σ = solo t₂ (s.count true) (solo t₁ (s.count false) σ) := by
  induction s generalizing σ with
  | nil => rfl
  | cons b s ih =>
    cases b
    · simp [run, two, ih, solo]
    · simp only [run, two, ih, List.count_cons_self]
      have : List.count false (true :: s) = List.count false s := by simp
      rw [this, solo_stepT_comm h₁ h₂ hB]
      rfl

/-- **Interleaving independence (two threads, sequential form).**  For every complete schedule the
    final state is that of running the first thread to completion and then the second. -/
theorem interleave_seq2 {t₁ t₂ : Thread V} {R₁ W₁ R₂ W₂ : List Loc}
    (h₁ : Respects t₁ R₁ W₁) (h₂ : Respects t₂ R₂ W₂) (hB : Bernstein2 R₁ W₁ R₂ W₂)
    {s : List Bool} {σ : State V} (hc : Complete (two t₁ t₂) s σ) :
    ∃ k₁ k₂, t₁.Done (solo t₁ k₁ σ) ∧ t₂.Done (solo t₂ k₂ (solo t₁ k₁ σ)) ∧
      run (two t₁ t₂) s σ = solo t₂ k₂ (solo t₁ k₁ σ) := by
  refine ⟨s.count false, s.count true, ?_, ?_, run_two_sorted h₁ h₂ hB s σ⟩
  · have hd : t₁.Done (run (two t₁ t₂) s σ) := hc false
    rw [run_two_sorted h₁ h₂ hB s σ] at hd
    exact done_of_agree h₁ (solo_agree_of_disj h₂.writes hB.2 _ _) hd
  · have hd : t₂.Done (run (two t₁ t₂) s σ) := hc true
    rw [run_two_sorted h₁ h₂ hB s σ] at hd
    exact hd

/-- Two threads: any two complete schedules agree. -/
theorem interleave_indep2 {t₁ t₂ : Thread V} {R₁ W₁ R₂ W₂ : List Loc}
    (h₁ : Respects t₁ R₁ W₁) (h₂ : Respects t₂ R₂ W₂) (hB : Bernstein2 R₁ W₁ R₂ W₂)
    {s s' : List Bool} {σ : State V}
    (hc : Complete (two t₁ t₂) s σ) (hc' : Complete (two t₁ t₂) s' σ) :
    run (two t₁ t₂) s σ = run (two t₁ t₂) s' σ :=
  interleave_indep (respects_two h₁ h₂) (bernstein_two hB) hc hc'

/-! ### Products of confined components -/

section Product
variable {ι S : Type}

/-- **Non-interference of a product of confined components.**  For every schedule, the part of
    component `i` in the final state is the one obtained by running only `i`'s steps, from any
    state whose `i`-part is the same — the other components, their initial states and the
    interleaving do not matter. -/
theorem product_noninterference [DecidableEq ι] {g : PSys ι S} (hC : Confined g) (i : ι)
    (s : List ι) (σ τ : ι → S) (h : σ i = τ i) :
    prun g s σ i = prun g (s.filter (· = i)) τ i := by
  induction s generalizing σ τ with
  | nil => exact h
  | cons j s ih =>
    by_cases hj : j = i
    · subst hj
      simp only [prun, List.filter_cons, decide_true, if_true]
      exact ih _ _ (hC.readsOwn j σ τ h)
    · simp only [prun, List.filter_cons, hj, decide_false]
      apply ih
      rw [hC.writesOwn j σ i (Ne.symm hj)]
      exact h

/-- The same with an explicit local step function: the `i`-part of the final state is the solo run
    of component `i` from its initial part. -/
theorem product_noninterference_local [DecidableEq ι] {g : PSys ι S} (hC : Confined g) (i : ι) :
    ∃ f : S → S, ∀ (s : List ι) (σ : ι → S), prun g s σ i = iter f (s.count i) (σ i) := by
  refine ⟨fun x => g i (fun _ => x) i, ?_⟩
  intro s
  induction s with
  | nil => intro σ; rfl
  | cons j s ih =>
    intro σ
    by_cases hj : j = i
    · subst hj
      simp only [prun, List.count_cons_self, iter]
      rw [ih, hC.readsOwn j σ (fun _ => σ j) rfl]
    · have hc : List.count i (j :: s) = List.count i s := by
        simp [hj]
      simp only [prun]
      rw [hc, ih, hC.writesOwn j σ i (Ne.symm hj)]

/-- Components that share a read-only part (`rul3s`, constants): the shared part never changes and
    each component's part is its solo run against the initial shared part. -/
theorem product_noninterference_ro {C : Type} [DecidableEq ι] {g : RSys ι C S}
    (hro : ∀ i c x, (g i c x).1 = c) (i : ι) (s : List ι) (c : C) (σ : ι → S) :
    (rrun g s (c, σ)).1 = c ∧
    (rrun g s (c, σ)).2 i = iter (fun x => (g i c x).2) (s.count i) (σ i) := by
  induction s generalizing σ with
  | nil => exact ⟨rfl, rfl⟩
  | cons j s ih =>
    simp only [rrun, hro]
    by_cases hj : j = i
    · subst hj
      have := ih (fun k => if k = j then (g j c (σ j)).2 else σ k)
      simpa [iter] using this
    · have hc : List.count i (j :: s) = List.count i s := by
        simp [hj]
      have := ih (fun k => if k = j then (g j c (σ j)).2 else σ k)
      rw [hc]
      simpa [Ne.symm hj, show ¬ i = j from fun h => hj h.symm] using this

end Product

end PegVerif.Sched
