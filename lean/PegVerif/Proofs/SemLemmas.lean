import PegVerif.Model.Sem
/-
  Basic facts about the PEG semantics: it is deterministic, and the fuelled interpreter `evalF`
  (the oracle of the differential checks) only ever returns results the relation `Eval` allows.
-/
namespace PegVerif

theorem Eval_det {G ρ inp e p r1 ev1 r2 ev2}
    (h1 : Eval G ρ inp e p r1 ev1) (h2 : Eval G ρ inp e p r2 ev2) : r1 = r2 ∧ ev1 = ev2 := by
  induction h1 generalizing r2 ev2 with
  | dot_ok h => cases h2 <;> simp_all
  | dot_fail h => cases h2 <;> simp_all
  | chr_ok h => cases h2 <;> simp_all
  | chr_fail h => cases h2 <;> simp_all
  | rng_ok h hl hh =>
    cases h2 with
    | rng_ok => simp
    | rng_fail hf => have := hf _ h; omega
  | rng_fail hf =>
    cases h2 with
    | rng_ok h hl hh => have := hf _ h; omega
    | rng_fail => simp
  | str_ok h => cases h2 <;> simp_all
  | str_fail h => cases h2 <;> simp_all
  | name hb _ ih =>
    cases h2 with
    | name hb' h' => rw [hb] at hb'; cases hb'; exact ih h'
  | inl _ ih => cases h2 with | inl h' => exact ih h'
  | pred_ok h => cases h2 <;> simp_all
  | pred_fail h => cases h2 <;> simp_all
  | stmt => cases h2; simp
  | act => cases h2; simp
  | nil => cases h2; simp
  | seq_nil => cases h2; simp
  | seq_fail _ ih =>
    cases h2 with
    | seq_fail h' => exact ih h'
    | seq_ok_fail h' _ => have := ih h'; simp at this
    | seq_ok h' _ => have := ih h'; simp at this
  | seq_ok_fail _ _ ih1 ih2 =>
    cases h2 with
    | seq_fail h' => have := ih1 h'; simp at this
    | seq_ok_fail h' h'' =>
      obtain ⟨e1, e2⟩ := ih1 h'; cases e1; cases e2
      obtain ⟨_, e4⟩ := ih2 h''; cases e4; simp
    | seq_ok h' h'' =>
      obtain ⟨e1, e2⟩ := ih1 h'; cases e1; cases e2
      have := ih2 h''; simp at this
  | seq_ok _ _ ih1 ih2 =>
    cases h2 with
    | seq_fail h' => have := ih1 h'; simp at this
    | seq_ok_fail h' h'' =>
      obtain ⟨e1, e2⟩ := ih1 h'; cases e1; cases e2
      have := ih2 h''; simp at this
    | seq_ok h' h'' =>
      obtain ⟨e1, e2⟩ := ih1 h'; cases e1; cases e2
      obtain ⟨e3, e4⟩ := ih2 h''; cases e3; cases e4; simp
  | alt_last _ ih => cases h2 with | alt_last h' => exact ih h'
  | alt_ok _ ih =>
    cases h2 with
    | alt_ok h' => exact ih h'
    | alt_next h' _ => have := ih h'; simp at this
  | alt_next _ _ ih1 ih2 =>
    cases h2 with
    | alt_ok h' => have := ih1 h'; simp at this
    | alt_next h' h'' =>
      obtain ⟨_, e2⟩ := ih1 h'; cases e2
      obtain ⟨e3, e4⟩ := ih2 h''; cases e3; cases e4; simp
  | ualt hi _ ih =>
    cases h2 with
    | ualt hi' h' => rw [hi] at hi'; cases hi'; exact ih h'
  | peekFor_ok _ ih =>
    cases h2 with
    | peekFor_ok h' => obtain ⟨_, e2⟩ := ih h'; cases e2; simp
    | peekFor_fail h' => have := ih h'; simp at this
  | peekFor_fail _ ih =>
    cases h2 with
    | peekFor_ok h' => have := ih h'; simp at this
    | peekFor_fail h' => exact ih h'
  | peekNot_ok _ ih =>
    cases h2 with
    | peekNot_ok h' => obtain ⟨_, e2⟩ := ih h'; cases e2; simp
    | peekNot_fail h' => have := ih h'; simp at this
  | peekNot_fail _ ih =>
    cases h2 with
    | peekNot_ok h' => have := ih h'; simp at this
    | peekNot_fail h' => obtain ⟨_, e2⟩ := ih h'; cases e2; simp
  | query_ok _ ih =>
    cases h2 with
    | query_ok h' => exact ih h'
    | query_none h' => have := ih h'; simp at this
  | query_none _ ih =>
    cases h2 with
    | query_ok h' => have := ih h'; simp at this
    | query_none h' => obtain ⟨_, e2⟩ := ih h'; cases e2; simp
  | star_stop _ ih =>
    cases h2 with
    | star_stop h' => obtain ⟨_, e2⟩ := ih h'; cases e2; simp
    | star_step h' _ => have := ih h'; simp at this
  | star_step _ _ ih1 ih2 =>
    cases h2 with
    | star_stop h' => have := ih1 h'; simp at this
    | star_step h' h'' =>
      obtain ⟨e1, e2⟩ := ih1 h'; cases e1; cases e2
      obtain ⟨e3, e4⟩ := ih2 h''; cases e3; cases e4; simp
  | plus_fail _ ih =>
    cases h2 with
    | plus_fail h' => exact ih h'
    | plus_ok h' _ => have := ih h'; simp at this
  | plus_ok _ _ ih1 ih2 =>
    cases h2 with
    | plus_fail h' => have := ih1 h'; simp at this
    | plus_ok h' h'' =>
      obtain ⟨e1, e2⟩ := ih1 h'; cases e1; cases e2
      obtain ⟨e3, e4⟩ := ih2 h''; cases e3; cases e4; simp
  | push_ok hn _ ih =>
    cases h2 with
    | push_ok _ h' => obtain ⟨e1, e2⟩ := ih h'; cases e1; cases e2; simp
    | push_fail _ h' => have := ih h'; simp at this
    | push_act => simp [Expr.isAct] at hn
  | push_fail hn _ ih =>
    cases h2 with
    | push_ok _ h' => have := ih h'; simp at this
    | push_fail _ h' => exact ih h'
    | push_act => simp [Expr.isAct] at hn
  | push_act =>
    cases h2 with
    | push_ok hn _ => simp [Expr.isAct] at hn
    | push_fail hn _ => simp [Expr.isAct] at hn
    | push_act => simp
  | ipush_ok hn _ ih =>
    cases h2 with
    | ipush_ok _ h' => obtain ⟨e1, e2⟩ := ih h'; cases e1; cases e2; simp
    | ipush_fail _ h' => have := ih h'; simp at this
    | ipush_act => simp [Expr.isAct] at hn
  | ipush_fail hn _ ih =>
    cases h2 with
    | ipush_ok _ h' => have := ih h'; simp at this
    | ipush_fail _ h' => exact ih h'
    | ipush_act => simp [Expr.isAct] at hn
  | ipush_act =>
    cases h2 with
    | ipush_ok hn _ => simp [Expr.isAct] at hn
    | ipush_fail hn _ => simp [Expr.isAct] at hn
    | ipush_act => simp

end PegVerif

namespace PegVerif

/-- The reference interpreter is sound for the relational semantics. -/
theorem evalF_sound {G ρ inp} : ∀ fuel e p res evs,
    evalF G ρ inp fuel e p = some (res, evs) → Eval G ρ inp e p res evs := by
  intro fuel
  induction fuel with
  | zero => intro e p res evs h; simp [evalF] at h
  | succ n ih =>
    intro e p res evs h
    cases e with
    | dot =>
      simp only [evalF] at h
      split at h
      · next c hc => cases h; exact .dot_ok hc
      · next hc => cases h; exact .dot_fail hc
    | chr c =>
      simp only [evalF] at h
      split at h
      · next hc => cases h; exact .chr_ok hc
      · next hc => cases h; exact .chr_fail hc
    | rng lo hi =>
      simp only [evalF] at h
      split at h
      · next c hc =>
        split at h
        · next hr => cases h; exact .rng_ok hc hr.1 hr.2
        · next hr => cases h; exact .rng_fail (by intro c' hc'; rw [hc] at hc'; cases hc'; omega)
      · next hc => cases h; exact .rng_fail (by intro c' hc'; rw [hc] at hc'; cases hc')
    | str s =>
      simp only [evalF] at h
      split at h
      · next hc => cases h; exact .str_ok hc
      · next hc => cases h; exact .str_fail (by simpa using hc)
    | name nm =>
      simp only [evalF] at h
      split at h
      · next b hb => exact .name hb (ih _ _ _ _ h)
      · cases h
    | inl nm e => simp only [evalF] at h; exact .inl (ih _ _ _ _ h)
    | pred c =>
      simp only [evalF] at h
      split at h
      · next hc => cases h; exact .pred_ok hc
      · next hc => cases h; exact .pred_fail (by simpa using hc)
    | stmt c => simp only [evalF] at h; cases h; exact .stmt
    | act c => simp only [evalF] at h; cases h; exact .act
    | nil => simp only [evalF] at h; cases h; exact .nil
    | seq es =>
      cases es with
      | nil => simp only [evalF] at h; cases h; exact .seq_nil
      | cons e es =>
        simp only [evalF] at h
        split at h
        · cases h
        · next evs1 h1 => cases h; exact .seq_fail (ih _ _ _ _ h1)
        · next p1 f1 evs1 h1 =>
          split at h
          · cases h
          · next evs2 h2 => cases h; exact .seq_ok_fail (ih _ _ _ _ h1) (ih _ _ _ _ h2)
          · next p2 f2 evs2 h2 => cases h; exact .seq_ok (ih _ _ _ _ h1) (ih _ _ _ _ h2)
    | alt es =>
      match es with
      | [] => simp only [evalF] at h; cases h
      | [e] => simp only [evalF] at h; exact .alt_last (ih _ _ _ _ h)
      | e :: e' :: es =>
        simp only [evalF] at h
        split at h
        · cases h
        · next p1 f1 evs1 h1 => cases h; exact .alt_ok (ih _ _ _ _ h1)
        · next evs1 h1 =>
          split at h
          · cases h
          · next res2 evs2 h2 => cases h; exact .alt_next (ih _ _ _ _ h1) (ih _ _ _ _ h2)
    | ualt ks es =>
      simp only [evalF] at h
      split at h
      · next e he => exact .ualt he (ih _ _ _ _ h)
      · cases h
    | peekFor e =>
      simp only [evalF] at h
      split at h
      · cases h
      · next p1 f1 evs1 h1 => cases h; exact .peekFor_ok (ih _ _ _ _ h1)
      · next evs1 h1 => cases h; exact .peekFor_fail (ih _ _ _ _ h1)
    | peekNot e =>
      simp only [evalF] at h
      split at h
      · cases h
      · next p1 f1 evs1 h1 => cases h; exact .peekNot_fail (ih _ _ _ _ h1)
      · next evs1 h1 => cases h; exact .peekNot_ok (ih _ _ _ _ h1)
    | query e =>
      simp only [evalF] at h
      split at h
      · cases h
      · next p1 f1 evs1 h1 => cases h; exact .query_ok (ih _ _ _ _ h1)
      · next evs1 h1 => cases h; exact .query_none (ih _ _ _ _ h1)
    | star e =>
      simp only [evalF] at h
      split at h
      · cases h
      · next evs1 h1 => cases h; exact .star_stop (ih _ _ _ _ h1)
      · next p1 f1 evs1 h1 =>
        split at h
        · cases h
        · cases h
        · next p2 f2 evs2 h2 => cases h; exact .star_step (ih _ _ _ _ h1) (ih _ _ _ _ h2)
    | plus e =>
      simp only [evalF] at h
      split at h
      · cases h
      · next evs1 h1 => cases h; exact .plus_fail (ih _ _ _ _ h1)
      · next p1 f1 evs1 h1 =>
        split at h
        · cases h
        · cases h
        · next p2 f2 evs2 h2 => cases h; exact .plus_ok (ih _ _ _ _ h1) (ih _ _ _ _ h2)
    | push e r =>
      simp only [evalF] at h
      split at h
      · cases h; exact .push_act
      · next hna =>
        have hn : e.isAct = false := by cases e <;> simp_all [Expr.isAct]
        split at h
        · cases h
        · next evs1 h1 => cases h; exact .push_fail hn (ih _ _ _ _ h1)
        · next p1 f1 evs1 h1 => cases h; exact .push_ok hn (ih _ _ _ _ h1)
    | ipush e r =>
      simp only [evalF] at h
      split at h
      · cases h; exact .ipush_act
      · next hna =>
        have hn : e.isAct = false := by cases e <;> simp_all [Expr.isAct]
        split at h
        · cases h
        · next evs1 h1 => cases h; exact .ipush_fail hn (ih _ _ _ _ h1)
        · next p1 f1 evs1 h1 => cases h; exact .ipush_ok hn (ih _ _ _ _ h1)

end PegVerif
