import PegVerif.Model.Set
/-
  Helper lemmas for property C16 (the `set` package).  Core Lean only.
-/
namespace PegVerif.MSet

/-! ### Domain, invariant, reachability -/

/-- An in-domain insertion: code points, not reversed, below `math.MaxInt32`. -/
def InDom (b e : Int) : Prop := 0 ≤ b ∧ b ≤ e ∧ e < MAXI

/-- The structural invariant of every reachable set: every interval is non-empty and lies in
    `[0, MaxInt32)`, and the list is strictly sorted and pairwise disjoint (`hi < lo'` for every
    earlier/later pair).  Adjacent intervals (`hi + 1 = lo'`) are allowed: the code never merges them. -/
def Inv (s : MSet) : Prop :=
  (∀ p ∈ s, 0 ≤ p.1 ∧ p.1 ≤ p.2 ∧ p.2 < MAXI) ∧ s.Pairwise (fun p q => p.2 < q.1)

/-- `s` is what a sequence of in-domain `AddRange` calls on `NewSet()` produces. -/
def Reachable (s : MSet) : Prop := ∃ ops : List Iv, (∀ o ∈ ops, InDom o.1 o.2) ∧ build ops = .ok s

/-- every member of `s` is `≤ limit` (with `Inv`: `s` lies within `[0, limit]`). -/
def Within (s : MSet) (limit : Int) : Prop := ∀ p ∈ s, p.2 ≤ limit

/-! ### mem -/

theorem mem_nil (x : Int) : ¬ mem [] x := by simp [mem]

theorem mem_cons {p : Iv} {s : MSet} {x : Int} : mem (p :: s) x ↔ (p.1 ≤ x ∧ x ≤ p.2) ∨ mem s x := by
  simp [mem]

theorem mem_append {s t : MSet} {x : Int} : mem (s ++ t) x ↔ mem s x ∨ mem t x := by
  simp [mem, or_and_right, exists_or]

theorem mem_singleton {p : Iv} {x : Int} : mem [p] x ↔ (p.1 ≤ x ∧ x ≤ p.2) := by
  simp [mem]

theorem memb_iff {s : MSet} {x : Int} : memb s x = true ↔ mem s x := by
  simp [memb, mem]

theorem wrap32_id {x : Int} (h1 : -2147483648 ≤ x) (h2 : x ≤ 2147483647) : wrap32 x = x := by
  unfold wrap32; rw [if_neg (by omega), if_neg (by omega)]

/-! ### Inv -/

theorem Inv.nil : Inv [] := by simp [Inv]

theorem Inv.cons_iff {p : Iv} {s : MSet} :
    Inv (p :: s) ↔ (0 ≤ p.1 ∧ p.1 ≤ p.2 ∧ p.2 < MAXI) ∧ (∀ q ∈ s, p.2 < q.1) ∧ Inv s := by
  simp only [Inv, List.mem_cons, forall_eq_or_imp, List.pairwise_cons]
  constructor
  · rintro ⟨⟨h1, h2⟩, h3, h4⟩; exact ⟨h1, h3, h2, h4⟩
  · rintro ⟨h1, h3, h2, h4⟩; exact ⟨⟨h1, h2⟩, h3, h4⟩

theorem Inv.tail {p : Iv} {s : MSet} (h : Inv (p :: s)) : Inv s := (Inv.cons_iff.1 h).2.2

theorem Inv.append_iff {s t : MSet} :
    Inv (s ++ t) ↔ Inv s ∧ Inv t ∧ ∀ p ∈ s, ∀ q ∈ t, p.2 < q.1 := by
  simp only [Inv, List.mem_append, List.pairwise_append]
  constructor
  · rintro ⟨h1, h2, h3, h4⟩
    exact ⟨⟨fun p hp => h1 p (Or.inl hp), h2⟩, ⟨fun p hp => h1 p (Or.inr hp), h3⟩, h4⟩
  · rintro ⟨⟨h1, h2⟩, ⟨h3, h4⟩, h5⟩
    exact ⟨fun p hp => hp.elim (h1 p) (h3 p), h2, h4, h5⟩

theorem Inv.bounds {s : MSet} (h : Inv s) {p : Iv} (hp : p ∈ s) : 0 ≤ p.1 ∧ p.1 ≤ p.2 ∧ p.2 < MAXI :=
  h.1 p hp

/-! ### the two scans -/

theorem fwdScan_append {b : Int} (A R : MSet) (h : ∀ a ∈ A, a.2 < b) :
    fwdScan b (A ++ R) = A.length + fwdScan b R := by
  induction A with
  | nil => simp
  | cons a A ih =>
    have h1 : a.2 < b := h a (by simp)
    have h2 := ih (fun x hx => h x (by simp [hx]))
    obtain ⟨lo, hi⟩ := a
    simp only [List.cons_append, fwdScan, List.length_cons]
    rw [if_pos (by simpa using h1), h2]; omega

theorem bwdScan_append {e : Int} (C R : MSet) (h : ∀ c ∈ C, e < c.1) :
    bwdScan e (C ++ R) = C.length + bwdScan e R := by
  induction C with
  | nil => simp
  | cons c C ih =>
    have h1 : e < c.1 := h c (by simp)
    have h2 := ih (fun x hx => h x (by simp [hx]))
    obtain ⟨lo, hi⟩ := c
    simp only [List.cons_append, bwdScan, List.length_cons]
    rw [if_pos (by simpa using h1), h2]; omega

/-! ### AddRange: the branches in terms of the stop positions -/

theorem addRange_of_ne_nil {s : MSet} (h : s ≠ []) (b e : Int) :
    addRange s b e = addRangeAt s b e (fwdScan b s) (s.length + 1 - bwdScan e s.reverse) := by
  cases s with
  | nil => exact absurd rfl h
  | cons x r => rfl

theorem addRangeAt_branch2 {s : MSet} {b e : Int} {p q : Nat} {lo hi : Int}
    (hq : p + 2 = q) (hp : p < s.length) (hs : s[p]? = some (lo, hi)) :
    addRangeAt s b e p q = .ok (s.take p ++ [(min b lo, max e hi)] ++ s.drop (p + 1)) := by
  have h1 : (if b < lo then b else lo) = min b lo := by omega
  have h2 : (if e > hi then e else hi) = max e hi := by omega
  unfold addRangeAt
  simp only [hs, h1, h2]
  repeat' split
  all_goals first | rfl | omega

theorem addRangeAt_branch3 {s : MSet} {b e : Int} {p q : Nat} (hp : p ≤ s.length) (hq : q = 0) :
    addRangeAt s b e p q = .ok (s.take p ++ [(b, e)] ++ s.drop p) := by
  unfold addRangeAt
  simp only []
  repeat' split
  all_goals first | rfl | omega

theorem addRangeAt_branch4 {s : MSet} {b e : Int} {p q : Nat} (hp : p = s.length + 1) (hq : q ≠ 0) :
    addRangeAt s b e p q = .ok (s.take (q - 1) ++ [(b, e)] ++ s.drop (q - 1)) := by
  unfold addRangeAt
  simp only []
  repeat' split
  all_goals first | rfl | omega

theorem addRangeAt_branch5 {s : MSet} {b e : Int} {p q : Nat} (hp : p ≤ s.length) (hq : p + 1 = q) :
    addRangeAt s b e p q = .ok (s.take p ++ [(b, e)] ++ s.drop p) := by
  unfold addRangeAt
  simp only []
  repeat' split
  all_goals first | rfl | omega

theorem addRangeAt_branch7 {s : MSet} {b e : Int} {p q : Nat} {lo x y hi : Int}
    (hp : p ≤ s.length) (hq : p + 2 < q) (h1 : s[p]? = some (lo, x)) (h2 : s[q - 2]? = some (y, hi)) :
    addRangeAt s b e p q = .ok (s.take p ++ [(min b lo, max e hi)] ++ s.drop (q - 1)) := by
  have h3 : (if b < lo then b else lo) = min b lo := by omega
  unfold addRangeAt
  simp only [h1, h2, h3]
  repeat' split
  all_goals first | rfl | omega

/-! ### AddRange on a sorted list: `s = A ++ M ++ C` with `A` entirely below `b`, `C` entirely above
    `e`, and every interval of `M` meeting `[b, e]` -/

/-- the interval that replaces `M`. -/
def mergeIv (b e : Int) (M : MSet) : Iv :=
  (match M.head? with | some m => min b m.1 | none => b,
   match M.getLast? with | some m => max e m.2 | none => e)

theorem take_eq_of_length {α} {X Y : List α} {n : Nat} (h : n = X.length) : (X ++ Y).take n = X := by
  subst h; simp
theorem drop_eq_of_length {α} {X Y : List α} {n : Nat} (h : n = X.length) : (X ++ Y).drop n = Y := by
  subst h; simp
theorem getElem?_eq_of_length {α} {X Y : List α} {y : α} {n : Nat} (h : n = X.length) :
    (X ++ y :: Y)[n]? = some y := by
  subst h; simp

theorem fwdScan_stop {b : Int} {x : Iv} {R : MSet} (h : b ≤ x.2) : fwdScan b (x :: R) = 0 := by
  obtain ⟨lo, hi⟩ := x
  simp only [fwdScan]
  rw [if_neg (by simpa using h)]

theorem bwdScan_stop {e : Int} {x : Iv} {R : MSet} (h : x.1 ≤ e) : bwdScan e (x :: R) = 0 := by
  obtain ⟨lo, hi⟩ := x
  simp only [bwdScan]
  rw [if_neg (by simpa using h)]

theorem addRange_decomp (A M C : MSet) (b e : Int) (hInv : Inv (A ++ M ++ C)) (hd : InDom b e)
    (hA : ∀ a ∈ A, a.2 < b) (hC : ∀ c ∈ C, e < c.1) (hM : ∀ m ∈ M, b ≤ m.2 ∧ m.1 ≤ e) :
    addRange (A ++ M ++ C) b e = .ok (A ++ [mergeIv b e M] ++ C) := by
  obtain ⟨hb0, hbe, heM⟩ := hd
  have hCr : ∀ c ∈ C.reverse, e < c.1 := fun c hc => hC c (by simpa using hc)
  have hbnd : ∀ p ∈ A ++ M ++ C, 0 ≤ p.1 ∧ p.1 ≤ p.2 ∧ p.2 < MAXI := hInv.1
  rcases M with _ | ⟨m1, M1⟩
  · -- no interval meets [b, e]
    rcases A.eq_nil_or_concat with rfl | ⟨A', a, rfl⟩
    · rcases C with _ | ⟨c, C'⟩
      · simp [addRange, mergeIv]
      · -- branch 3: everything is above e
        have hc := hC c (by simp)
        have hc2 := hbnd c (by simp)
        have hp : fwdScan b ([] ++ [] ++ c :: C') = 0 := by
          simp only [List.append_nil, List.nil_append]; exact fwdScan_stop (by omega)
        have hq : bwdScan e ([] ++ [] ++ c :: C').reverse = (c :: C').length + 1 := by
          have := bwdScan_append (e := e) (c :: C').reverse [] hCr
          simp only [List.append_nil, List.nil_append] at this ⊢
          rw [this]; simp [bwdScan, heM]
        rw [addRange_of_ne_nil (by simp), hp, hq, addRangeAt_branch3 (by simp) (by simp)]
        simp [mergeIv]
    · -- A ≠ []
      rw [List.concat_eq_append] at *
      have ha := hA a (by simp)
      have ha2 := hbnd a (by simp)
      rcases C with _ | ⟨c, C'⟩
      · -- branch 4: everything is below b
        have hp : fwdScan b (A' ++ [a] ++ [] ++ []) = (A' ++ [a]).length + 1 := by
          have := fwdScan_append (b := b) (A' ++ [a]) [] hA
          simp only [List.append_nil] at this ⊢
          rw [this]; simp [fwdScan]; omega
        have hq : bwdScan e (A' ++ [a] ++ [] ++ []).reverse = 0 := by
          simp only [List.append_nil, List.reverse_append, List.reverse_cons, List.reverse_nil,
            List.nil_append, List.cons_append]
          exact bwdScan_stop (by omega)
        rw [addRange_of_ne_nil (by simp), hp, hq,
          addRangeAt_branch4 (by simp) (by simp)]
        have e1 : List.take (A'.length + 1) (A' ++ [a]) = A' ++ [a] :=
          List.take_of_length_le (by simp)
        simp [mergeIv, e1]
      · -- branch 5: a gap
        have hc := hC c (by simp)
        have hc2 := hbnd c (by simp)
        have hp : fwdScan b (A' ++ [a] ++ [] ++ c :: C') = (A' ++ [a]).length := by
          rw [List.append_nil, fwdScan_append _ _ hA, fwdScan_stop (by omega)]; rfl
        have hq : bwdScan e (A' ++ [a] ++ [] ++ c :: C').reverse = (c :: C').length := by
          have := bwdScan_append (e := e) (c :: C').reverse (a :: A'.reverse) hCr
          simp only [List.append_nil, List.reverse_append, List.reverse_cons,
            List.nil_append, List.cons_append, List.append_assoc] at this ⊢
          rw [this, bwdScan_stop (by omega)]; simp
        rw [addRange_of_ne_nil (by simp), hp, hq,
          addRangeAt_branch5 (by simp) (by simp <;> omega)]
        have e1 : List.take (A'.length + 1) (A' ++ a :: c :: C') = A' ++ [a] := by
          rw [show A' ++ a :: c :: C' = (A' ++ [a]) ++ c :: C' by simp]
          exact take_eq_of_length (by simp)
        simp [mergeIv, e1]
  · -- some interval meets [b, e]
    have hm1 := hM m1 (by simp)
    have hp : fwdScan b (A ++ m1 :: M1 ++ C) = A.length := by
      rw [List.append_assoc, fwdScan_append _ _ hA]
      simp only [List.cons_append]
      rw [fwdScan_stop hm1.1]; rfl
    rcases M1.eq_nil_or_concat with rfl | ⟨Mi, m2, rfl⟩
    · -- branch 2: exactly one
      have hq : bwdScan e (A ++ [m1] ++ C).reverse = C.length := by
        have := bwdScan_append (e := e) C.reverse (m1 :: A.reverse) hCr
        simp only [List.reverse_append, List.reverse_cons,
          List.nil_append, List.cons_append, List.append_assoc, List.length_reverse] at this ⊢
        rw [this, bwdScan_stop hm1.2]; rfl
      rw [addRange_of_ne_nil (by simp), hp, hq,
        addRangeAt_branch2 (lo := m1.1) (hi := m1.2) (by simp <;> omega) (by simp <;> omega) (by simp)]
      simp [mergeIv]
    · -- branch 7: two or more
      rw [List.concat_eq_append] at *
      have hm2 := hM m2 (by simp)
      have hq : bwdScan e (A ++ m1 :: (Mi ++ [m2]) ++ C).reverse = C.length := by
        have := bwdScan_append (e := e) C.reverse (m2 :: (Mi.reverse ++ m1 :: A.reverse)) hCr
        simp only [List.reverse_append, List.reverse_cons,
          List.nil_append, List.cons_append, List.append_assoc, List.length_reverse] at this ⊢
        rw [this, bwdScan_stop hm2.2]; rfl
      have hs : A ++ m1 :: (Mi ++ [m2]) ++ C = (A ++ m1 :: Mi) ++ m2 :: C := by simp
      rw [addRange_of_ne_nil (by simp), hp, hq,
        addRangeAt_branch7 (lo := m1.1) (x := m1.2) (y := m2.1) (hi := m2.2)
          (by simp <;> omega) (by simp <;> omega) (by simp)
          (by rw [hs]; exact getElem?_eq_of_length (by simp <;> omega))]
      have e1 : List.take A.length (A ++ m1 :: (Mi ++ [m2]) ++ C) = A := by
        rw [List.append_assoc]; exact take_eq_of_length rfl
      have e2 : List.drop ((A ++ m1 :: (Mi ++ [m2]) ++ C).length + 1 - C.length - 1)
          (A ++ m1 :: (Mi ++ [m2]) ++ C) = C := by
        have hs' : A ++ m1 :: (Mi ++ [m2]) ++ C = (A ++ m1 :: (Mi ++ [m2])) ++ C := by simp
        rw [hs']; exact drop_eq_of_length (by simp <;> omega)
      rw [e1, e2]
      simp [mergeIv, List.getLast?_cons, List.getLast?_append]

theorem exists_decomp {s : MSet} (hInv : Inv s) (b e : Int) :
    ∃ A M C, s = A ++ M ++ C ∧ (∀ a ∈ A, a.2 < b) ∧ (∀ c ∈ C, e < c.1) ∧
      (∀ m ∈ M, b ≤ m.2 ∧ m.1 ≤ e) := by
  induction s with
  | nil => exact ⟨[], [], [], by simp⟩
  | cons x r ih =>
    obtain ⟨hx, hxr, hr⟩ := Inv.cons_iff.1 hInv
    obtain ⟨A, M, C, rfl, hA, hC, hM⟩ := ih hr
    by_cases h1 : x.2 < b
    · refine ⟨x :: A, M, C, by simp, ?_, hC, hM⟩
      intro a ha
      rcases List.mem_cons.1 ha with rfl | ha
      · exact h1
      · exact hA a ha
    · -- every later interval ends above b, so A = []
      have hA0 : A = [] := by
        rcases A with _ | ⟨a, A'⟩
        · rfl
        · exfalso
          have h2 := hxr a (by simp)
          have h3 := hA a (by simp)
          have h4 := hr.1 a (by simp)
          omega
      subst hA0
      by_cases h2 : x.1 ≤ e
      · refine ⟨[], x :: M, C, by simp, by simp, hC, ?_⟩
        intro m hm
        rcases List.mem_cons.1 hm with rfl | hm
        · exact ⟨by omega, h2⟩
        · exact hM m hm
      · have hM0 : M = [] := by
          rcases M with _ | ⟨m, M'⟩
          · rfl
          · exfalso
            have h3 := hxr m (by simp)
            have h4 := hM m (by simp)
            omega
        subst hM0
        refine ⟨[], [], x :: C, by simp, by simp, ?_, by simp⟩
        intro c hc
        rcases List.mem_cons.1 hc with rfl | hc
        · omega
        · exact hC c hc

theorem mergeIv_nil (b e : Int) : mergeIv b e [] = (b, e) := rfl

theorem mergeIv_fst_cons (b e : Int) (m : Iv) (M : MSet) : (mergeIv b e (m :: M)).1 = min b m.1 := rfl

theorem mergeIv_snd_concat (b e : Int) (m : Iv) (M : MSet) :
    (mergeIv b e (M ++ [m])).2 = max e m.2 := by
  simp [mergeIv, List.getLast?_append]

/-- everything the proofs need to know about the merged interval. -/
theorem mergeIv_props {M : MSet} {b e : Int} (hInv : Inv M) (hM : ∀ m ∈ M, b ≤ m.2 ∧ m.1 ≤ e) :
    (mergeIv b e M).1 ≤ b ∧ e ≤ (mergeIv b e M).2 ∧
    (∀ m ∈ M, (mergeIv b e M).1 ≤ m.1 ∧ m.2 ≤ (mergeIv b e M).2) ∧
    ((mergeIv b e M).1 = b ∨ ∃ m ∈ M, (mergeIv b e M).1 = m.1) ∧
    ((mergeIv b e M).2 = e ∨ ∃ m ∈ M, (mergeIv b e M).2 = m.2) := by
  rcases M with _ | ⟨m1, M1⟩
  · simp [mergeIv_nil]
  · have hfst := mergeIv_fst_cons b e m1 M1
    obtain ⟨hm1, hm1r, _⟩ := Inv.cons_iff.1 hInv
    have hlo : ∀ m ∈ m1 :: M1, m1.1 ≤ m.1 := by
      intro m hm
      rcases List.mem_cons.1 hm with rfl | hm
      · omega
      · have := hm1r m hm; omega
    obtain ⟨Mi, ml, hMl⟩ : ∃ Mi ml, m1 :: M1 = Mi ++ [ml] := by
      rcases (m1 :: M1).eq_nil_or_concat with h | ⟨Mi, ml, h⟩
      · simp at h
      · exact ⟨Mi, ml, by rw [h, List.concat_eq_append]⟩
    have hsnd := mergeIv_snd_concat b e ml Mi
    rw [← hMl] at hsnd
    have hml : ml ∈ m1 :: M1 := by rw [hMl]; simp
    have hhi : ∀ m ∈ m1 :: M1, m.2 ≤ ml.2 := by
      intro m hm
      rw [hMl] at hm hInv
      obtain ⟨_, hl, hil⟩ := Inv.append_iff.1 hInv
      have hlb := hl.1 ml (by simp)
      rcases List.mem_append.1 hm with hm | hm
      · have := hil m hm ml (by simp); omega
      · have : m = ml := by simpa using hm
        subst this; omega
    refine ⟨by omega, by omega, ?_, ?_, ?_⟩
    · intro m hm
      have := hlo m hm; have := hhi m hm
      omega
    · by_cases h : b ≤ m1.1
      · left; omega
      · right; exact ⟨m1, by simp, by omega⟩
    · by_cases h : ml.2 ≤ e
      · left; omega
      · right; exact ⟨ml, hml, by omega⟩

/-- **AddRange is set insertion and keeps the invariant.** -/
theorem addRange_spec {s : MSet} {b e : Int} (hInv : Inv s) (hd : InDom b e) :
    ∃ s', addRange s b e = .ok s' ∧ Inv s' ∧ ∀ x, mem s' x ↔ (b ≤ x ∧ x ≤ e) ∨ mem s x := by
  obtain ⟨A, M, C, rfl, hA, hC, hM⟩ := exists_decomp hInv b e
  refine ⟨_, addRange_decomp A M C b e hInv hd hA hC hM, ?_, ?_⟩
  all_goals
    obtain ⟨hb0, hbe, heM⟩ := hd
    obtain ⟨hAM, hCi, hAMC⟩ := Inv.append_iff.1 hInv
    obtain ⟨hAi, hMi, hAMp⟩ := Inv.append_iff.1 hAM
    obtain ⟨p1, p2, p3, p4, p5⟩ := mergeIv_props hMi hM
    generalize mergeIv b e M = iv at *
  · -- Inv
    have hiv : 0 ≤ iv.1 ∧ iv.1 ≤ iv.2 ∧ iv.2 < MAXI := by
      refine ⟨?_, by omega, ?_⟩
      · rcases p4 with h | ⟨m, hm, h⟩
        · omega
        · have := hMi.1 m hm; omega
      · rcases p5 with h | ⟨m, hm, h⟩
        · omega
        · have := hMi.1 m hm; omega
    rw [Inv.append_iff, Inv.append_iff]
    refine ⟨⟨hAi, ?_, ?_⟩, hCi, ?_⟩
    · exact Inv.cons_iff.2 ⟨hiv, by simp, Inv.nil⟩
    · intro a ha q hq
      have hq' : q = iv := by simpa using hq
      subst hq'
      rcases p4 with h | ⟨m, hm, h⟩
      · have := hA a ha; omega
      · have := hAMp a ha m hm; omega
    · intro q hq c hc
      rcases List.mem_append.1 hq with hq | hq
      · exact hAMC q (List.mem_append.2 (Or.inl hq)) c hc
      · have hq' : q = iv := by simpa using hq
        subst hq'
        rcases p5 with h | ⟨m, hm, h⟩
        · have := hC c hc; omega
        · have := hAMC m (List.mem_append.2 (Or.inr hm)) c hc; omega
  · -- members
    intro x
    simp only [mem_append, mem_singleton]
    constructor
    · rintro ((h | h) | h)
      · exact Or.inr (Or.inl (Or.inl h))
      · by_cases hxb : x < b
        · rcases p4 with h4 | ⟨m, hm, h4⟩
          · omega
          · have := hM m hm
            exact Or.inr (Or.inl (Or.inr ⟨m, hm, by omega, by omega⟩))
        · by_cases hxe : e < x
          · rcases p5 with h5 | ⟨m, hm, h5⟩
            · omega
            · have := hM m hm
              exact Or.inr (Or.inl (Or.inr ⟨m, hm, by omega, by omega⟩))
          · exact Or.inl ⟨by omega, by omega⟩
      · exact Or.inr (Or.inr h)
    · rintro (h | (h | h) | h)
      · exact Or.inl (Or.inr ⟨by omega, by omega⟩)
      · exact Or.inl (Or.inl h)
      · obtain ⟨m, hm, h1, h2⟩ := h
        have := p3 m hm
        exact Or.inl (Or.inr ⟨by omega, by omega⟩)
      · exact Or.inr h

/-! ### sequences of insertions -/

theorem addAll_spec {acc : MSet} {ops : List Iv} (hInv : Inv acc) (hops : ∀ o ∈ ops, InDom o.1 o.2) :
    ∃ s', addAll acc ops = .ok s' ∧ Inv s' ∧ ∀ x, mem s' x ↔ mem acc x ∨ mem ops x := by
  induction ops generalizing acc with
  | nil => exact ⟨acc, rfl, hInv, by simp [mem_nil]⟩
  | cons o ops ih =>
    obtain ⟨lo, hi⟩ := o
    obtain ⟨s1, h1, hI1, hm1⟩ := addRange_spec hInv (hops (lo, hi) (by simp))
    obtain ⟨s2, h2, hI2, hm2⟩ := ih hI1 (fun o ho => hops o (by simp [ho]))
    refine ⟨s2, by simp only [addAll, h1]; exact h2, hI2, ?_⟩
    intro x
    rw [hm2, hm1, mem_cons]
    constructor
    · rintro ((h | h) | h)
      · exact Or.inr (Or.inl h)
      · exact Or.inl h
      · exact Or.inr (Or.inr h)
    · rintro (h | h | h)
      · exact Or.inl (Or.inr h)
      · exact Or.inl (Or.inl h)
      · exact Or.inr h

theorem Reachable.inv {s : MSet} (h : Reachable s) : Inv s := by
  obtain ⟨ops, hops, hb⟩ := h
  obtain ⟨s', h1, h2, _⟩ := addAll_spec Inv.nil hops
  unfold build at hb
  rw [h1] at hb
  cases hb
  exact h2

theorem Inv.inDom {s : MSet} (h : Inv s) : ∀ o ∈ s, InDom o.1 o.2 := fun o ho => h.1 o ho

theorem addAll_append (acc : MSet) (xs ys : List Iv) :
    addAll acc (xs ++ ys) = match addAll acc xs with
      | .ok s => addAll s ys
      | .panic => .panic
      | .corrupt => .corrupt
      | .diverge => .diverge := by
  induction xs generalizing acc with
  | nil => rfl
  | cons x xs ih =>
    obtain ⟨lo, hi⟩ := x
    simp only [List.cons_append, addAll]
    cases addRange acc lo hi with
    | ok a => exact ih a
    | panic => rfl
    | corrupt => rfl
    | diverge => rfl

/-- appending an interval above everything is branch 4 (or 1): the list just grows. -/
theorem addRange_snoc {s : MSet} {b e : Int} (h : Inv (s ++ [(b, e)])) :
    addRange s b e = .ok (s ++ [(b, e)]) := by
  obtain ⟨hs, hbe, hlt⟩ := Inv.append_iff.1 h
  have hd := hbe.1 (b, e) (by simp)
  have := addRange_decomp s [] [] b e (by simpa using hs) hd
    (fun a ha => hlt a ha (b, e) (by simp)) (by simp) (by simp)
  simpa [mergeIv_nil] using this

/-- every list satisfying the invariant is reachable (insert its own intervals in order). -/
theorem Inv.reachable {s : MSet} (h : Inv s) : Reachable s := by
  refine ⟨s, h.inDom, ?_⟩
  suffices hh : ∀ (n : Nat) (t : MSet), t.length = n → Inv t → build t = .ok t from hh _ s rfl h
  intro n
  induction n with
  | zero =>
    intro t ht _
    have : t = [] := List.eq_nil_of_length_eq_zero ht
    subst this; rfl
  | succ n ih =>
    intro t ht hI
    rcases t.eq_nil_or_concat with rfl | ⟨t', x, rfl⟩
    · simp at ht
    · rw [List.concat_eq_append] at *
      obtain ⟨b, e⟩ := x
      have ht' : t'.length = n := by simpa using ht
      have h1 := ih t' ht' (Inv.append_iff.1 hI).1
      unfold build at h1 ⊢
      rw [addAll_append, h1]
      simp only [addAll]
      rw [addRange_snoc hI]

theorem reachable_iff_inv {s : MSet} : Reachable s ↔ Inv s := ⟨Reachable.inv, Inv.reachable⟩

/-! ### Has -/

theorem has_iff_of_inv {s : MSet} (hInv : Inv s) (x : Int) : has s x = true ↔ mem s x := by
  obtain ⟨A, M, C, rfl, hA, hC, hM⟩ := exists_decomp hInv x x
  have hbnd := hInv.1
  have hnotA : ¬ mem A x := by
    rintro ⟨a, ha, h1, h2⟩; have := hA a ha; omega
  have hnotC : ¬ mem C x := by
    rintro ⟨c, hc, h1, h2⟩; have := hC c hc; omega
  rcases M with _ | ⟨m, M'⟩
  · have hno : ¬ mem (A ++ [] ++ C) x := by
      simp only [mem_append, mem_nil, or_false]; exact fun h => h.elim hnotA hnotC
    simp only [hno, iff_false, Bool.not_eq_true]
    rcases C with _ | ⟨c, C'⟩
    · rcases A.eq_nil_or_concat with rfl | ⟨A', a, rfl⟩
      · rfl
      · rw [List.concat_eq_append] at *
        have ha := hA a (by simp)
        have ha2 := hbnd a (by simp)
        have hp : fwdScan x (A' ++ [a] ++ [] ++ []) = (A' ++ [a] ++ [] ++ []).length + 1 := by
          have := fwdScan_append (b := x) (A' ++ [a]) [] hA
          simp only [List.append_nil] at this ⊢
          rw [this]; simp [fwdScan]; omega
        have hne : A' ++ [a] ++ [] ++ [] ≠ [] := by simp
        revert hp hne
        generalize A' ++ [a] ++ [] ++ [] = s
        intro hp hne
        cases s with
        | nil => exact absurd rfl hne
        | cons y r =>
          simp only [has]
          rw [if_pos hp]
    · have hc := hC c (by simp)
      have hc2 := hbnd c (by simp)
      have hp : fwdScan x (A ++ [] ++ c :: C') = A.length := by
        rw [List.append_nil, fwdScan_append _ _ hA, fwdScan_stop (by omega)]; rfl
      have hg : (A ++ [] ++ c :: C')[A.length]? = some c := by simp
      have hne : A ++ [] ++ c :: C' ≠ [] := by simp
      have hl : A.length ≠ (A ++ [] ++ c :: C').length + 1 := by simp; omega
      revert hp hne hg hl
      generalize A ++ [] ++ c :: C' = s
      intro hp hg hne hl
      cases s with
      | nil => exact absurd rfl hne
      | cons y r =>
        obtain ⟨clo, chi⟩ := c
        simp only [has]
        rw [hp, if_neg hl, hg]
        simp only [decide_eq_false_iff_not]
        simp only at hc
        omega
  · have hm := hM m (by simp)
    have hyes : mem (A ++ m :: M' ++ C) x :=
      ⟨m, by simp, hm.2, hm.1⟩
    simp only [hyes, iff_true]
    have hp : fwdScan x (A ++ m :: M' ++ C) = A.length := by
      rw [List.append_assoc, fwdScan_append _ _ hA]
      simp only [List.cons_append]
      rw [fwdScan_stop hm.1]; rfl
    have hg : (A ++ m :: M' ++ C)[A.length]? = some m := by simp
    have hne : A ++ m :: M' ++ C ≠ [] := by simp
    have hl : A.length ≠ (A ++ m :: M' ++ C).length + 1 := by simp; omega
    revert hp hne hg hl
    generalize A ++ m :: M' ++ C = s
    intro hp hg hne hl
    cases s with
    | nil => exact absurd rfl hne
    | cons y r =>
      obtain ⟨mlo, mhi⟩ := m
      simp only [has]
      rw [hp, if_neg hl, hg]
      simp only [decide_eq_true_eq]
      exact hm.2

/-! ### Len -/

theorem memb_cons (p : Iv) (s : MSet) (x : Int) :
    memb (p :: s) x = ((decide (p.1 ≤ x) && decide (x ≤ p.2)) || memb s x) := by
  simp [memb]

theorem countP_or_of_disjoint {α} (p q : α → Bool) (l : List α)
    (h : ∀ a ∈ l, ¬(p a = true ∧ q a = true)) :
    l.countP (fun a => p a || q a) = l.countP p + l.countP q := by
  induction l with
  | nil => rfl
  | cons a l ih =>
    have ih' := ih (fun x hx => h x (by simp [hx]))
    have ha := h a (by simp)
    simp only [List.countP_cons, ih']
    cases hp : p a <;> cases hq : q a <;> simp_all <;> omega

theorem countP_range_interval (lo hi : Int) (N : Nat) (h0 : 0 ≤ lo) (h1 : lo ≤ hi) :
    (((List.range N).countP (fun (n : Nat) => decide (lo ≤ (n : Int)) && decide ((n : Int) ≤ hi)) : Nat) : Int)
      = if (N : Int) ≤ lo then 0 else if (N : Int) ≤ hi + 1 then N - lo else hi - lo + 1 := by
  induction N with
  | zero => simp; omega
  | succ N ih =>
    rw [List.range_succ, List.countP_append]
    simp only [List.countP_cons, List.countP_nil, Nat.zero_add]
    push_cast
    rw [ih]
    by_cases c1 : lo ≤ (N : Int) <;> by_cases c2 : (N : Int) ≤ hi <;> simp [c1, c2] <;>
      (repeat' split) <;> omega

theorem len_eq_countP {s : MSet} (hInv : Inv s) (N : Nat) (hN : ∀ p ∈ s, p.2 < (N : Int)) :
    len s = (((List.range N).countP (fun (n : Nat) => memb s (n : Int)) : Nat) : Int) := by
  induction s with
  | nil => simp [len, memb]
  | cons p s ih =>
    obtain ⟨hp, hps, hs⟩ := Inv.cons_iff.1 hInv
    have ih' := ih hs (fun q hq => hN q (by simp [hq]))
    have hpN := hN p (by simp)
    obtain ⟨lo, hi⟩ := p
    simp only [len, memb_cons]
    rw [countP_or_of_disjoint (fun n : Nat => decide (lo ≤ (n : Int)) && decide ((n : Int) ≤ hi))
      (fun n : Nat => memb s (n : Int))]
    · push_cast
      rw [← ih', countP_range_interval lo hi N hp.1 hp.2.1]
      have hpN' : hi < (N : Int) := hpN
      have hp' : 0 ≤ lo ∧ lo ≤ hi := ⟨hp.1, hp.2.1⟩
      (repeat' split) <;> omega
    · intro n _ ⟨h1, h2⟩
      simp only [Bool.and_eq_true, decide_eq_true_eq] at h1
      obtain ⟨q, hq, hq1, hq2⟩ := memb_iff.1 h2
      have := hps q hq
      simp only at this
      omega

/-! ### Copy, Union -/

theorem copy_eq_self (s : MSet) : copy s = s := by
  induction s with
  | nil => rfl
  | cons p s ih => obtain ⟨lo, hi⟩ := p; simp [copy, ih]

theorem union_spec_of_inv {a b : MSet} (ha : Inv a) (hb : Inv b) :
    ∃ u, union a b = .ok u ∧ Inv u ∧ ∀ x, mem u x ↔ mem a x ∨ mem b x := by
  unfold union
  rw [copy_eq_self]
  exact addAll_spec ha hb.inDom

/-! ### Intersects -/

theorem interInner_eq (x : Iv) (ys : MSet) : interInner x ys = ys.any (hit x) := by
  induction ys with
  | nil => rfl
  | cons y ys ih => simp only [interInner, List.any_cons, ih]; cases hit x y <;> simp

theorem interOuter_cons {b : MSet} (hb : b ≠ []) (x : Iv) (xs : MSet) :
    interOuter b (x :: xs) = if b.any (hit x) = true then some true else interOuter b xs := by
  have hbe : b.isEmpty = false := by cases b <;> simp_all
  simp only [interOuter, hbe, Bool.false_eq_true, if_false]
  rw [interInner_eq]

theorem interOuter_some {b : MSet} (hb : b ≠ []) (xs : MSet)
    (h : xs.any (fun x => b.any (hit x)) = true) : interOuter b xs = some true := by
  induction xs with
  | nil => simp at h
  | cons x xs ih =>
    rw [interOuter_cons hb]
    rw [List.any_cons, Bool.or_eq_true] at h
    by_cases hx : b.any (hit x) = true
    · rw [if_pos hx]
    · rw [if_neg hx]; exact ih (h.resolve_left hx)

theorem interOuter_none {b : MSet} (hb : b ≠ []) (xs : MSet)
    (h : xs.any (fun x => b.any (hit x)) = false) : interOuter b xs = none := by
  induction xs with
  | nil => rfl
  | cons x xs ih =>
    rw [interOuter_cons hb]
    rw [List.any_cons, Bool.or_eq_false_iff] at h
    rw [if_neg (by simp [h.1])]; exact ih h.2

theorem intersects_eq (s b : MSet) :
    intersects s b = (s.any (fun x => b.any (hit x)) || b.any (fun x => s.any (hit x))) := by
  rcases s with _ | ⟨x, s'⟩
  · simp [intersects]
  · rcases b with _ | ⟨y, b'⟩
    · simp [intersects, interOuter]
    · unfold intersects
      simp only [List.isEmpty_cons]
      rcases Bool.eq_false_or_eq_true ((x :: s').any (fun x => (y :: b').any (hit x))) with h1 | h1
      · rw [interOuter_some (by simp) _ h1, h1]; simp
      · rw [interOuter_none (by simp) _ h1, h1]
        rcases Bool.eq_false_or_eq_true ((y :: b').any (fun z => (x :: s').any (hit z))) with h2 | h2
        · rw [interOuter_some (by simp) _ h2, h2]; simp
        · rw [interOuter_none (by simp) _ h2, h2]; simp

theorem hit_iff (x y : Iv) :
    hit x y = true ↔ (x.1 ≤ y.1 ∧ y.1 ≤ x.2) ∨ (x.1 ≤ y.2 ∧ y.2 ≤ x.2) := by
  simp [hit]

theorem intersects_iff_of_bounds {s b : MSet} (hs : ∀ p ∈ s, p.1 ≤ p.2) (hb : ∀ p ∈ b, p.1 ≤ p.2) :
    intersects s b = true ↔ ∃ z, mem s z ∧ mem b z := by
  rw [intersects_eq]
  simp only [Bool.or_eq_true, List.any_eq_true, hit_iff]
  constructor
  · rintro (⟨x, hx, y, hy, h⟩ | ⟨y, hy, x, hx, h⟩)
    · have := hs x hx; have := hb y hy
      rcases h with h | h
      · exact ⟨y.1, ⟨x, hx, by omega, by omega⟩, ⟨y, hy, by omega, by omega⟩⟩
      · exact ⟨y.2, ⟨x, hx, by omega, by omega⟩, ⟨y, hy, by omega, by omega⟩⟩
    · have := hs x hx; have := hb y hy
      rcases h with h | h
      · exact ⟨x.1, ⟨x, hx, by omega, by omega⟩, ⟨y, hy, by omega, by omega⟩⟩
      · exact ⟨x.2, ⟨x, hx, by omega, by omega⟩, ⟨y, hy, by omega, by omega⟩⟩
  · rintro ⟨z, ⟨x, hx, hx1, hx2⟩, ⟨y, hy, hy1, hy2⟩⟩
    by_cases h : x.1 ≤ y.1
    · exact Or.inl ⟨x, hx, y, hy, Or.inl ⟨h, by omega⟩⟩
    · exact Or.inr ⟨y, hy, x, hx, Or.inl ⟨by omega, by omega⟩⟩

/-! ### Complement -/

/-- What `Complement(L)` needs of its receiver: no interval starts above `L + 1`, and only the last
    interval may reach `L` (or go beyond).  Every set within `[0, L]` is tame, and so is
    `{L+1}` (the use in `tree/peg.go`: `s.Add(EndSymbol); s.Complement(EndSymbol-1)`). -/
def Tame (L : Int) : MSet → Prop
  | [] => True
  | (lo, hi) :: r => lo ≤ L + 1 ∧ (hi < L ∨ r = []) ∧ Tame L r

theorem tame_of_within {s : MSet} {L : Int} (hInv : Inv s) (hw : Within s L) : Tame L s := by
  induction s with
  | nil => trivial
  | cons p r ih =>
    obtain ⟨hp, hpr, hr⟩ := Inv.cons_iff.1 hInv
    obtain ⟨lo, hi⟩ := p
    have h1 : hi ≤ L := hw (lo, hi) (by simp)
    refine ⟨by simp only at hp; omega, ?_, ih hr (fun q hq => hw q (by simp [hq]))⟩
    rcases r with _ | ⟨q, r'⟩
    · exact Or.inr rfl
    · left
      have h2 := hpr q (by simp)
      have h3 := hr.1 q (by simp)
      have h4 : q.2 ≤ L := hw q (by simp)
      simp only at h2
      omega

theorem len_nonneg {s : MSet} (hInv : Inv s) : 0 ≤ len s := by
  induction s with
  | nil => simp [len]
  | cons p r ih =>
    obtain ⟨hp, _, hr⟩ := Inv.cons_iff.1 hInv
    obtain ⟨lo, hi⟩ := p
    have := ih hr
    simp only [len]; simp only at hp; omega

theorem len_pos {p : Iv} {r : MSet} (hInv : Inv (p :: r)) : 0 < len (p :: r) := by
  obtain ⟨hp, _, hr⟩ := Inv.cons_iff.1 hInv
  obtain ⟨lo, hi⟩ := p
  have := len_nonneg hr
  simp only [len]; simp only at hp; omega

/-- the loop of `Complement`, started at `pre` below every remaining interval. -/
theorem compLoop_spec {L : Int} (hL : L < MAXI) (rest : MSet) :
    ∀ (pre : Int), 0 ≤ pre → Inv rest → Tame L rest → (∀ p ∈ rest, pre ≤ p.1) →
      (∀ x, mem (compLoop L pre false rest) x ↔ pre ≤ x ∧ x ≤ L ∧ ¬ mem rest x) ∧
      Inv (compLoop L pre false rest) ∧
      (∀ q ∈ compLoop L pre false rest, pre ≤ q.1 ∧ q.2 ≤ L) := by
  induction rest with
  | nil =>
    intro pre h0 _ _ _
    by_cases h : pre ≤ L
    · have e : compLoop L pre false [] = [(pre, L)] := by simp [compLoop, h]
      rw [e]
      refine ⟨fun x => by simp [mem_singleton, mem_nil], ?_, by simp <;> omega⟩
      exact Inv.cons_iff.2 ⟨by simp only; omega, by simp, Inv.nil⟩
    · have e : compLoop L pre false [] = [] := by simp [compLoop, h]
      rw [e]
      exact ⟨fun x => by simp [mem_nil]; omega, Inv.nil, by simp⟩
  | cons p r ih =>
    intro pre h0 hInv hT hpre
    obtain ⟨hp, hpr, hr⟩ := Inv.cons_iff.1 hInv
    obtain ⟨lo, hi⟩ := p
    obtain ⟨hT1, hT2, hT3⟩ := hT
    have hplo : pre ≤ lo := hpre (lo, hi) (by simp)
    simp only at hp hpr
    unfold MAXI at hL hp
    have w1 : wrap32 (lo - 1) = lo - 1 := wrap32_id (by omega) (by omega)
    have w2 : wrap32 (hi + 1) = hi + 1 := wrap32_id (by omega) (by omega)
    by_cases hc : hi ≥ L
    · -- the interval reaches L: it is the last one
      have hr0 : r = [] := hT2.resolve_left (by omega)
      subst hr0
      have e : compLoop L pre false [(lo, hi)] = if pre < lo then [(pre, lo - 1)] else [] := by
        simp [compLoop, hc, w1]
      rw [e]
      by_cases hg : pre < lo
      · simp only [hg, if_true]
        refine ⟨fun x => ?_, ?_, by simp; omega⟩
        · simp only [mem_singleton]; omega
        · exact Inv.cons_iff.2 ⟨by simp only [MAXI]; omega, by simp, Inv.nil⟩
      · simp only [hg, if_false]
        refine ⟨fun x => ?_, Inv.nil, by simp⟩
        constructor
        · intro h; exact absurd h (mem_nil x)
        · rintro ⟨h1, h2, h3⟩
          exact absurd ⟨(lo, hi), by simp, by simp only; omega, by simp only; omega⟩ h3
    · -- continue above hi
      have e : compLoop L pre false ((lo, hi) :: r) =
          (if pre < lo then [(pre, lo - 1)] else []) ++ compLoop L (hi + 1) false r := by
        simp [compLoop, hc, w1, w2]
      rw [e]
      obtain ⟨i1, i2, i3⟩ := ih (hi + 1) (by omega) hr hT3 (fun q hq => by have := hpr q hq; omega)
      have hrmem : ∀ x, mem r x → hi < x := by
        rintro x ⟨q, hq, h1, _⟩; have := hpr q hq; omega
      by_cases hg : pre < lo
      · simp only [hg, if_true]
        refine ⟨fun x => ?_, ?_, ?_⟩
        · rw [mem_append, mem_singleton, i1, mem_cons]
          constructor
          · rintro (h | h)
            · refine ⟨by omega, by omega, ?_⟩
              rintro (h' | h')
              · omega
              · have := hrmem x h'; omega
            · exact ⟨by omega, h.2.1, fun h' => h'.elim (fun h'' => by omega) h.2.2⟩
          · rintro ⟨h1, h2, h3⟩
            by_cases hx : x < lo
            · exact Or.inl ⟨h1, by omega⟩
            · refine Or.inr ⟨?_, h2, fun h' => h3 (Or.inr h')⟩
              have : ¬ (lo ≤ x ∧ x ≤ hi) := fun h' => h3 (Or.inl h')
              omega
        · rw [show [(pre, lo - 1)] ++ compLoop L (hi + 1) false r
              = (pre, lo - 1) :: compLoop L (hi + 1) false r from rfl]
          refine Inv.cons_iff.2 ⟨by simp only [MAXI]; omega, ?_, i2⟩
          intro q hq; have := i3 q hq; simp only; omega
        · intro q hq
          rcases List.mem_append.1 hq with hq | hq
          · have : q = (pre, lo - 1) := by simpa using hq
            subst this; simp only; omega
          · have := i3 q hq; omega
      · simp only [hg, if_false, List.nil_append]
        have hpl : pre = lo := by omega
        refine ⟨fun x => ?_, i2, fun q hq => by have := i3 q hq; omega⟩
        rw [i1, mem_cons]
        constructor
        · rintro ⟨h1, h2, h3⟩
          exact ⟨by omega, h2, fun h' => h'.elim (fun h'' => by omega) h3⟩
        · rintro ⟨h1, h2, h3⟩
          refine ⟨?_, h2, fun h' => h3 (Or.inr h')⟩
          have : ¬ (lo ≤ x ∧ x ≤ hi) := fun h' => h3 (Or.inl h')
          omega

theorem complement_spec_of_tame {s : MSet} {L : Int} (hInv : Inv s) (hT : Tame L s)
    (hL0 : 0 ≤ L) (hL : L < MAXI) :
    (∀ x, mem (complement s L) x ↔ 0 ≤ x ∧ x ≤ L ∧ ¬ mem s x) ∧ Inv (complement s L) ∧
    Within (complement s L) L := by
  rcases s with _ | ⟨p, r⟩
  · refine ⟨fun x => by simp [complement, mem_singleton, mem_nil], ?_, ?_⟩
    · exact Inv.cons_iff.2 ⟨by simp only; omega, by simp, Inv.nil⟩
    · intro q hq; have : q = (0, L) := by simpa [complement] using hq
      subst this; simp
  · have hlen : len (p :: r) ≠ 0 := by have := len_pos hInv; omega
    obtain ⟨hp, hpr, hr⟩ := Inv.cons_iff.1 hInv
    obtain ⟨lo, hi⟩ := p
    obtain ⟨hT1, hT2, hT3⟩ := hT
    simp only at hp hpr
    have hrmem : ∀ x, mem r x → hi < x := by
      rintro x ⟨q, hq, h1, _⟩; have := hpr q hq; omega
    have w2 : wrap32 (hi + 1) = hi + 1 := wrap32_id (by omega) (by unfold MAXI at hp; omega)
    by_cases hfull : lo = 0 ∧ hi = L
    · obtain ⟨h1, h2⟩ := hfull
      subst h1 h2
      have e : complement ((0, hi) :: r) hi = [] := by simp [complement, hlen]
      rw [e]
      refine ⟨fun x => ?_, Inv.nil, fun q hq => by simp at hq⟩
      simp only [mem_nil, mem_cons, false_iff]
      rintro ⟨h1, h2, h3⟩
      exact h3 (Or.inl (by omega))
    · by_cases hz : 0 = lo
      · subst hz
        have hfull' : ¬ hi = L := fun h => hfull ⟨rfl, h⟩
        have e : complement ((0, hi) :: r) L = compLoop L (hi + 1) false r := by
          simp [complement, hlen, hfull', w2]
        rw [e]
        obtain ⟨i1, i2, i3⟩ := compLoop_spec hL r (hi + 1) (by omega) hr hT3
          (fun q hq => by have := hpr q hq; omega)
        refine ⟨fun x => ?_, i2, fun q hq => (i3 q hq).2⟩
        rw [i1, mem_cons]
        constructor
        · rintro ⟨h1, h2, h3⟩
          exact ⟨by omega, h2, fun h' => h'.elim (fun h'' => by omega) h3⟩
        · rintro ⟨h1, h2, h3⟩
          refine ⟨?_, h2, fun h' => h3 (Or.inr h')⟩
          have : ¬ ((0 : Int) ≤ x ∧ x ≤ hi) := fun h' => h3 (Or.inl h')
          omega
      · have hz' : ¬ lo = 0 := fun h => hz h.symm
        have e : complement ((lo, hi) :: r) L = compLoop L 0 false ((lo, hi) :: r) := by
          simp [complement, hlen, hz, hz']
        rw [e]
        obtain ⟨i1, i2, i3⟩ := compLoop_spec hL ((lo, hi) :: r) 0 (by omega) hInv ⟨hT1, hT2, hT3⟩
          (fun q hq => (hInv.1 q hq).1)
        exact ⟨i1, i2, fun q hq => (i3 q hq).2⟩

/-! ### Equal: comparison of the normal forms (maximal runs) -/

/-- the list of maximal runs of overlapping or adjacent intervals (specification side). -/
def normAux (lo hi : Int) : MSet → MSet
  | [] => [(lo, hi)]
  | (l2, h2) :: r => if l2 ≤ hi + 1 then normAux lo (max hi h2) r else (lo, hi) :: normAux l2 h2 r

def norm : MSet → MSet
  | [] => []
  | (lo, hi) :: r => normAux lo hi r

/-- sorted, non-empty intervals with a gap of at least one integer between consecutive ones. -/
def Gapped (s : MSet) : Prop := (∀ p ∈ s, p.1 ≤ p.2) ∧ s.Pairwise (fun p q => p.2 + 1 < q.1)

theorem normAux_eq_runEnd (r : MSet) : ∀ lo hi : Int,
    normAux lo hi r = (lo, (runEnd hi r).1) :: norm (runEnd hi r).2 := by
  induction r with
  | nil => intro lo hi; rfl
  | cons p r ih =>
    intro lo hi
    obtain ⟨l2, h2⟩ := p
    by_cases h : l2 ≤ hi + 1
    · simp only [normAux, runEnd, h, if_true]; exact ih lo (max hi h2)
    · simp only [normAux, runEnd, h, if_false, norm]

theorem norm_cons (lo hi : Int) (r : MSet) :
    norm ((lo, hi) :: r) = (lo, (runEnd hi r).1) :: norm (runEnd hi r).2 :=
  normAux_eq_runEnd r lo hi

theorem norm_nil : norm [] = [] := rfl

theorem runEnd_length_le (r : MSet) : ∀ hi : Int, (runEnd hi r).2.length ≤ r.length := by
  induction r with
  | nil => intro hi; simp [runEnd]
  | cons p r ih =>
    intro hi
    obtain ⟨l2, h2⟩ := p
    by_cases h : l2 ≤ hi + 1
    · simp only [runEnd, h, if_true, List.length_cons]; have := ih (max hi h2); omega
    · simp only [runEnd, h, if_false, List.length_cons]; omega

theorem equalLoop_eq : ∀ (f : Nat) (x y : MSet), x.length < f →
    equalLoop f x y = .ok (decide (norm x = norm y)) := by
  intro f
  induction f with
  | zero => intro x y h; omega
  | succ f ih =>
    intro x y hlen
    rcases x with _ | ⟨p, r⟩ <;> rcases y with _ | ⟨q, r2⟩
    · simp [equalLoop, run, norm_nil]
    · obtain ⟨l2, h2⟩ := q
      simp [equalLoop, run, norm_nil, norm_cons]
    · obtain ⟨l1, h1⟩ := p
      simp [equalLoop, run, norm_nil, norm_cons]
    · obtain ⟨l1, h1⟩ := p
      obtain ⟨l2, h2⟩ := q
      simp only [equalLoop, run, norm_cons]
      by_cases hne : l1 ≠ l2 ∨ (runEnd h1 r).1 ≠ (runEnd h2 r2).1
      · rw [if_pos hne]
        have : ¬ ((l1, (runEnd h1 r).1) :: norm (runEnd h1 r).2
            = (l2, (runEnd h2 r2).1) :: norm (runEnd h2 r2).2) := by
          intro h
          simp only [List.cons.injEq, Prod.mk.injEq] at h
          rcases hne with h' | h'
          · exact h' h.1.1
          · exact h' h.1.2
        simp [this]
      · rw [if_neg hne]
        have hlen' : (runEnd h1 r).2.length < f := by
          have := runEnd_length_le r h1; simp only [List.length_cons] at hlen; omega
        rw [ih _ _ hlen']
        have h1' : l1 = l2 := by
          apply Classical.byContradiction; intro h; exact hne (Or.inl h)
        have h2' : (runEnd h1 r).1 = (runEnd h2 r2).1 := by
          apply Classical.byContradiction; intro h; exact hne (Or.inr h)
        simp [h1', h2']

theorem equal_eq (a b : MSet) : equal a b = .ok (decide (norm a = norm b)) :=
  equalLoop_eq _ _ _ (by omega)

theorem normAux_spec (r : MSet) : ∀ lo hi : Int, lo ≤ hi → Inv r → (∀ p ∈ r, hi < p.1) →
    (∀ x, mem (normAux lo hi r) x ↔ (lo ≤ x ∧ x ≤ hi) ∨ mem r x) ∧ Gapped (normAux lo hi r) ∧
    (∀ q ∈ normAux lo hi r, lo ≤ q.1) := by
  induction r with
  | nil =>
    intro lo hi h _ _
    refine ⟨fun x => by simp [normAux, mem_singleton, mem_nil], ?_, by simp [normAux]⟩
    exact ⟨by simp [normAux]; exact h, by simp [normAux]⟩
  | cons p r ih =>
    intro lo hi hlh hInv hgt
    obtain ⟨hp, hpr, hr⟩ := Inv.cons_iff.1 hInv
    obtain ⟨l2, h2⟩ := p
    have hl2 : hi < l2 := hgt (l2, h2) (by simp)
    simp only at hp hpr
    by_cases h : l2 ≤ hi + 1
    · have e : normAux lo hi ((l2, h2) :: r) = normAux lo (max hi h2) r := by simp [normAux, h]
      rw [e]
      obtain ⟨i1, i2, i3⟩ := ih lo (max hi h2) (by omega) hr (fun q hq => by have := hpr q hq; omega)
      refine ⟨fun x => ?_, i2, i3⟩
      rw [i1, mem_cons]
      constructor
      · rintro (h' | h')
        · by_cases hx : x ≤ hi
          · exact Or.inl ⟨h'.1, hx⟩
          · exact Or.inr (Or.inl ⟨by simp only; omega, by simp only; omega⟩)
        · exact Or.inr (Or.inr h')
      · rintro (h' | h' | h')
        · exact Or.inl ⟨h'.1, by omega⟩
        · simp only at h'; exact Or.inl ⟨by omega, by omega⟩
        · exact Or.inr h'
    · have e : normAux lo hi ((l2, h2) :: r) = (lo, hi) :: normAux l2 h2 r := by simp [normAux, h]
      rw [e]
      obtain ⟨i1, i2, i3⟩ := ih l2 h2 hp.2.1 hr hpr
      refine ⟨fun x => ?_, ?_, ?_⟩
      · rw [mem_cons, i1, mem_cons]
      · refine ⟨?_, ?_⟩
        · intro q hq
          rcases List.mem_cons.1 hq with rfl | hq
          · exact hlh
          · exact i2.1 q hq
        · refine List.pairwise_cons.2 ⟨?_, i2.2⟩
          intro q hq; have := i3 q hq; simp only; omega
      · intro q hq
        rcases List.mem_cons.1 hq with rfl | hq
        · simp
        · have := i3 q hq; omega

theorem norm_spec {s : MSet} (hInv : Inv s) : (∀ x, mem (norm s) x ↔ mem s x) ∧ Gapped (norm s) := by
  rcases s with _ | ⟨p, r⟩
  · exact ⟨fun x => Iff.rfl, by simp [norm, Gapped]⟩
  · obtain ⟨hp, hpr, hr⟩ := Inv.cons_iff.1 hInv
    obtain ⟨lo, hi⟩ := p
    obtain ⟨i1, i2, _⟩ := normAux_spec r lo hi hp.2.1 hr hpr
    exact ⟨fun x => by rw [norm, i1, mem_cons], i2⟩

/-- two gapped lists with the same members are the same list. -/
theorem gapped_ext : ∀ (a b : MSet), Gapped a → Gapped b → (∀ x, mem a x ↔ mem b x) → a = b := by
  intro a
  induction a with
  | nil =>
    intro b _ hb h
    rcases b with _ | ⟨q, b'⟩
    · rfl
    · exfalso
      have : mem (q :: b') q.1 := ⟨q, by simp, by omega, hb.1 q (by simp)⟩
      exact mem_nil _ ((h q.1).2 this)
  | cons p a' ih =>
    intro b ha hb h
    rcases b with _ | ⟨q, b'⟩
    · exfalso
      have : mem (p :: a') p.1 := ⟨p, by simp, by omega, ha.1 p (by simp)⟩
      exact mem_nil _ ((h p.1).1 this)
    · have hp := ha.1 p (by simp)
      have hq := hb.1 q (by simp)
      have hpa : ∀ r ∈ a', p.2 + 1 < r.1 := (List.pairwise_cons.1 ha.2).1
      have hqb : ∀ r ∈ b', q.2 + 1 < r.1 := (List.pairwise_cons.1 hb.2).1
      have ha' : Gapped a' := ⟨fun r hr => ha.1 r (by simp [hr]), (List.pairwise_cons.1 ha.2).2⟩
      have hb' : Gapped b' := ⟨fun r hr => hb.1 r (by simp [hr]), (List.pairwise_cons.1 hb.2).2⟩
      -- a member of the list is ≥ the first lower bound
      have lowA : ∀ x, mem (p :: a') x → p.1 ≤ x := by
        rintro x ⟨r, hr, h1, _⟩
        rcases List.mem_cons.1 hr with rfl | hr
        · exact h1
        · have := hpa r hr; omega
      have lowB : ∀ x, mem (q :: b') x → q.1 ≤ x := by
        rintro x ⟨r, hr, h1, _⟩
        rcases List.mem_cons.1 hr with rfl | hr
        · exact h1
        · have := hqb r hr; omega
      have e1 : p.1 = q.1 := by
        have h1 := lowB p.1 ((h p.1).1 ⟨p, by simp, by omega, hp⟩)
        have h2 := lowA q.1 ((h q.1).2 ⟨q, by simp, by omega, hq⟩)
        omega
      have e2 : p.2 = q.2 := by
        apply Classical.byContradiction
        intro hne
        by_cases hlt : p.2 < q.2
        · -- p.2 + 1 is in b (inside q) but not in a
          have hb1 : mem (q :: b') (p.2 + 1) := ⟨q, by simp, by omega, by omega⟩
          obtain ⟨r, hr, h1, h2⟩ := (h (p.2 + 1)).2 hb1
          rcases List.mem_cons.1 hr with rfl | hr
          · omega
          · have := hpa r hr; omega
        · have ha1 : mem (p :: a') (q.2 + 1) := ⟨p, by simp, by omega, by omega⟩
          obtain ⟨r, hr, h1, h2⟩ := (h (q.2 + 1)).1 ha1
          rcases List.mem_cons.1 hr with rfl | hr
          · omega
          · have := hqb r hr; omega
      have hpq : p = q := Prod.ext e1 e2
      subst hpq
      have htail : ∀ x, mem a' x ↔ mem b' x := by
        intro x
        constructor
        · intro hx
          obtain ⟨r, hr, h1, h2⟩ := hx
          have hgt := hpa r hr
          rcases mem_cons.1 ((h x).1 ⟨r, by simp [hr], h1, h2⟩) with h' | h'
          · omega
          · exact h'
        · intro hx
          obtain ⟨r, hr, h1, h2⟩ := hx
          have hgt := hqb r hr
          rcases mem_cons.1 ((h x).2 ⟨r, by simp [hr], h1, h2⟩) with h' | h'
          · omega
          · exact h'
      rw [ih b' ha' hb' htail]

theorem equal_iff_of_inv {a b : MSet} (ha : Inv a) (hb : Inv b) :
    equal a b = .ok true ↔ ∀ x, mem a x ↔ mem b x := by
  obtain ⟨a1, a2⟩ := norm_spec ha
  obtain ⟨b1, b2⟩ := norm_spec hb
  rw [equal_eq]
  constructor
  · intro h x
    have h' : norm a = norm b := by simpa using h
    rw [← a1, ← b1, h']
  · intro h
    have : norm a = norm b := gapped_ext _ _ a2 b2 (fun x => by rw [a1, b1]; exact h x)
    simp [this]

/-! ### String -/

theorem mem_ivElems {lo hi x : Int} : x ∈ ivElems lo hi ↔ lo ≤ x ∧ x ≤ hi := by
  simp only [ivElems, List.mem_map, List.mem_range]
  constructor
  · rintro ⟨i, hi', rfl⟩; omega
  · intro h; exact ⟨(x - lo).toNat, by omega, by omega⟩

theorem ivElems_sorted (lo hi : Int) : (ivElems lo hi).Pairwise (· < ·) := by
  simp only [ivElems, List.pairwise_map]
  exact List.pairwise_lt_range.imp (fun h => by omega)

theorem ivElems_length {lo hi : Int} (h : lo ≤ hi) : ((ivElems lo hi).length : Int) = hi - lo + 1 := by
  simp [ivElems]; omega

theorem elems_spec {s : MSet} (hInv : Inv s) :
    ∃ l, elems s = .ok l ∧ l.Pairwise (· < ·) ∧ (∀ x, x ∈ l ↔ mem s x) ∧ (l.length : Int) = len s := by
  induction s with
  | nil => exact ⟨[], rfl, List.Pairwise.nil, by simp [mem_nil], by simp [len]⟩
  | cons p r ih =>
    obtain ⟨hp, hpr, hr⟩ := Inv.cons_iff.1 hInv
    obtain ⟨l, h1, h2, h3, h4⟩ := ih hr
    obtain ⟨lo, hi⟩ := p
    simp only at hp hpr
    refine ⟨ivElems lo hi ++ l, ?_, ?_, ?_, ?_⟩
    · simp only [elems, h1]
      rw [if_neg (by omega)]
    · refine List.pairwise_append.2 ⟨ivElems_sorted lo hi, h2, ?_⟩
      intro x hx y hy
      have := mem_ivElems.1 hx
      obtain ⟨q, hq, hq1, _⟩ := (h3 y).1 hy
      have := hpr q hq
      omega
    · intro x
      rw [List.mem_append, mem_ivElems, h3, mem_cons]
    · rw [List.length_append]; push_cast
      rw [ivElems_length hp.2.1, h4]; simp [len]

end PegVerif.MSet
