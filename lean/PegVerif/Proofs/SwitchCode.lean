import PegVerif.Proofs.CodeLemmas
import PegVerif.Proofs.CompileLemmas
/-
  `-switch`: the synthetic labels of a flattened `switch` (`slabel sw i`, `send sw`).

  * `SUniq code`            no two `slabel` with the same `(sw, i)`, no two `send` with the same `sw`
                            (the analogue of `Uniq` for `label`);
  * `slabelPos_of_suniq`,
    `sendPos_of_suniq`      the machine's lookups find the intended instruction;
  * `compile_sw`            the `compile` family allocates switch numbers in `[st.sw, st'.sw)`,
                            monotonically, every `(sw, i)` / `send sw` once;
  * `ruleFunc_suniq`        hence every emitted rule function is `SUniq`.
-/
namespace PegVerif

/-- `(sw, i)` of the case labels defined in a piece of code. -/
def slabelsOf (c : Code) : List (Nat × Nat) :=
  c.filterMap (fun i => match i with | .slabel sw k => some (sw, k) | _ => none)

/-- `sw` of the `send` markers in a piece of code. -/
def sendsOf (c : Code) : List Nat :=
  c.filterMap (fun i => match i with | .send sw => some sw | _ => none)

/-- Every case label and every switch end is defined at most once. -/
def SUniq (code : Code) : Prop := (slabelsOf code).Nodup ∧ (sendsOf code).Nodup

theorem slabelsOf_append (a b : Code) : slabelsOf (a ++ b) = slabelsOf a ++ slabelsOf b := by
  simp [slabelsOf, List.filterMap_append]

theorem sendsOf_append (a b : Code) : sendsOf (a ++ b) = sendsOf a ++ sendsOf b := by
  simp [sendsOf, List.filterMap_append]

theorem mem_slabelsOf {c : Code} {sw k : Nat} : (sw, k) ∈ slabelsOf c ↔ Instr.slabel sw k ∈ c := by
  simp only [slabelsOf, List.mem_filterMap]
  constructor
  · rintro ⟨i, hi, h⟩
    cases i <;> simp at h
    obtain ⟨h1, h2⟩ := h
    subst h1; subst h2; exact hi
  · intro h; exact ⟨_, h, rfl⟩

theorem mem_sendsOf {c : Code} {sw : Nat} : sw ∈ sendsOf c ↔ Instr.send sw ∈ c := by
  simp only [sendsOf, List.mem_filterMap]
  constructor
  · rintro ⟨i, hi, h⟩
    cases i <;> simp at h
    subst h; exact hi
  · intro h; exact ⟨_, h, rfl⟩

/-- `findIdx?` of an instruction that does not occur before the given occurrence. -/
theorem findIdx?_first {i : Instr} {pre post : Code} (h : i ∉ pre) :
    (pre ++ i :: post).findIdx? (· == i) = some pre.length := by
  rw [List.findIdx?_eq_some_iff_getElem]
  refine ⟨by simp, by simp, ?_⟩
  intro j hj
  simp only [List.getElem_append_left hj]
  intro hc
  apply h
  have : pre[j] = i := by simpa using hc
  rw [← this]; exact List.getElem_mem hj

theorem slabelPos_of_suniq {code pc sw k c} (hu : SUniq code)
    (h : CodeAt code pc (Instr.slabel sw k :: c)) : slabelPos code sw k = some pc := by
  obtain ⟨pre, post, rfl, rfl⟩ := h
  have hnot : Instr.slabel sw k ∉ pre := by
    intro hin
    have := hu.1
    simp only [List.append_assoc, slabelsOf_append, List.cons_append] at this
    have h1 : (sw, k) ∈ slabelsOf pre := mem_slabelsOf.mpr hin
    have h2 : (sw, k) ∈ slabelsOf (Instr.slabel sw k :: (c ++ post)) := mem_slabelsOf.mpr (by simp)
    exact (List.nodup_append.mp this).2.2 _ h1 _ h2 rfl
  unfold slabelPos
  simpa only [List.append_assoc, List.cons_append] using findIdx?_first (post := c ++ post) hnot

theorem sendPos_of_suniq {code pc sw c} (hu : SUniq code)
    (h : CodeAt code pc (Instr.send sw :: c)) : sendPos code sw = some pc := by
  obtain ⟨pre, post, rfl, rfl⟩ := h
  have hnot : Instr.send sw ∉ pre := by
    intro hin
    have := hu.2
    simp only [List.append_assoc, sendsOf_append, List.cons_append] at this
    have h1 : sw ∈ sendsOf pre := mem_sendsOf.mpr hin
    have h2 : sw ∈ sendsOf (Instr.send sw :: (c ++ post)) := mem_sendsOf.mpr (by simp)
    exact (List.nodup_append.mp this).2.2 _ h1 _ h2 rfl
  unfold sendPos
  simpa only [List.append_assoc, List.cons_append] using findIdx?_first (post := c ++ post) hnot

/-! ### Counting definitions -/

/-- Number of definitions of the case label `(a, b)` in `c`. -/
def slCnt (a b : Nat) (c : Code) : Nat := (slabelsOf c).count (a, b)

/-- Number of `send a` in `c`. -/
def seCnt (a : Nat) (c : Code) : Nat := (sendsOf c).count a

theorem slCnt_nil (a b : Nat) : slCnt a b [] = 0 := rfl
theorem seCnt_nil (a : Nat) : seCnt a [] = 0 := rfl

theorem slCnt_append (a b : Nat) (x y : Code) : slCnt a b (x ++ y) = slCnt a b x + slCnt a b y := by
  simp [slCnt, slabelsOf_append, List.count_append]

theorem seCnt_append (a : Nat) (x y : Code) : seCnt a (x ++ y) = seCnt a x + seCnt a y := by
  simp [seCnt, sendsOf_append, List.count_append]

theorem slCnt_cons' (a b : Nat) (i : Instr) (c : Code) :
    slCnt a b (i :: c) = match i with
      | .slabel sw k => (if sw = a ∧ k = b then 1 else 0) + slCnt a b c
      | _ => slCnt a b c := by
  cases i <;> simp [slCnt, slabelsOf, List.count_cons, Nat.add_comm]

theorem seCnt_cons' (a : Nat) (i : Instr) (c : Code) :
    seCnt a (i :: c) = match i with
      | .send sw => (if sw = a then 1 else 0) + seCnt a c
      | _ => seCnt a c := by
  cases i <;> simp [seCnt, sendsOf, List.count_cons, Nat.add_comm]

theorem slCnt_ite (a b : Nat) (p : Prop) [Decidable p] (x y : Code) :
    slCnt a b (if p then x else y) = if p then slCnt a b x else slCnt a b y := by
  split <;> rfl

theorem seCnt_ite (a : Nat) (p : Prop) [Decidable p] (x y : Code) :
    seCnt a (if p then x else y) = if p then seCnt a x else seCnt a y := by
  split <;> rfl

theorem slCnt_lbl (env : CEnv) (n a b : Nat) : slCnt a b (env.lbl n) = 0 := by
  unfold CEnv.lbl; split <;> rfl

theorem seCnt_lbl (env : CEnv) (n a : Nat) : seCnt a (env.lbl n) = 0 := by
  unfold CEnv.lbl; split <;> rfl

theorem slCnt_push (a b : Nat) (env : CEnv) (e : Expr) (r : String) (ko : Nat) (pd pmk : Bool) (st : CSt) :
    slCnt a b (compile env (.push e r) ko pd pmk st).code =
      slCnt a b (compile env e ko pd pmk ⟨st.label + 1, st.sw⟩).code := by
  cases e <;> simp only [compile, slCnt_append, slCnt_cons', slCnt_nil, slCnt_ite] <;> simp

theorem slCnt_ipush (a b : Nat) (env : CEnv) (e : Expr) (r : String) (ko : Nat) (pd pmk : Bool) (st : CSt) :
    slCnt a b (compile env (.ipush e r) ko pd pmk st).code =
      slCnt a b (compile env e ko pd pmk ⟨st.label + 1, st.sw⟩).code := by
  cases e <;> simp only [compile, slCnt_append, slCnt_cons', slCnt_nil, slCnt_ite] <;> simp

theorem seCnt_push (a : Nat) (env : CEnv) (e : Expr) (r : String) (ko : Nat) (pd pmk : Bool) (st : CSt) :
    seCnt a (compile env (.push e r) ko pd pmk st).code =
      seCnt a (compile env e ko pd pmk ⟨st.label + 1, st.sw⟩).code := by
  cases e <;> simp only [compile, seCnt_append, seCnt_cons', seCnt_nil, seCnt_ite] <;> simp

theorem seCnt_ipush (a : Nat) (env : CEnv) (e : Expr) (r : String) (ko : Nat) (pd pmk : Bool) (st : CSt) :
    seCnt a (compile env (.ipush e r) ko pd pmk st).code =
      seCnt a (compile env e ko pd pmk ⟨st.label + 1, st.sw⟩).code := by
  cases e <;> simp only [compile, seCnt_append, seCnt_cons', seCnt_nil, seCnt_ite] <;> simp

/-! ### Allocation of switch numbers -/

/-- At the pair `(a, b)`: the switch counter went from `lo` to `hi ≥ lo`, and `c` defines
    `slabel a b` / `send a` at most once, and only if `lo ≤ a < hi`. -/
def SwOK (c : Code) (lo hi a b : Nat) : Prop :=
  lo ≤ hi ∧ slCnt a b c ≤ 1 ∧ (slCnt a b c ≠ 0 → lo ≤ a ∧ a < hi) ∧
    seCnt a c ≤ 1 ∧ (seCnt a c ≠ 0 → lo ≤ a ∧ a < hi)

/-- The same for the case list of switch `sw` (allocated before `lo`), from case index `i` on: the
    case labels of `sw` itself are `(sw, j)` with `i ≤ j`; `send sw` is not part of the list. -/
def CasesOK (c : Code) (sw i lo hi a b : Nat) : Prop :=
  lo ≤ hi ∧ slCnt a b c ≤ 1 ∧ (slCnt a b c ≠ 0 → (a = sw ∧ i ≤ b) ∨ (lo ≤ a ∧ a < hi)) ∧
    seCnt a c ≤ 1 ∧ (seCnt a c ≠ 0 → lo ≤ a ∧ a < hi)

/-- Closes the counting goals once the recursive facts are in context. -/
macro "sw_close" : tactic =>
  `(tactic| (
    simp only [SwOK, CasesOK, compile, compileSeq, compileAlt, compileCases,
      slCnt_append, slCnt_cons', slCnt_nil, slCnt_ite, slCnt_lbl,
      seCnt_append, seCnt_cons', seCnt_nil, seCnt_ite, seCnt_lbl] at *
    repeat' split
    all_goals omega))

mutual
  theorem compile_sw (env : CEnv) : ∀ (e : Expr) (ko : Nat) (pd pmk : Bool) (st : CSt) (a b : Nat),
      SwOK (compile env e ko pd pmk st).code st.sw (compile env e ko pd pmk st).st.sw a b
    | .dot, ko, pd, pmk, st, a, b => by sw_close
    | .name n, ko, pd, pmk, st, a, b => by sw_close
    | .inl n e, ko, pd, pmk, st, a, b => by
      have h := compile_sw env e ko pd pmk st a b
      sw_close
    | .rng lo hi, ko, pd, pmk, st, a, b => by sw_close
    | .chr c, ko, pd, pmk, st, a, b => by sw_close
    | .str s, ko, pd, pmk, st, a, b => by sw_close
    | .pred c, ko, pd, pmk, st, a, b => by sw_close
    | .stmt c, ko, pd, pmk, st, a, b => by sw_close
    | .act c, ko, pd, pmk, st, a, b => by sw_close
    | .nil, ko, pd, pmk, st, a, b => by sw_close
    | .push e r, ko, pd, pmk, st, a, b => by
      have h := compile_sw env e ko pd pmk ⟨st.label + 1, st.sw⟩ a b
      unfold SwOK
      rw [slCnt_push, seCnt_push, compile_push_st]
      exact h
    | .ipush e r, ko, pd, pmk, st, a, b => by
      have h := compile_sw env e ko pd pmk ⟨st.label + 1, st.sw⟩ a b
      unfold SwOK
      rw [slCnt_ipush, seCnt_ipush, compile_ipush_st]
      exact h
    | .alt es, ko, pd, pmk, st, a, b => by
      have h := compileAlt_sw env es st.label ko pd pmk ⟨st.label + 1, st.sw⟩ a b
      sw_close
    | .ualt ks es, ko, pd, pmk, st, a, b => by
      have h := compileCases_sw env ks es st.sw 0 ko ⟨st.label + 1, st.sw + 1⟩ a b (Nat.lt_succ_self _)
      sw_close
    | .seq es, ko, pd, pmk, st, a, b => by
      have h := compileSeq_sw env es ko pd pmk st a b
      sw_close
    | .peekFor e, ko, pd, pmk, st, a, b => by
      have h := compile_sw env e ko false false ⟨st.label + 1, st.sw⟩ a b
      sw_close
    | .peekNot e, ko, pd, pmk, st, a, b => by
      have h := compile_sw env e st.label false false ⟨st.label + 1, st.sw⟩ a b
      sw_close
    | .query e, ko, pd, pmk, st, a, b => by
      have h := compile_sw env e st.label pd pmk ⟨st.label + 2, st.sw⟩ a b
      sw_close
    | .star e, ko, pd, pmk, st, a, b => by
      have h := compile_sw env e (st.label + 1) false false ⟨st.label + 2, st.sw⟩ a b
      sw_close
    | .plus e, ko, pd, pmk, st, a, b => by
      have h1 := compile_sw env e ko false false ⟨st.label + 2, st.sw⟩ a b
      have h2 := compile_sw env e (st.label + 1) false false
        (compile env e ko false false ⟨st.label + 2, st.sw⟩).st a b
      sw_close
  theorem compileSeq_sw (env : CEnv) : ∀ (es : List Expr) (ko : Nat) (pd pmk : Bool) (st : CSt) (a b : Nat),
      SwOK (compileSeq env es ko pd pmk st).code st.sw (compileSeq env es ko pd pmk st).st.sw a b
    | [], ko, pd, pmk, st, a, b => by sw_close
    | [e], ko, pd, pmk, st, a, b => by
      have h := compile_sw env e ko pd pmk st a b
      sw_close
    | e :: e' :: es, ko, pd, pmk, st, a, b => by
      have h1 := compile_sw env e ko pd pmk st a b
      have h2 := compileSeq_sw env (e' :: es) ko false false (compile env e ko pd pmk st).st a b
      sw_close
  theorem compileAlt_sw (env : CEnv) : ∀ (es : List Expr) (ok ko : Nat) (pd pmk : Bool) (st : CSt) (a b : Nat),
      SwOK (compileAlt env es ok ko pd pmk st).code st.sw (compileAlt env es ok ko pd pmk st).st.sw a b
    | [], ok, ko, pd, pmk, st, a, b => by sw_close
    | [e], ok, ko, pd, pmk, st, a, b => by
      have h := compile_sw env e ko pd pmk st a b
      sw_close
    | e :: e' :: es, ok, ko, pd, pmk, st, a, b => by
      have h1 := compile_sw env e st.label pd pmk ⟨st.label + 1, st.sw⟩ a b
      have h2 := compileAlt_sw env (e' :: es) ok ko false false
        (compile env e st.label pd pmk ⟨st.label + 1, st.sw⟩).st a b
      sw_close
  theorem compileCases_sw (env : CEnv) :
      ∀ (ks : List KeySet) (es : List Expr) (sw i done : Nat) (st : CSt) (a b : Nat), sw < st.sw →
      CasesOK (compileCases env ks es sw i done st).code sw i st.sw
        (compileCases env ks es sw i done st).st.sw a b
    | ks, [], sw, i, done, st, a, b, hsw => by sw_close
    | ks, [e], sw, i, done, st, a, b, hsw => by
      have h := compile_sw env e done false false st a b
      sw_close
    | ks, e :: e' :: es, sw, i, done, st, a, b, hsw => by
      have h1 := compile_sw env e done true (decide ((ks.headD []).card > 1)) st a b
      have h2 := compileCases_sw env ks.tail (e' :: es) sw (i + 1) done
        (compile env e done true (decide ((ks.headD []).card > 1)) st).st a b
        (Nat.lt_of_lt_of_le hsw h1.1)
      sw_close
end

theorem slCnt_ruleFunc (a b : Nat) (env : CEnv) (r : Rule) (e : Expr) (ko : Nat) (st : CSt) :
    slCnt a b (ruleFunc env r e ko st).1 = slCnt a b (compile env e ko false false st).code := by
  simp only [ruleFunc, slCnt_append, slCnt_cons', slCnt_nil, slCnt_ite]
  repeat' split
  all_goals simp

theorem seCnt_ruleFunc (a : Nat) (env : CEnv) (r : Rule) (e : Expr) (ko : Nat) (st : CSt) :
    seCnt a (ruleFunc env r e ko st).1 = seCnt a (compile env e ko false false st).code := by
  simp only [ruleFunc, seCnt_append, seCnt_cons', seCnt_nil, seCnt_ite]
  repeat' split
  all_goals simp

/-- The body of an emitted rule function defines every case label and switch end at most once. -/
theorem ruleFunc_suniq (env : CEnv) (r : Rule) (e : Expr) (ko : Nat) (st : CSt) :
    SUniq (ruleFunc env r e ko st).1 := by
  refine ⟨List.nodup_iff_count.mpr fun k => ?_, List.nodup_iff_count.mpr fun a => ?_⟩
  · obtain ⟨a, b⟩ := k
    have h := (compile_sw env e ko false false st a b).2.1
    have h3 := slCnt_ruleFunc a b env r e ko st
    unfold slCnt at h h3
    omega
  · have h := (compile_sw env e ko false false st a 0).2.2.2.1
    have h3 := seCnt_ruleFunc a env r e ko st
    unfold seCnt at h h3
    omega

end PegVerif
