import PegVerif.Model.SwitchSafe
import PegVerif.Proofs.TotalLemmas
/-
  Soundness of the `-switch` translation validator `swOK` (`Model/SwitchSafe.lean`):
  an accepted pair of grammars has the same outcomes (verdict, end position, derivation forest).
-/
namespace PegVerif

/-! ## 1. Key sets -/

theorem KeySet.has_iff {K : KeySet} {c : Nat} :
    K.has c = true ↔ ∃ r ∈ K, r.1 ≤ c ∧ c ≤ r.2 := by
  simp [KeySet.has, List.any_eq_true]

theorem KeySet.has_append {A B : KeySet} {c : Nat} :
    KeySet.has (A ++ B) c = (A.has c || B.has c) := by
  simp [KeySet.has, List.any_append]

theorem KeySet.disj_sound {A B : KeySet} (h : A.disj B = true) {c : Nat}
    (ha : A.has c = true) (hb : B.has c = true) : False := by
  obtain ⟨r, hr, hr1, hr2⟩ := KeySet.has_iff.mp ha
  obtain ⟨s, hs, hs1, hs2⟩ := KeySet.has_iff.mp hb
  simp only [KeySet.disj, List.all_eq_true, Bool.or_eq_true, decide_eq_true_eq] at h
  have := h r hr s hs
  omega

theorem KeySet.covers_sound {B : KeySet} : ∀ (f lo hi : Nat), B.covers f lo hi = true →
    ∀ c, lo ≤ c → c ≤ hi → B.has c = true
  | 0, _, _, h => by simp [KeySet.covers] at h
  | f + 1, lo, hi, h => by
    intro c h1 h2
    simp only [KeySet.covers] at h
    cases hf : B.find? (fun s => decide (s.1 ≤ lo) && decide (lo ≤ s.2)) with
    | none => simp [hf] at h
    | some s =>
      simp only [hf, Bool.or_eq_true, decide_eq_true_eq] at h
      have hm := List.mem_of_find?_eq_some hf
      have hp := List.find?_some hf
      simp only [Bool.and_eq_true, decide_eq_true_eq] at hp
      by_cases hc : c ≤ s.2
      · exact KeySet.has_iff.mpr ⟨s, hm, by omega, hc⟩
      · rcases h with h | h
        · omega
        · exact KeySet.covers_sound f _ _ h c (by omega) h2

theorem KeySet.sub_sound {A B : KeySet} (h : A.sub B = true) {c : Nat} (ha : A.has c = true) :
    B.has c = true := by
  obtain ⟨r, hr, hr1, hr2⟩ := KeySet.has_iff.mp ha
  simp only [KeySet.sub, List.all_eq_true, Bool.or_eq_true, decide_eq_true_eq] at h
  rcases h r hr with h | h
  · omega
  · exact KeySet.covers_sound _ _ _ h c hr1 hr2

/-! ## 2. The first sets are sound -/

theorem peek_of_some {inp : List Sym} {p : Nat} {c : Sym} (h : inp[p]? = some c) : peek inp p = c := by
  simp [peek, h]

/-- What `firstZ` promises. -/
def ZOK (inp : List Sym) (K : KeySet) (n : Bool) (p p' : Nat) : Prop :=
  K.has (peek inp p) = true ∨ (n = true ∧ p' = p)

theorem ZOK.mono {inp K K' n n' p p'} (h : ZOK inp K n p p')
    (hK : ∀ c, K.has c = true → K'.has c = true) (hn : n = true → n' = true) : ZOK inp K' n' p p' := by
  rcases h with h | ⟨h1, h2⟩
  · exact .inl (hK _ h)
  · exact .inr ⟨hn h1, h2⟩

/-- The first set of a choice contains that of every alternative (at a smaller fuel). -/
theorem firstZ_alt_mem {G : Grammar} : ∀ (es : List Expr) (f : Nat) (K : KeySet) (n : Bool),
    firstZ G f (.alt es) = some (K, n) → ∀ e ∈ es, ∃ f' K' n', f' < f ∧ firstZ G f' e = some (K', n') ∧
      (∀ c, K'.has c = true → K.has c = true) ∧ (n' = true → n = true)
  | [], _, _, _, _ => by intro e he; cases he
  | a :: rest, f, K, n, h => by
    intro e he
    cases f with
    | zero => simp [firstZ] at h
    | succ f =>
      simp only [firstZ] at h
      cases ha : firstZ G f a with
      | none => simp [ha] at h
      | some pa =>
        obtain ⟨K1, n1⟩ := pa
        cases hr : firstZ G f (.alt rest) with
        | none => simp [ha, hr] at h
        | some pr =>
          obtain ⟨K2, n2⟩ := pr
          simp only [ha, hr, Option.some.injEq, Prod.mk.injEq] at h
          obtain ⟨rfl, rfl⟩ := h
          rcases List.mem_cons.mp he with rfl | he
          · exact ⟨f, K1, n1, Nat.lt_succ_self _, ha, fun c hc => by simp [KeySet.has_append, hc],
              fun hn => by simp [hn]⟩
          · obtain ⟨f', K', n', hlt, hK', hsub, hnn⟩ := firstZ_alt_mem rest f K2 n2 hr e he
            exact ⟨f', K', n', by omega, hK', fun c hc => by simp [KeySet.has_append, hsub c hc],
              fun hn => by simp [hnn hn]⟩

/-- **Soundness of the first sets with nullability.** -/
theorem firstZ_sound {G : Grammar} {ρ : String → Nat → Bool} {inp : List Sym} :
    ∀ (f : Nat) (e : Expr) (K : KeySet) (n : Bool) (p p' : Nat) (fo : List TokTree) (evs : List Token),
      firstZ G f e = some (K, n) → Eval G ρ inp e p (.ok p' fo) evs → ZOK inp K n p p' := by
  intro f
  induction f using Nat.strongRecOn with
  | _ f IH =>
    intro e K n p p' fo evs hF hE
    cases f with
    | zero => simp [firstZ] at hF
    | succ f =>
      cases e with
      | chr c =>
        simp only [firstZ, Option.some.injEq, Prod.mk.injEq] at hF
        obtain ⟨rfl, rfl⟩ := hF
        cases hE with
        | chr_ok h => left; rw [peek_of_some h]; simp [KeySet.has]
      | rng lo hi =>
        simp only [firstZ, Option.some.injEq, Prod.mk.injEq] at hF
        obtain ⟨rfl, rfl⟩ := hF
        cases hE with
        | rng_ok h h1 h2 => left; rw [peek_of_some h]; simp [KeySet.has, h1, h2]
      | str s =>
        cases s with
        | nil => simp [firstZ] at hF
        | cons c s =>
          simp only [firstZ, Option.some.injEq, Prod.mk.injEq] at hF
          obtain ⟨rfl, rfl⟩ := hF
          cases hE with
          | str_ok h =>
            simp only [matchesAt, Bool.and_eq_true, decide_eq_true_eq, beq_iff_eq] at h
            have h1 : inp[p]? = some c := by
              have := congrArg (fun l => l[0]?) h.1
              simp only [List.length_cons, List.getElem?_cons_zero] at this
              rw [List.getElem?_take_of_lt (by omega), List.getElem?_drop] at this
              simpa using this
            left; rw [peek_of_some h1]; simp [KeySet.has]
      | name nm =>
        simp only [firstZ] at hF
        cases hE with
        | name hb he =>
          simp only [hb] at hF
          exact IH f (Nat.lt_succ_self _) _ _ _ _ _ _ _ hF he
      | inl nm e =>
        simp only [firstZ] at hF
        cases hE with
        | inl he => exact IH f (Nat.lt_succ_self _) _ _ _ _ _ _ _ hF he
      | seq es =>
        cases es with
        | nil =>
          simp only [firstZ, Option.some.injEq, Prod.mk.injEq] at hF
          obtain ⟨rfl, rfl⟩ := hF
          cases hE with
          | seq_nil => exact .inr ⟨rfl, rfl⟩
        | cons e es =>
          simp only [firstZ] at hF
          cases hE with
          | seq_ok h1 h2 =>
            cases he : firstZ G f e with
            | none => simp [he] at hF
            | some pe =>
              obtain ⟨K1, n1⟩ := pe
              have ih1 := IH f (Nat.lt_succ_self _) _ _ _ _ _ _ _ he h1
              cases n1 with
              | false =>
                simp only [he, Option.some.injEq, Prod.mk.injEq] at hF
                obtain ⟨rfl, rfl⟩ := hF
                rcases ih1 with h | ⟨h, _⟩
                · exact .inl h
                · cases h
              | true =>
                simp only [he] at hF
                cases hr : firstZ G f (.seq es) with
                | none => simp [hr] at hF
                | some pr =>
                  obtain ⟨K2, n2⟩ := pr
                  simp only [hr, Option.some.injEq, Prod.mk.injEq] at hF
                  obtain ⟨rfl, rfl⟩ := hF
                  rcases ih1 with h | ⟨_, hp⟩
                  · exact .inl (by simp [KeySet.has_append, h])
                  · subst hp
                    have ih2 := IH f (Nat.lt_succ_self _) _ _ _ _ _ _ _ hr h2
                    exact ih2.mono (fun c hc => by simp [KeySet.has_append, hc]) id
      | alt es =>
        cases es with
        | nil => cases hE
        | cons e es =>
          simp only [firstZ] at hF
          cases he : firstZ G f e with
          | none => simp [he] at hF
          | some pe =>
            obtain ⟨K1, n1⟩ := pe
            cases hr : firstZ G f (.alt es) with
            | none => simp [he, hr] at hF
            | some pr =>
              obtain ⟨K2, n2⟩ := pr
              simp only [he, hr, Option.some.injEq, Prod.mk.injEq] at hF
              obtain ⟨rfl, rfl⟩ := hF
              cases hE with
              | alt_last h1 =>
                exact (IH f (Nat.lt_succ_self _) _ _ _ _ _ _ _ he h1).mono
                  (fun c hc => by simp [KeySet.has_append, hc]) (fun h => by simp [h])
              | alt_ok h1 =>
                exact (IH f (Nat.lt_succ_self _) _ _ _ _ _ _ _ he h1).mono
                  (fun c hc => by simp [KeySet.has_append, hc]) (fun h => by simp [h])
              | alt_next _ h2 =>
                exact (IH f (Nat.lt_succ_self _) _ _ _ _ _ _ _ hr h2).mono
                  (fun c hc => by simp [KeySet.has_append, hc]) (fun h => by simp [h])
      | ualt ks es =>
        simp only [firstZ] at hF
        cases hE with
        | ualt hidx he =>
          obtain ⟨f', K', n', hlt, hK', hsub, hnn⟩ :=
            firstZ_alt_mem es f K n hF _ (List.mem_of_getElem? hidx)
          exact (IH f' (by omega) _ _ _ _ _ _ _ hK' he).mono hsub hnn
      | plus e =>
        simp only [firstZ] at hF
        cases he : firstZ G f e with
        | none => simp [he] at hF
        | some pe =>
          obtain ⟨K1, n1⟩ := pe
          cases n1 with
          | true => simp [he] at hF
          | false =>
            simp only [he, Option.some.injEq, Prod.mk.injEq] at hF
            obtain ⟨rfl, rfl⟩ := hF
            cases hE with
            | plus_ok h1 _ =>
              rcases IH f (Nat.lt_succ_self _) _ _ _ _ _ _ _ he h1 with h | ⟨h, _⟩
              · exact .inl h
              · cases h
      | query e =>
        simp only [firstZ] at hF
        cases he : firstZ G f e with
        | none => simp [he] at hF
        | some pe =>
          obtain ⟨K1, n1⟩ := pe
          simp only [he, Option.some.injEq, Prod.mk.injEq] at hF
          obtain ⟨rfl, rfl⟩ := hF
          cases hE with
          | query_ok h1 =>
            exact (IH f (Nat.lt_succ_self _) _ _ _ _ _ _ _ he h1).mono (fun _ hc => hc) (fun _ => rfl)
          | query_none _ => exact .inr ⟨rfl, rfl⟩
      | star e =>
        simp only [firstZ] at hF
        cases he : firstZ G f e with
        | none => simp [he] at hF
        | some pe =>
          obtain ⟨K1, n1⟩ := pe
          cases n1 with
          | true => simp [he] at hF
          | false =>
            simp only [he, Option.some.injEq, Prod.mk.injEq] at hF
            obtain ⟨rfl, rfl⟩ := hF
            cases hE with
            | star_stop _ => exact .inr ⟨rfl, rfl⟩
            | star_step h1 _ =>
              rcases IH f (Nat.lt_succ_self _) _ _ _ _ _ _ _ he h1 with h | ⟨h, _⟩
              · exact .inl h
              · cases h
      | peekFor e =>
        simp only [firstZ, Option.some.injEq, Prod.mk.injEq] at hF
        obtain ⟨rfl, rfl⟩ := hF
        cases hE with
        | peekFor_ok _ => exact .inr ⟨rfl, rfl⟩
      | peekNot e =>
        simp only [firstZ, Option.some.injEq, Prod.mk.injEq] at hF
        obtain ⟨rfl, rfl⟩ := hF
        cases hE with
        | peekNot_ok _ => exact .inr ⟨rfl, rfl⟩
      | pred c =>
        simp only [firstZ, Option.some.injEq, Prod.mk.injEq] at hF
        obtain ⟨rfl, rfl⟩ := hF
        cases hE with
        | pred_ok _ => exact .inr ⟨rfl, rfl⟩
      | stmt c =>
        simp only [firstZ, Option.some.injEq, Prod.mk.injEq] at hF
        obtain ⟨rfl, rfl⟩ := hF
        cases hE; exact .inr ⟨rfl, rfl⟩
      | act c =>
        simp only [firstZ, Option.some.injEq, Prod.mk.injEq] at hF
        obtain ⟨rfl, rfl⟩ := hF
        cases hE; exact .inr ⟨rfl, rfl⟩
      | nil =>
        simp only [firstZ, Option.some.injEq, Prod.mk.injEq] at hF
        obtain ⟨rfl, rfl⟩ := hF
        cases hE; exact .inr ⟨rfl, rfl⟩
      | push e r =>
        simp only [firstZ] at hF
        cases hE with
        | push_ok _ h1 => exact IH f (Nat.lt_succ_self _) _ _ _ _ _ _ _ hF h1
        | push_act =>
          cases f with
          | zero => simp [firstZ] at hF
          | succ f =>
            simp only [firstZ, Option.some.injEq, Prod.mk.injEq] at hF
            obtain ⟨rfl, rfl⟩ := hF
            exact .inr ⟨rfl, rfl⟩
      | ipush e r =>
        simp only [firstZ] at hF
        cases hE with
        | ipush_ok _ h1 => exact IH f (Nat.lt_succ_self _) _ _ _ _ _ _ _ hF h1
        | ipush_act =>
          cases f with
          | zero => simp [firstZ] at hF
          | succ f =>
            simp only [firstZ, Option.some.injEq, Prod.mk.injEq] at hF
            obtain ⟨rfl, rfl⟩ := hF
            exact .inr ⟨rfl, rfl⟩
      | dot => simp [firstZ] at hF

/-- **Soundness of the first sets**: an expression can only succeed where the next symbol (the end
    symbol beyond the input) is in its first set. -/
theorem firstE_sound {G : Grammar} {ρ : String → Nat → Bool} {inp : List Sym} :
    ∀ (f : Nat) (e : Expr) (K : KeySet) (p p' : Nat) (fo : List TokTree) (evs : List Token),
      firstE G f e = some K → Eval G ρ inp e p (.ok p' fo) evs → K.has (peek inp p) = true := by
  intro f e K p p' fo evs hF hE
  unfold firstE at hF
  cases hz : firstZ G f e with
  | none => simp [hz] at hF
  | some pz =>
    obtain ⟨K1, n1⟩ := pz
    cases n1 with
    | true => simp [hz] at hF
    | false =>
      simp only [hz, Option.some.injEq] at hF
      subst hF
      rcases firstZ_sound f e K1 false p p' fo evs hz hE with h | ⟨h, _⟩
      · exact h
      · cases h

/-! ## 3. Ordered choice, flattened -/

section Target
variable {G' : Grammar} {ρ : String → Nat → Bool} {inp : List Sym}

/-- `e` fails at `p`. -/
def FailsAt (G' : Grammar) (ρ : String → Nat → Bool) (inp : List Sym) (p : Nat) (e : Expr) : Prop :=
  ∃ evs, Eval G' ρ inp e p .fail evs

/-- An ordered choice succeeds with its first succeeding alternative, all earlier ones failing; or
    all fail. -/
theorem alt_inv : ∀ {es : List Expr} {p res evs}, Eval G' ρ inp (.alt es) p res evs →
    (∃ pre x post p1 f1 evs1, es = pre ++ x :: post ∧ res = .ok p1 f1 ∧
        Eval G' ρ inp x p (.ok p1 f1) evs1 ∧ ∀ y ∈ pre, FailsAt G' ρ inp p y) ∨
    (res = .fail ∧ ∀ y ∈ es, FailsAt G' ρ inp p y) := by
  intro es
  induction es with
  | nil => intro p res evs h; cases h
  | cons e es ih =>
    intro p res evs h
    cases es with
    | nil =>
      cases h with
      | alt_last he =>
        cases res with
        | ok p1 f1 =>
          exact Or.inl ⟨[], e, [], p1, f1, _, rfl, rfl, he, fun y hy => by cases hy⟩
        | fail =>
          refine Or.inr ⟨rfl, fun y hy => ?_⟩
          simp only [List.mem_singleton] at hy
          subst hy; exact ⟨_, he⟩
    | cons e' es =>
      cases h with
      | alt_ok he =>
        exact Or.inl ⟨[], e, e' :: es, _, _, _, rfl, rfl, he, fun y hy => by cases hy⟩
      | alt_next he h2 =>
        rcases ih h2 with ⟨pre, x, post, p1, f1, evs1, hes, hres, hx, hpre⟩ | ⟨hres, hall⟩
        · refine Or.inl ⟨e :: pre, x, post, p1, f1, evs1, by rw [hes]; rfl, hres, hx, fun y hy => ?_⟩
          rcases List.mem_cons.mp hy with rfl | hy
          · exact ⟨_, he⟩
          · exact hpre y hy
        · refine Or.inr ⟨hres, fun y hy => ?_⟩
          rcases List.mem_cons.mp hy with rfl | hy
          · exact ⟨_, he⟩
          · exact hall y hy

/-- Failing alternatives in front do not change the outcome. -/
theorem alt_prefix_fail : ∀ {pre : List Expr} {x : Expr} {post : List Expr} {p res evs},
    (∀ y ∈ pre, FailsAt G' ρ inp p y) → Eval G' ρ inp (.alt (x :: post)) p res evs →
    ∃ evs', Eval G' ρ inp (.alt (pre ++ x :: post)) p res evs'
  | [], _, _, _, _, _, _, h => ⟨_, h⟩
  | y :: pre, x, post, p, res, evs, hpre, h => by
    obtain ⟨evs1, h1⟩ := hpre y (by simp)
    obtain ⟨evs2, h2⟩ := alt_prefix_fail (pre := pre) (fun z hz => hpre z (by simp [hz])) h
    obtain ⟨z, zs, hz⟩ : ∃ z zs, pre ++ x :: post = z :: zs := by
      cases pre with
      | nil => exact ⟨_, _, rfl⟩
      | cons a as => exact ⟨_, _, rfl⟩
    rw [List.cons_append, hz]
    rw [hz] at h2
    exact ⟨_, .alt_next h1 h2⟩

/-! ## 4. The rearrangement -/

/-- `ts` (the alternatives in ORIGINAL order) is an interleaving of the ordered alternatives `os`
    (in order) with elements of `us`; whenever an unordered `u` is placed, every ordered alternative
    still to come — those the rewrite now tries BEFORE `u` — has a first set disjoint from `u`'s. -/
inductive Walk (F : Expr → Option KeySet) (us : List Expr) : List Expr → List Expr → Prop where
  | nil : Walk F us [] []
  | ord {o os ts} : Walk F us os ts → Walk F us (o :: os) (o :: ts)
  | un {u os ts} : u ∈ us → (∀ o ∈ os, disjF F o u = true) → Walk F us os ts →
      Walk F us os (u :: ts)

theorem walk_sound {F : Expr → Option KeySet} {us : List Expr} :
    ∀ (tags : List (Option Nat)) (os ts : List Expr), walk F us tags os = some ts → Walk F us os ts
  | [], [], ts, h => by simp [walk] at h; subst h; exact .nil
  | [], _ :: _, ts, h => by simp [walk] at h
  | none :: _, [], ts, h => by simp [walk] at h
  | none :: tags, o :: os, ts, h => by
    simp only [walk, Option.map_eq_some_iff] at h
    obtain ⟨ts', h', rfl⟩ := h
    exact .ord (walk_sound tags os ts' h')
  | some k :: tags, os, ts, h => by
    simp only [walk] at h
    cases hk : us[k]? with
    | none => simp [hk] at h
    | some u =>
      simp only [hk] at h
      by_cases hd : (os.all fun o => disjF F o u) = true
      · simp only [hd, if_true, Option.map_eq_some_iff] at h
        obtain ⟨ts', h', rfl⟩ := h
        exact .un (List.mem_of_getElem? hk) (fun o ho => List.all_eq_true.mp hd o ho)
          (walk_sound tags os ts' h')
      · simp [hd] at h

theorem Walk.mem_os {F us} : ∀ {os ts : List Expr}, Walk F us os ts → ∀ o ∈ os, o ∈ ts := by
  intro os ts h
  induction h with
  | nil => intro o ho; cases ho
  | ord _ ih =>
    intro o ho
    rcases List.mem_cons.mp ho with rfl | ho
    · simp
    · exact List.mem_cons_of_mem _ (ih o ho)
  | un _ _ _ ih => intro o ho; exact List.mem_cons_of_mem _ (ih o ho)

theorem Walk.mem_ts {F us} : ∀ {os ts : List Expr}, Walk F us os ts → ∀ t ∈ ts, t ∈ os ∨ t ∈ us := by
  intro os ts h
  induction h with
  | nil => intro t ht; cases ht
  | ord _ ih =>
    intro t ht
    rcases List.mem_cons.mp ht with rfl | ht
    · exact Or.inl (by simp)
    · rcases ih t ht with h | h
      · exact Or.inl (List.mem_cons_of_mem _ h)
      · exact Or.inr h
  | un hu _ _ ih =>
    intro t ht
    rcases List.mem_cons.mp ht with rfl | ht
    · exact Or.inr hu
    · exact ih t ht

/-- Where an original alternative `x` went: the ordered alternatives before it are among the
    original ones before it; and either `x` is the next ordered one, or it is a case of the switch
    and all remaining ordered ones are guarded against it. -/
theorem Walk.split {F us} : ∀ {os ts : List Expr}, Walk F us os ts →
    ∀ (pre : List Expr) (x : Expr) (post : List Expr), ts = pre ++ x :: post →
    ∃ opre opost, (∀ o ∈ opre, o ∈ pre) ∧
      (os = opre ++ x :: opost ∨
        (os = opre ++ opost ∧ x ∈ us ∧ ∀ o ∈ opost, disjF F o x = true)) := by
  intro os ts h
  induction h with
  | nil => intro pre x post h; cases pre <;> cases h
  | @ord o os ts _ ih =>
    intro pre x post h
    cases pre with
    | nil =>
      simp only [List.nil_append, List.cons.injEq] at h
      obtain ⟨rfl, rfl⟩ := h
      exact ⟨[], os, (fun _ ho => by cases ho), Or.inl rfl⟩
    | cons y pre =>
      simp only [List.cons_append, List.cons.injEq] at h
      obtain ⟨rfl, h⟩ := h
      obtain ⟨opre, opost, hop, hc⟩ := ih pre x post h
      refine ⟨o :: opre, opost, fun a ha => ?_, ?_⟩
      · rcases List.mem_cons.mp ha with rfl | ha
        · simp
        · exact List.mem_cons_of_mem _ (hop a ha)
      · rcases hc with hc | ⟨hc, hu, hd⟩
        · exact Or.inl (by rw [hc]; rfl)
        · exact Or.inr ⟨by rw [hc]; rfl, hu, hd⟩
  | @un u os ts hu hd _ ih =>
    intro pre x post h
    cases pre with
    | nil =>
      simp only [List.nil_append, List.cons.injEq] at h
      obtain ⟨rfl, rfl⟩ := h
      exact ⟨[], os, (fun _ ho => by cases ho), Or.inr ⟨rfl, hu, hd⟩⟩
    | cons y pre =>
      simp only [List.cons_append, List.cons.injEq] at h
      obtain ⟨rfl, h⟩ := h
      obtain ⟨opre, opost, hop, hc⟩ := ih pre x post h
      exact ⟨opre, opost, fun a ha => List.mem_cons_of_mem _ (hop a ha), hc⟩

/-- Case `k` is the one selected whenever its body can succeed. -/
def KeysSel (F : Expr → Option KeySet) (ks : List KeySet) (us : List Expr) : Prop :=
  ∀ k u, us[k]? = some u → ∃ K, F u = some K ∧
    ∀ c, K.has c = true → caseIdx (ks.take (us.length - 1)) c = k

theorem keysOKFrom_get {F : Expr → Option KeySet} {ks : List KeySet} {n : Nat} :
    ∀ (us : List Expr) (k0 i : Nat) (u : Expr), keysOKFrom F ks n k0 us = true → us[i]? = some u →
      keyOK F ks n (k0 + i) u = true
  | [], _, _, _, _, h => by simp at h
  | a :: us, k0, i, u, hk, h => by
    simp only [keysOKFrom, Bool.and_eq_true] at hk
    cases i with
    | zero =>
      simp only [List.getElem?_cons_zero, Option.some.injEq] at h
      subst h; exact hk.1
    | succ i =>
      simp only [List.getElem?_cons_succ] at h
      have := keysOKFrom_get us (k0 + 1) i u hk.2 h
      rwa [Nat.add_assoc, Nat.add_comm 1 i] at this

theorem keyOK_sel {F : Expr → Option KeySet} {ks : List KeySet} {n k : Nat} {u : Expr}
    (h : keyOK F ks n k u = true) (hk : k < n) (hn : n - 1 ≤ ks.length) :
    ∃ K, F u = some K ∧ ∀ c, K.has c = true → caseIdx (ks.take (n - 1)) c = k := by
  unfold keyOK at h
  cases hF : F u with
  | none => simp [hF] at h
  | some K =>
    simp only [hF, Bool.and_eq_true, Bool.or_eq_true, decide_eq_true_eq, List.all_eq_true] at h
    refine ⟨K, rfl, fun c hc => ?_⟩
    have hlen : (ks.take (n - 1)).length = n - 1 := by
      rw [List.length_take]; exact Nat.min_eq_left hn
    have hbefore : ∀ j (hj : j < (ks.take (n - 1)).length), j < k →
        KeySet.has ((ks.take (n - 1))[j]) c = false := by
      intro j hj hjk
      have hm : (ks.take (n - 1))[j] ∈ (ks.take (n - 1)).take k := by
        rw [List.mem_iff_getElem]
        refine ⟨j, by rw [List.length_take]; omega, ?_⟩
        rw [List.getElem_take]
      cases hh : KeySet.has ((ks.take (n - 1))[j]) c with
      | false => rfl
      | true => exact absurd (KeySet.disj_sound (h.2 _ hm) hc hh) id
    unfold caseIdx
    by_cases hkn : k = n - 1
    · have : (ks.take (n - 1)).findIdx? (fun ks => ks.has c) = none := by
        rw [List.findIdx?_eq_none_iff]
        intro x hx
        obtain ⟨j, hj, rfl⟩ := List.mem_iff_getElem.mp hx
        exact hbefore j hj (by omega)
      rw [this]; simp only; omega
    · rcases h.1 with h1 | h1
      · exact absurd h1 hkn
      · have hk' : k < n - 1 := by omega
        have hkk : ks[k]? = some (ks.take (n - 1))[k] := by
          rw [List.getElem_take]; exact List.getElem?_eq_getElem (by omega)
        rw [hkk] at h1
        simp only at h1
        have : (ks.take (n - 1)).findIdx? (fun ks => ks.has c) = some k := by
          rw [List.findIdx?_eq_some_iff_getElem]
          refine ⟨by omega, KeySet.sub_sound h1 hc, fun j hjk => ?_⟩
          have := hbefore j (by omega) hjk
          simpa [List.getElem_take] using this
        rw [this]

theorem keysOK_sel {F : Expr → Option KeySet} {ks : List KeySet} {us : List Expr}
    (h : keysOKFrom F ks us.length 0 us = true) (hn : us.length - 1 ≤ ks.length) :
    KeysSel F ks us := by
  intro k u hu
  have h1 := keysOKFrom_get us 0 k u h hu
  rw [Nat.zero_add] at h1
  have hk : k < us.length := (List.getElem?_eq_some_iff.mp hu).1
  exact keyOK_sel h1 hk hn

/-- What the checker establishes about a rewritten choice: `ts` = the targets in original order. -/
structure Rearr (F : Expr → Option KeySet) (ts os : List Expr) (ks : List KeySet) (us : List Expr) :
    Prop where
  walk : Walk F us os ts
  cover : ∀ u ∈ us, u ∈ ts
  keys : KeysSel F ks us
  ne : us ≠ []

/-- `F` is a sound first-set function for the target grammar on this input. -/
def SoundF (G' : Grammar) (ρ : String → Nat → Bool) (inp : List Sym) (F : Expr → Option KeySet) : Prop :=
  ∀ e K, F e = some K → ∀ p p' fo evs, Eval G' ρ inp e p (.ok p' fo) evs → K.has (peek inp p) = true

/-- **The rearrangement preserves the outcome** (purely on the target side): the ordered choice over
    `ts` and the ordered alternatives followed by the switch agree. -/
theorem rearr_eval {F : Expr → Option KeySet} (hwf : WFB G' = true) (hF : SoundF G' ρ inp F)
    {ts os : List Expr} {ks : List KeySet} {us : List Expr} (hr : Rearr F ts os ks us)
    (hw : ∀ t ∈ ts, WFE G' t) {p res evs} (h : Eval G' ρ inp (.alt ts) p res evs) :
    ∃ evs', Eval G' ρ inp (.alt (os ++ [.ualt ks us])) p res evs' := by
  rcases alt_inv h with ⟨pre, x, post, p1, f1, evs1, hts, hres, hx, hpre⟩ | ⟨hres, hall⟩
  · subst hres
    obtain ⟨opre, opost, hop, hsplit⟩ := hr.walk.split pre x post hts
    rcases hsplit with hos | ⟨hos, hxu, hdis⟩
    · -- `x` is still tried in order; what is tried before it was tried before it in `G`
      rw [hos, List.append_assoc, List.cons_append]
      obtain ⟨z, zs, hz⟩ : ∃ z zs, opost ++ [Expr.ualt ks us] = z :: zs := by
        cases opost with
        | nil => exact ⟨_, _, rfl⟩
        | cons a as => exact ⟨_, _, rfl⟩
      have h0 : Eval G' ρ inp (.alt (x :: z :: zs)) p (.ok p1 f1) evs1 := .alt_ok hx
      rw [← hz] at h0
      exact alt_prefix_fail (fun y hy => hpre y (hop y hy)) h0
    · -- `x` is a case of the switch: every ordered alternative fails, and `x` is selected
      have hosfail : ∀ o ∈ os, FailsAt G' ρ inp p o := by
        intro o ho
        rw [hos] at ho
        rcases List.mem_append.mp ho with ho1 | ho2
        · exact hpre o (hop o ho1)
        · have hot : o ∈ ts := hr.walk.mem_os o (by rw [hos]; exact List.mem_append_right _ ho2)
          obtain ⟨r, evo, heo⟩ := Eval_total_expr' (ρ := ρ) hwf (hw o hot) inp p
          cases r with
          | fail => exact ⟨_, heo⟩
          | ok p2 f2 =>
            exfalso
            have hd := hdis o ho2
            unfold disjF at hd
            cases hFo : F o with
            | none => simp [hFo] at hd
            | some A =>
              cases hFx : F x with
              | none => simp [hFo, hFx] at hd
              | some B =>
                simp only [hFo, hFx] at hd
                exact KeySet.disj_sound hd (hF o A hFo _ _ _ _ heo) (hF x B hFx _ _ _ _ hx)
      obtain ⟨k, hk⟩ := List.getElem?_of_mem hxu
      obtain ⟨K, hK, hsel⟩ := hr.keys k x hk
      have hidx := hsel _ (hF x K hK _ _ _ _ hx)
      have hU : Eval G' ρ inp (.ualt ks us) p (.ok p1 f1) evs1 := .ualt (by rw [hidx]; exact hk) hx
      exact alt_prefix_fail hosfail (.alt_last hU)
  · subst hres
    have hosfail : ∀ o ∈ os, FailsAt G' ρ inp p o := fun o ho => hall o (hr.walk.mem_os o ho)
    have hlt := ualt_case_lt ks hr.ne (peek inp p)
    obtain ⟨evu, heu⟩ := hall _ (hr.cover _ (List.getElem_mem hlt))
    have hU : Eval G' ρ inp (.ualt ks us) p .fail evu := .ualt (List.getElem?_eq_getElem hlt) heu
    exact alt_prefix_fail hosfail (.alt_last hU)

end Target

/-! ## 5. The relation the matcher decides -/

mutual
  /-- `e'` is `e` up to rewriting ordered choices into switches that satisfy `Rearr`. -/
  inductive Sw (F : Expr → Option KeySet) : Expr → Expr → Prop where
    | dot : Sw F .dot .dot
    | chr {c} : Sw F (.chr c) (.chr c)
    | rng {lo hi} : Sw F (.rng lo hi) (.rng lo hi)
    | str {s} : Sw F (.str s) (.str s)
    | name {n} : Sw F (.name n) (.name n)
    | inl {n e e'} : Sw F e e' → Sw F (.inl n e) (.inl n e')
    | pred {c} : Sw F (.pred c) (.pred c)
    | stmt {c} : Sw F (.stmt c) (.stmt c)
    | act {c} : Sw F (.act c) (.act c)
    | nil : Sw F .nil .nil
    | seq {es es'} : SwL F es es' → Sw F (.seq es) (.seq es')
    | alt {es es'} : SwL F es es' → Sw F (.alt es) (.alt es')
    | ualt {ks es es'} : SwL F es es' → Sw F (.ualt ks es) (.ualt ks es')
    | peekFor {e e'} : Sw F e e' → Sw F (.peekFor e) (.peekFor e')
    | peekNot {e e'} : Sw F e e' → Sw F (.peekNot e) (.peekNot e')
    | query {e e'} : Sw F e e' → Sw F (.query e) (.query e')
    | star {e e'} : Sw F e e' → Sw F (.star e) (.star e')
    | plus {e e'} : Sw F e e' → Sw F (.plus e) (.plus e')
    | push {e e' r} : Sw F e e' → Sw F (.push e r) (.push e' r)
    | ipush {e e' r} : Sw F e e' → Sw F (.ipush e r) (.ipush e' r)
    /-- ordered alternatives followed by a switch -/
    | sw {es ts os ks us} : SwL F es ts → Rearr F ts os ks us →
        Sw F (.alt es) (.alt (os ++ [.ualt ks us]))
    /-- a switch alone -/
    | sw0 {es ts ks us} : SwL F es ts → Rearr F ts [] ks us → Sw F (.alt es) (.ualt ks us)
  inductive SwL (F : Expr → Option KeySet) : List Expr → List Expr → Prop where
    | nil : SwL F [] []
    | cons {e e' es es'} : Sw F e e' → SwL F es es' → SwL F (e :: es) (e' :: es')
end

theorem Sw.isAct {F} {e e' : Expr} (h : Sw F e e') : e.isAct = e'.isAct := by
  cases h <;> rfl

theorem SwL.length {F} : ∀ {es es' : List Expr}, SwL F es es' → es.length = es'.length
  | [], _, h => by cases h; rfl
  | _ :: es, _, h => by
    cases h with
    | cons _ h2 => simp [SwL.length h2]

theorem SwL.get {F} : ∀ {es es' : List Expr} {i : Nat} {e : Expr}, SwL F es es' →
    es[i]? = some e → ∃ e', es'[i]? = some e' ∧ Sw F e e'
  | [], _, _, _, _, hi => by simp at hi
  | a :: es, _, i, e, h, hi => by
    cases h with
    | cons h1 h2 =>
      cases i with
      | zero =>
        simp only [List.getElem?_cons_zero, Option.some.injEq] at hi
        subst hi
        exact ⟨_, by simp, h1⟩
      | succ j =>
        simp only [List.getElem?_cons_succ] at hi
        obtain ⟨e', he', hx⟩ := SwL.get h2 hi
        exact ⟨e', by simpa using he', hx⟩

theorem splitLast_eq : ∀ {es os : List Expr} {l : Expr}, splitLast es = some (os, l) → es = os ++ [l]
  | [], _, _, h => by simp [splitLast] at h
  | [e], _, _, h => by
    simp only [splitLast, Option.some.injEq, Prod.mk.injEq] at h
    obtain ⟨rfl, rfl⟩ := h; rfl
  | e :: e' :: es, os, l, h => by
    simp only [splitLast, Option.map_eq_some_iff, Prod.mk.injEq] at h
    obtain ⟨⟨os', l'⟩, h', rfl, rfl⟩ := h
    rw [splitLast_eq h']; rfl

theorem rearrCheck_sound {F : Expr → Option KeySet} {n : Nat} {os : List Expr} {ks : List KeySet}
    {us : List Expr} {M : List (List Bool)} {m : List Expr → Bool}
    (h : rearrCheck F n os ks us M m = true) : ∃ ts, m ts = true ∧ Rearr F ts os ks us := by
  unfold rearrCheck at h
  cases hft : findTags os.length us.length M 0 [] with
  | none => simp [hft] at h
  | some tags =>
    simp only [hft] at h
    cases hwk : walk F us tags os with
    | none => simp [hwk] at h
    | some ts =>
      simp only [hwk, Bool.and_eq_true, Bool.not_eq_true', List.isEmpty_eq_false_iff,
        decide_eq_true_eq, List.all_eq_true, List.mem_range] at h
      obtain ⟨⟨⟨⟨⟨hm, hne⟩, hlen⟩, _⟩, hcov⟩, hkeys⟩ := h
      refine ⟨ts, hm, walk_sound _ _ _ hwk, ?_, keysOK_sel hkeys hlen, hne⟩
      -- coverage: every case is the target of some original alternative
      intro u hu
      obtain ⟨k, hk⟩ := List.getElem?_of_mem hu
      have hklt : k < us.length := (List.getElem?_eq_some_iff.mp hk).1
      have htag : (some k) ∈ tags := by simpa using hcov k hklt
      -- a tag `some k` in the walk puts `us[k]` into `ts`
      have key : ∀ (tags : List (Option Nat)) (os ts : List Expr), walk F us tags os = some ts →
          some k ∈ tags → u ∈ ts := by
        intro tags
        induction tags with
        | nil => intro os ts _ hmem; cases hmem
        | cons t tags ih =>
          intro os ts hw hmem
          cases t with
          | none =>
            cases os with
            | nil => simp [walk] at hw
            | cons o os =>
              simp only [walk, Option.map_eq_some_iff] at hw
              obtain ⟨ts', hw', rfl⟩ := hw
              rcases List.mem_cons.mp hmem with h0 | hmem
              · cases h0
              · exact List.mem_cons_of_mem _ (ih os ts' hw' hmem)
          | some j =>
            simp only [walk] at hw
            cases hj : us[j]? with
            | none => simp [hj] at hw
            | some uj =>
              simp only [hj] at hw
              by_cases hd : (os.all fun o => disjF F o uj) = true
              · simp only [hd, if_true, Option.map_eq_some_iff] at hw
                obtain ⟨ts', hw', rfl⟩ := hw
                rcases List.mem_cons.mp hmem with h0 | hmem
                · cases h0
                  rw [hk] at hj; cases hj
                  simp
                · exact List.mem_cons_of_mem _ (ih os ts' hw' hmem)
              · simp [hd] at hw
      exact key tags os ts hwk htag

mutual
  theorem swMatchE_sound (F : Expr → Option KeySet) :
      ∀ (e e' : Expr), swMatchE F e e' = true → Sw F e e'
    | .dot, e', h => by cases e' <;> simp [swMatchE] at h; exact .dot
    | .chr c, e', h => by cases e' <;> simp [swMatchE] at h; subst h; exact .chr
    | .rng lo hi, e', h => by
      cases e' <;> simp [swMatchE] at h
      obtain ⟨rfl, rfl⟩ := h; exact .rng
    | .str s, e', h => by cases e' <;> simp [swMatchE] at h; subst h; exact .str
    | .name n, e', h => by cases e' <;> simp [swMatchE] at h; subst h; exact .name
    | .pred c, e', h => by cases e' <;> simp [swMatchE] at h; subst h; exact .pred
    | .stmt c, e', h => by cases e' <;> simp [swMatchE] at h; subst h; exact .stmt
    | .act c, e', h => by cases e' <;> simp [swMatchE] at h; subst h; exact .act
    | .nil, e', h => by cases e' <;> simp [swMatchE] at h; exact .nil
    | .inl n e, e', h => by
      cases e' with
      | inl n' e1 =>
        simp only [swMatchE, Bool.and_eq_true, beq_iff_eq] at h
        obtain ⟨rfl, h⟩ := h
        exact .inl (swMatchE_sound F e e1 h)
      | _ => simp [swMatchE] at h
    | .seq es, e', h => by
      cases e' with
      | seq es' => simp only [swMatchE] at h; exact .seq (swMatchL_sound F es es' h)
      | _ => simp [swMatchE] at h
    | .ualt ks es, e', h => by
      cases e' with
      | ualt ks' es' =>
        simp only [swMatchE, Bool.and_eq_true, beq_iff_eq] at h
        obtain ⟨rfl, h⟩ := h
        exact .ualt (swMatchL_sound F es es' h)
      | _ => simp [swMatchE] at h
    | .peekFor e, e', h => by
      cases e' with
      | peekFor e1 => simp only [swMatchE] at h; exact .peekFor (swMatchE_sound F e e1 h)
      | _ => simp [swMatchE] at h
    | .peekNot e, e', h => by
      cases e' with
      | peekNot e1 => simp only [swMatchE] at h; exact .peekNot (swMatchE_sound F e e1 h)
      | _ => simp [swMatchE] at h
    | .query e, e', h => by
      cases e' with
      | query e1 => simp only [swMatchE] at h; exact .query (swMatchE_sound F e e1 h)
      | _ => simp [swMatchE] at h
    | .star e, e', h => by
      cases e' with
      | star e1 => simp only [swMatchE] at h; exact .star (swMatchE_sound F e e1 h)
      | _ => simp [swMatchE] at h
    | .plus e, e', h => by
      cases e' with
      | plus e1 => simp only [swMatchE] at h; exact .plus (swMatchE_sound F e e1 h)
      | _ => simp [swMatchE] at h
    | .push e r, e', h => by
      cases e' with
      | push e1 r' =>
        simp only [swMatchE, Bool.and_eq_true, beq_iff_eq] at h
        obtain ⟨rfl, h⟩ := h
        exact .push (swMatchE_sound F e e1 h)
      | _ => simp [swMatchE] at h
    | .ipush e r, e', h => by
      cases e' with
      | ipush e1 r' =>
        simp only [swMatchE, Bool.and_eq_true, beq_iff_eq] at h
        obtain ⟨rfl, h⟩ := h
        exact .ipush (swMatchE_sound F e e1 h)
      | _ => simp [swMatchE] at h
    | .alt es, e', h => by
      cases e' with
      | alt es' =>
        simp only [swMatchE, Bool.or_eq_true] at h
        rcases h with h | h
        · exact .alt (swMatchL_sound F es es' h)
        · cases hsl : splitLast es' with
          | none => simp [hsl] at h
          | some pr =>
            obtain ⟨os, l⟩ := pr
            cases l with
            | ualt ks us =>
              simp only [hsl] at h
              obtain ⟨ts, hm, hr⟩ := rearrCheck_sound h
              rw [splitLast_eq hsl]
              exact .sw (swMatchL_sound F es ts hm) hr
            | _ => simp [hsl] at h
      | ualt ks us =>
        simp only [swMatchE] at h
        obtain ⟨ts, hm, hr⟩ := rearrCheck_sound h
        exact .sw0 (swMatchL_sound F es ts hm) hr
      | _ => simp [swMatchE] at h
  theorem swMatchL_sound (F : Expr → Option KeySet) :
      ∀ (es es' : List Expr), swMatchL F es es' = true → SwL F es es'
    | [], es', h => by cases es' <;> simp [swMatchL] at h; exact .nil
    | e :: es, es', h => by
      cases es' with
      | nil => simp [swMatchL] at h
      | cons e' es' =>
        simp only [swMatchL, Bool.and_eq_true] at h
        exact .cons (swMatchE_sound F e e' h.1) (swMatchL_sound F es es' h.2)
end

/-! ## 6. Related expressions have the same outcome -/

/-- Every proper sub-expression is in Ford's WF of the target grammar (what is inherited down a
    derivation; the expression itself may be a tail of a sequence or choice). -/
def WFS (G' : Grammar) (e : Expr) : Prop := subsB G' (nullSet G') (wfFuel G') e = true

section Main
variable {G G' : Grammar} {ρ : String → Nat → Bool} {inp : List Sym} {F : Expr → Option KeySet}

/-- From a derivation for the choice over the targets in original order to one for whatever the
    choice was rewritten into. -/
theorem sw_alt_finish (hwf : WFB G' = true) (hF : SoundF G' ρ inp F) {es : List Expr} {e' : Expr}
    (hx : Sw F (.alt es) e') (hs : WFS G' e') {p res}
    (hcore : ∀ ts, SwL F es ts → (∀ t ∈ ts, WFE G' t) → ∃ evs', Eval G' ρ inp (.alt ts) p res evs') :
    ∃ evs', Eval G' ρ inp e' p res evs' := by
  unfold WFS at hs
  cases hx with
  | alt hl =>
    simp only [subsB] at hs
    exact hcore _ hl (subsL_mem hs)
  | @sw _ ts os ks us hl hr =>
    simp only [subsB] at hs
    have hall := subsL_mem hs
    have hU := hall (.ualt ks us) (by simp)
    have hus := subsL_mem (by simpa [subsB] using hU.2)
    have hw : ∀ t ∈ ts, WFE G' t := by
      intro t ht
      rcases hr.walk.mem_ts t ht with h | h
      · exact hall t (List.mem_append_left _ h)
      · exact hus t h
    obtain ⟨evs1, h1⟩ := hcore ts hl hw
    exact rearr_eval hwf hF hr hw h1
  | @sw0 _ ts ks us hl hr =>
    simp only [subsB] at hs
    have hus := subsL_mem hs
    have hw : ∀ t ∈ ts, WFE G' t := by
      intro t ht
      rcases hr.walk.mem_ts t ht with h | h
      · cases h
      · exact hus t h
    obtain ⟨evs1, h1⟩ := hcore ts hl hw
    obtain ⟨evs2, h2⟩ := rearr_eval hwf hF hr hw h1
    cases h2 with
    | alt_last h3 => exact ⟨_, h3⟩

/-- Bodies of equally named rules are related, and every target body is well-formed. -/
def BodiesSw (F : Expr → Option KeySet) (G G' : Grammar) : Prop :=
  ∀ n b, G.body n = some b → ∃ b', G'.body n = some b' ∧ Sw F b b'

/-- **Related expressions have the same outcome** (verdict, end position, forest). -/
theorem Eval_sw (hwf : WFB G' = true) (hF : SoundF G' ρ inp F) (hB : BodiesSw F G G')
    {e p res evs} (h : Eval G ρ inp e p res evs) :
    ∀ {e'}, Sw F e e' → WFS G' e' → ∃ evs', Eval G' ρ inp e' p res evs' := by
  induction h with
  | dot_ok h => intro e' hx _; cases hx; exact ⟨_, .dot_ok h⟩
  | dot_fail h => intro e' hx _; cases hx; exact ⟨_, .dot_fail h⟩
  | chr_ok h => intro e' hx _; cases hx; exact ⟨_, .chr_ok h⟩
  | chr_fail h => intro e' hx _; cases hx; exact ⟨_, .chr_fail h⟩
  | rng_ok h h1 h2 => intro e' hx _; cases hx; exact ⟨_, .rng_ok h h1 h2⟩
  | rng_fail h => intro e' hx _; cases hx; exact ⟨_, .rng_fail h⟩
  | str_ok h => intro e' hx _; cases hx; exact ⟨_, .str_ok h⟩
  | str_fail h => intro e' hx _; cases hx; exact ⟨_, .str_fail h⟩
  | name hb _ ih =>
    intro e' hx _
    cases hx with
    | name =>
      obtain ⟨b', hb', hx'⟩ := hB _ _ hb
      obtain ⟨evs', h'⟩ := ih hx' (WFB_body hwf hb').2
      exact ⟨_, .name hb' h'⟩
  | inl _ ih =>
    intro e' hx hs
    cases hx with
    | inl hx' =>
      simp only [WFS, subsB, Bool.and_eq_true] at hs
      obtain ⟨evs', h'⟩ := ih hx' hs.2
      exact ⟨_, .inl h'⟩
  | pred_ok h => intro e' hx _; cases hx; exact ⟨_, .pred_ok h⟩
  | pred_fail h => intro e' hx _; cases hx; exact ⟨_, .pred_fail h⟩
  | stmt => intro e' hx _; cases hx; exact ⟨_, .stmt⟩
  | act => intro e' hx _; cases hx; exact ⟨_, .act⟩
  | nil => intro e' hx _; cases hx; exact ⟨_, .nil⟩
  | seq_nil => intro e' hx _; cases hx with | seq hl => cases hl; exact ⟨_, .seq_nil⟩
  | seq_fail _ ih =>
    intro e' hx hs
    cases hx with
    | seq hl =>
      cases hl with
      | cons h1 h2 =>
        simp only [WFS, subsB, subsL, Bool.and_eq_true] at hs
        obtain ⟨_, h'⟩ := ih h1 hs.1.2
        exact ⟨_, .seq_fail h'⟩
  | seq_ok_fail _ _ ih1 ih2 =>
    intro e' hx hs
    cases hx with
    | seq hl =>
      cases hl with
      | cons h1 h2 =>
        simp only [WFS, subsB, subsL, Bool.and_eq_true] at hs
        obtain ⟨_, h1'⟩ := ih1 h1 hs.1.2
        obtain ⟨_, h2'⟩ := ih2 (.seq h2) (by simpa [WFS, subsB] using hs.2)
        exact ⟨_, .seq_ok_fail h1' h2'⟩
  | seq_ok _ _ ih1 ih2 =>
    intro e' hx hs
    cases hx with
    | seq hl =>
      cases hl with
      | cons h1 h2 =>
        simp only [WFS, subsB, subsL, Bool.and_eq_true] at hs
        obtain ⟨_, h1'⟩ := ih1 h1 hs.1.2
        obtain ⟨_, h2'⟩ := ih2 (.seq h2) (by simpa [WFS, subsB] using hs.2)
        exact ⟨_, .seq_ok h1' h2'⟩
  | alt_last _ ih =>
    intro e' hx hs
    refine sw_alt_finish hwf hF hx hs (fun ts hl hw => ?_)
    cases hl with
    | cons h1 h2 =>
      cases h2
      obtain ⟨_, h'⟩ := ih h1 (hw _ (by simp)).2
      exact ⟨_, .alt_last h'⟩
  | alt_ok _ ih =>
    intro e' hx hs
    refine sw_alt_finish hwf hF hx hs (fun ts hl hw => ?_)
    cases hl with
    | cons h1 h2 =>
      cases h2 with
      | cons h3 h4 =>
        obtain ⟨_, h'⟩ := ih h1 (hw _ (by simp)).2
        exact ⟨_, .alt_ok h'⟩
  | alt_next _ _ ih1 ih2 =>
    intro e' hx hs
    refine sw_alt_finish hwf hF hx hs (fun ts hl hw => ?_)
    cases hl with
    | cons h1 h2 =>
      cases h2 with
      | @cons _ t2 _ ts2 h3 h4 =>
        obtain ⟨_, h1'⟩ := ih1 h1 (hw _ (by simp)).2
        have hs2 : WFS G' (.alt (t2 :: ts2)) := by
          unfold WFS
          simp only [subsB]
          have : ∀ (l : List Expr), (∀ t ∈ l, WFE G' t) →
              subsL G' (nullSet G') (wfFuel G') l = true := by
            intro l
            induction l with
            | nil => intro _; rfl
            | cons a l ihl =>
              intro hl
              simp only [subsL, Bool.and_eq_true]
              exact ⟨hl a (by simp), ihl (fun t ht => hl t (by simp [ht]))⟩
          exact this _ (fun t ht => hw t (List.mem_cons_of_mem _ ht))
        obtain ⟨_, h2'⟩ := ih2 (.alt (.cons h3 h4)) hs2
        exact ⟨_, .alt_next h1' h2'⟩
  | ualt hidx _ ih =>
    intro e' hx hs
    cases hx with
    | ualt hl =>
      obtain ⟨e1, he1, hx1⟩ := hl.get hidx
      simp only [WFS, subsB] at hs
      obtain ⟨_, h'⟩ := ih hx1 (subsL_mem hs _ (List.mem_of_getElem? he1)).2
      refine ⟨_, .ualt ?_ h'⟩
      rw [← hl.length]; exact he1
  | peekFor_ok _ ih =>
    intro e' hx hs
    cases hx with
    | peekFor hx' =>
      simp only [WFS, subsB, Bool.and_eq_true] at hs
      obtain ⟨_, h'⟩ := ih hx' hs.2
      exact ⟨_, .peekFor_ok h'⟩
  | peekFor_fail _ ih =>
    intro e' hx hs
    cases hx with
    | peekFor hx' =>
      simp only [WFS, subsB, Bool.and_eq_true] at hs
      obtain ⟨_, h'⟩ := ih hx' hs.2
      exact ⟨_, .peekFor_fail h'⟩
  | peekNot_ok _ ih =>
    intro e' hx hs
    cases hx with
    | peekNot hx' =>
      simp only [WFS, subsB, Bool.and_eq_true] at hs
      obtain ⟨_, h'⟩ := ih hx' hs.2
      exact ⟨_, .peekNot_ok h'⟩
  | peekNot_fail _ ih =>
    intro e' hx hs
    cases hx with
    | peekNot hx' =>
      simp only [WFS, subsB, Bool.and_eq_true] at hs
      obtain ⟨_, h'⟩ := ih hx' hs.2
      exact ⟨_, .peekNot_fail h'⟩
  | query_ok _ ih =>
    intro e' hx hs
    cases hx with
    | query hx' =>
      simp only [WFS, subsB, Bool.and_eq_true] at hs
      obtain ⟨_, h'⟩ := ih hx' hs.2
      exact ⟨_, .query_ok h'⟩
  | query_none _ ih =>
    intro e' hx hs
    cases hx with
    | query hx' =>
      simp only [WFS, subsB, Bool.and_eq_true] at hs
      obtain ⟨_, h'⟩ := ih hx' hs.2
      exact ⟨_, .query_none h'⟩
  | star_stop _ ih =>
    intro e' hx hs
    cases hx with
    | star hx' =>
      simp only [WFS, subsB, Bool.and_eq_true] at hs
      obtain ⟨_, h'⟩ := ih hx' hs.2
      exact ⟨_, .star_stop h'⟩
  | star_step _ _ ih1 ih2 =>
    intro e' hx hs
    cases hx with
    | star hx' =>
      have hs0 := hs
      simp only [WFS, subsB, Bool.and_eq_true] at hs
      obtain ⟨_, h1'⟩ := ih1 hx' hs.2
      obtain ⟨_, h2'⟩ := ih2 (.star hx') hs0
      exact ⟨_, .star_step h1' h2'⟩
  | plus_fail _ ih =>
    intro e' hx hs
    cases hx with
    | plus hx' =>
      simp only [WFS, subsB, Bool.and_eq_true] at hs
      obtain ⟨_, h'⟩ := ih hx' hs.2
      exact ⟨_, .plus_fail h'⟩
  | plus_ok _ _ ih1 ih2 =>
    intro e' hx hs
    cases hx with
    | @plus _ e1' hx' =>
      have hs0 : WFS G' (.star e1') := by simpa [WFS, subsB] using hs
      simp only [WFS, subsB, Bool.and_eq_true] at hs
      obtain ⟨_, h1'⟩ := ih1 hx' hs.2
      obtain ⟨_, h2'⟩ := ih2 (.star hx') hs0
      exact ⟨_, .plus_ok h1' h2'⟩
  | push_ok ha _ ih =>
    intro e' hx hs
    cases hx with
    | push hx' =>
      simp only [WFS, subsB, Bool.and_eq_true] at hs
      obtain ⟨_, h'⟩ := ih hx' hs.2
      exact ⟨_, .push_ok (by rw [← hx'.isAct]; exact ha) h'⟩
  | push_fail ha _ ih =>
    intro e' hx hs
    cases hx with
    | push hx' =>
      simp only [WFS, subsB, Bool.and_eq_true] at hs
      obtain ⟨_, h'⟩ := ih hx' hs.2
      exact ⟨_, .push_fail (by rw [← hx'.isAct]; exact ha) h'⟩
  | push_act => intro e' hx _; cases hx with | push hx' => cases hx'; exact ⟨_, .push_act⟩
  | ipush_ok ha _ ih =>
    intro e' hx hs
    cases hx with
    | ipush hx' =>
      simp only [WFS, subsB, Bool.and_eq_true] at hs
      obtain ⟨_, h'⟩ := ih hx' hs.2
      exact ⟨_, .ipush_ok (by rw [← hx'.isAct]; exact ha) h'⟩
  | ipush_fail ha _ ih =>
    intro e' hx hs
    cases hx with
    | ipush hx' =>
      simp only [WFS, subsB, Bool.and_eq_true] at hs
      obtain ⟨_, h'⟩ := ih hx' hs.2
      exact ⟨_, .ipush_fail (by rw [← hx'.isAct]; exact ha) h'⟩
  | ipush_act => intro e' hx _; cases hx with | ipush hx' => cases hx'; exact ⟨_, .ipush_act⟩

end Main

/-! ## 7. The grammar-level theorems -/

theorem swRules_find {F : Expr → Option KeySet} (n : String) :
    ∀ (rs rs' : List Rule), swRules F rs rs' = true →
      (∀ r, rs.find? (fun r => r.name == n) = some r →
        ∃ r', rs'.find? (fun r => r.name == n) = some r' ∧ swMatchE F r.body r'.body = true) ∧
      (∀ r', rs'.find? (fun r => r.name == n) = some r' →
        ∃ r, rs.find? (fun r => r.name == n) = some r)
  | [], rs', h => by
    cases rs' with
    | nil => exact ⟨fun r hr => by simp at hr, fun r hr => by simp at hr⟩
    | cons _ _ => simp [swRules] at h
  | a :: rs, rs', h => by
    cases rs' with
    | nil => simp [swRules] at h
    | cons a' rs' =>
      simp only [swRules, Bool.and_eq_true, beq_iff_eq] at h
      obtain ⟨⟨⟨hn, _⟩, hm⟩, hrest⟩ := h
      have ih := swRules_find n rs rs' hrest
      by_cases hc : a.name = n
      · have hc' : a'.name = n := by rw [← hn]; exact hc
        refine ⟨fun r hr => ?_, fun r' hr' => ?_⟩
        · simp only [List.find?_cons, hc, beq_self_eq_true, Option.some.injEq] at hr
          subst hr
          exact ⟨a', by simp [hc'], hm⟩
        · exact ⟨a, by simp [hc]⟩
      · have hc' : ¬ a'.name = n := by rw [← hn]; exact hc
        have e1 : (a.name == n) = false := by simpa using hc
        have e2 : (a'.name == n) = false := by simpa using hc'
        refine ⟨fun r hr => ?_, fun r' hr' => ?_⟩
        · simp only [List.find?_cons, e1] at hr
          obtain ⟨r', h1, h2⟩ := ih.1 r hr
          exact ⟨r', by simp only [List.find?_cons, e2]; exact h1, h2⟩
        · simp only [List.find?_cons, e2] at hr'
          obtain ⟨r, h1⟩ := ih.2 r' hr'
          exact ⟨r, by simp only [List.find?_cons, e1]; exact h1⟩

theorem swOK_wfb {G G' : Grammar} (h : swOK G G' = true) : WFB G' = true := by
  simp only [swOK, Bool.and_eq_true] at h; exact h.1

theorem swOK_bodies {G G' : Grammar} (h : swOK G G' = true) :
    BodiesSw (firstE G' (swFuel G')) G G' := by
  simp only [swOK, Bool.and_eq_true] at h
  intro n b hb
  unfold Grammar.body Grammar.find at hb
  cases hf : G.rules.find? (fun r => r.name == n) with
  | none => simp [hf] at hb
  | some r =>
    simp only [hf, Option.map_some, Option.some.injEq] at hb
    subst hb
    obtain ⟨r', h1, h2⟩ := (swRules_find n _ _ h.2).1 r hf
    exact ⟨r'.body, by simp [Grammar.body, Grammar.find, h1], swMatchE_sound _ _ _ h2⟩

/-- The rules of an accepted pair have the same names. -/
theorem swOK_defined {G G' : Grammar} (h : swOK G G' = true) {n b'} (hb : G'.body n = some b') :
    ∃ b, G.body n = some b := by
  simp only [swOK, Bool.and_eq_true] at h
  unfold Grammar.body Grammar.find at hb
  cases hf : G'.rules.find? (fun r => r.name == n) with
  | none => simp [hf] at hb
  | some r' =>
    obtain ⟨r, h1⟩ := (swRules_find n _ _ h.2).2 r' hf
    exact ⟨r.body, by simp [Grammar.body, Grammar.find, h1]⟩

theorem firstE_soundF (G' : Grammar) (ρ : String → Nat → Bool) (inp : List Sym) (f : Nat) :
    SoundF G' ρ inp (firstE G' f) :=
  fun e K hK p p' fo evs he => firstE_sound f e K p p' fo evs hK he

/-- The general form: related expressions, read in `G` and in `G'`. -/
theorem Eval_switch_expr {G G' : Grammar} (h : swOK G G' = true) {ρ inp e e' p res evs}
    (hx : swMatchE (firstE G' (swFuel G')) e e' = true) (hs : WFS G' e')
    (he : Eval G ρ inp e p res evs) : ∃ evs', Eval G' ρ inp e' p res evs' :=
  Eval_sw (swOK_wfb h) (firstE_soundF G' ρ inp _) (swOK_bodies h) he (swMatchE_sound _ _ _ hx) hs

/-- **Translation validation of `-switch`**: if the checker accepts the pair, every rule has in
    `G'` the outcome it has in `G` — the same verdict, the same end position and the same derivation
    forest (the lists of attempted tokens may differ: a switch does not attempt the cases it
    skips). -/
theorem Eval_switch {G G' : Grammar} (h : swOK G G' = true) {ρ inp n p res evs} :
    Eval G ρ inp (.name n) p res evs → ∃ evs', Eval G' ρ inp (.name n) p res evs' := by
  intro he
  exact Eval_sw (swOK_wfb h) (firstE_soundF G' ρ inp _) (swOK_bodies h) he .name rfl

/-- Both grammars are functional, so the outcomes agree. -/
theorem Eval_switch_unique {G G' : Grammar} (h : swOK G G' = true) {ρ inp n p res res' evs evs'}
    (he : Eval G ρ inp (.name n) p res evs) (he' : Eval G' ρ inp (.name n) p res' evs') :
    res = res' := by
  obtain ⟨evs'', h''⟩ := Eval_switch h he
  exact (Eval_det h'' he').1

/-- With a well-formed source grammar the two grammars have exactly the same outcomes. -/
theorem Eval_switch_iff {G G' : Grammar} (hwf : WFB G = true) (h : swOK G G' = true)
    {ρ inp n p res} :
    (∃ evs, Eval G ρ inp (.name n) p res evs) ↔ (∃ evs', Eval G' ρ inp (.name n) p res evs') := by
  constructor
  · rintro ⟨evs, he⟩; exact Eval_switch h he
  · rintro ⟨evs', he'⟩
    cases he' with
    | name hb' hbody =>
      obtain ⟨b, hb⟩ := swOK_defined h hb'
      obtain ⟨res0, evs0, h0⟩ := Eval_total' (ρ := ρ) hwf inp n b hb p
      have := Eval_switch_unique h h0 (.name hb' hbody)
      subst this
      exact ⟨_, h0⟩

end PegVerif

#print axioms PegVerif.firstE_sound
#print axioms PegVerif.Eval_switch
#print axioms PegVerif.Eval_switch_unique
#print axioms PegVerif.Eval_switch_iff
