import PegVerif.Props.C12
import PegVerif.Proofs.LinkSwitch
import PegVerif.Proofs.AlwaysLemmas
import PegVerif.Model.Optimise
/-
  R for `-switch` output: the refinement theorem for the generator itself, for a grammar that may
  contain `TypeUnorderedAlternate` nodes (`.ualt`, created by the `-switch` rewrite
  `optimizeAlternates`; `compileAll` takes the rewritten grammar).

  `switch_world` discharges `World` for `compileAll o G` from decidable side conditions:

  * `GrammarOKS G`   terminals below the end symbol, no `TypeString`, no reference from an emitted
                     rule to a rule without function, and for every `.ualt ks es`: `es ≠ []` and
                     `casesLeadOK ks es` — every case but the default has a key set, and the terminal
                     tests that `compile` elides in its body (`parentDetect`) pass for every key
                     (for a body that starts with `.`: every key is below the end symbol, so the
                     position is inside the input, see `swDotG` below).
  * `LinkedOK G`     rule bodies are implicit pushes, rule ids pairwise distinct;
  * `G.plainS`       no `-inline` node (for the soundness of `CheckAlwaysSucceeds`).

  Every property stated over `World` (C01, C03, C05, C06, C11, C12, C13, …) therefore holds for
  `-switch` output; the theorems below instantiate the ones about verdict, position and tokens.
-/
namespace PegVerif

/-- `World` for the program the model generator emits for a grammar with `-switch` nodes. -/
theorem switch_world (G : Grammar) (o : Opts) (cfg : Cfg) (inp : List Sym)
    (hinl : o.inline = false) (hast : o.ast = true) (hcfg : cfg.ast = true)
    (hinp : ∀ c ∈ inp, c ≠ END) (hG : GrammarOKS G = true) (hL : LinkedOK G = true)
    (hplain : G.plainS) :
    World (compileAll o G) cfg (realEnv o G) G inp :=
  compileAll_worldS hinl hast hcfg hinp hG hL (fun _ h => alwaysSucceeds_soundS hplain h)

/-- **C01 for `-switch` output** (shape of `C01_generated_parser`): every run of the function the
    model generator emits for rule `n` returns true exactly when the PEG semantics of the
    (rewritten) grammar matches a prefix, stops at the end of exactly that prefix, and never
    panics. -/
theorem switch_generated_parser (G : Grammar) (o : Opts) (cfg : Cfg) (inp : List Sym)
    (hinl : o.inline = false) (hast : o.ast = true) (hcfg : cfg.ast = true)
    (hinp : ∀ c ∈ inp, c ≠ END) (hG : GrammarOKS G = true) (hL : LinkedOK G = true)
    (hplain : G.plainS)
    {n cr res evs out s'} (hfind : (compileAll o G).find n = some cr)
    (hev : Eval G cfg.rho inp (.name n) 0 res evs)
    (hrun : Exec (compileAll o G) cfg inp cr 0 St.init Frame.empty (out, s')) :
    (out = .ret true ↔ ∃ p' f, res = .ok p' f) ∧ (∀ p' f, res = .ok p' f → s'.pos = p') ∧
    (out = .ret false ↔ res = .fail) ∧ out ≠ .panic :=
  C01_refines (switch_world G o cfg inp hinl hast hcfg hinp hG hL hplain) hfind hev hrun

/-- **Verdict, position and token list** from a fresh or `Reset()` parser (any stale token buffer):
    every run yields exactly the outcome of `Eval G` — on success the published tokens are the
    post-order of the derivation forest, on failure `maxToken` is the fold over the attempted
    tokens — and the outcome is never `.panic`. -/
theorem switch_generated_parser_tokens (G : Grammar) (o : Opts) (cfg : Cfg) (inp : List Sym)
    (hinl : o.inline = false) (hast : o.ast = true) (hcfg : cfg.ast = true)
    (hinp : ∀ c ∈ inp, c ≠ END) (hG : GrammarOKS G = true) (hL : LinkedOK G = true)
    (hplain : G.plainS)
    {n cr res evs s out s'} (hs : AfterReset s) (hfind : (compileAll o G).find n = some cr)
    (hev : Eval G cfg.rho inp (.name n) 0 res evs)
    (hrun : Exec (compileAll o G) cfg inp cr 0 s Frame.empty (out, s')) :
    out ≠ .panic ∧
    match res with
    | .ok p' forest => out = .ret true ∧ s'.pos = p' ∧ s'.tree.take s'.ti = postorderL forest
    | .fail => out = .ret false ∧ s'.maxTok = evs.foldl updTok zeroTok := by
  have h := C12_reset_like_fresh (switch_world G o cfg inp hinl hast hcfg hinp hG hL hplain)
    hs hfind hev hrun
  cases res with
  | ok p' forest => exact ⟨(by rw [h.1]; intro e; cases e), h⟩
  | fail => exact ⟨(by rw [h.1]; intro e; cases e), h⟩

/-- … and such a run exists. -/
theorem switch_run_exists (G : Grammar) (o : Opts) (cfg : Cfg) (inp : List Sym)
    (hinl : o.inline = false) (hast : o.ast = true) (hcfg : cfg.ast = true)
    (hinp : ∀ c ∈ inp, c ≠ END) (hG : GrammarOKS G = true) (hL : LinkedOK G = true)
    (hplain : G.plainS)
    {n cr res evs} (hfind : (compileAll o G).find n = some cr)
    (hev : Eval G cfg.rho inp (.name n) 0 res evs) :
    ∃ out s', Exec (compileAll o G) cfg inp cr 0 St.init Frame.empty (out, s') :=
  C01_run_exists (switch_world G o cfg inp hinl hast hcfg hinp hG hL hplain) hfind hev

/-- The executable model used by the T-run tie obeys the theorem. -/
theorem switch_parseF (G : Grammar) (o : Opts) (cfg : Cfg) (inp : List Sym)
    (hinl : o.inline = false) (hast : o.ast = true) (hcfg : cfg.ast = true)
    (hinp : ∀ c ∈ inp, c ≠ END) (hG : GrammarOKS G = true) (hL : LinkedOK G = true)
    (hplain : G.plainS)
    {n cr res evs fuel pr st} (hfind : (compileAll o G).find n = some cr)
    (hev : Eval G cfg.rho inp (.name n) 0 res evs)
    (hrun : parseF (compileAll o G) cfg inp fuel n St.init = (pr, st)) (hfuel : pr ≠ .stuck) :
    match res with
    | .ok p' forest => pr = .ok (postorderL forest) ∧ st.pos = p'
    | .fail => pr = .fail (evs.foldl updTok zeroTok) := by
  have h := R_parseF (switch_world G o cfg inp hinl hast hcfg hinp hG hL hplain) hfind hev hrun hfuel
  cases res <;> exact h

/-! ### Non-vacuity

  `S <- ('a' 'x' / [b-c] 'y' / 'd') !.` after the `-switch` rewrite, written by hand:
  `switch { case 'a': 'a' 'x'; case 'b','c': [b-c] 'y'; default: 'd' }`.  In the emitted code the
  test of `'a'` is elided (one key), the test of `[b-c]` is kept (two keys: `parentMultipleKey`),
  `'d'` keeps its test. -/

def swExG : Grammar := { rules := [
  { name := "S", id := 0, body := .ipush (.seq [
      .ualt [[(97, 97)], [(98, 99)]]
        [.seq [.chr 97, .chr 120], .seq [.rng 98 99, .chr 121], .chr 100],
      .peekNot .dot]) "S" }] }

/-- The side conditions of `switch_generated_parser` hold (and `S` gets a function). -/
example : GrammarOKS swExG = true ∧ LinkedOK swExG = true ∧ swExG.plainS ∧
    ((compileAll {} swExG).find "S").isSome = true :=
  ⟨by decide, by decide, Grammar.plainS_of_all (by decide), by decide⟩

/-- The elision really happens in this example: the real pass prints fewer tests than the dry pass
    (`ifNeChr 97` is gone), so this is not the `-switch`-free theorem again.  The range test of the
    two-key case `[b-c]` is printed (repaired: `TypeRange` honours `parentMultipleKey`). -/
example : ((compileAll {} swExG).find "S").map (fun c =>
      (c.contains (.ifNeChr 97 0), c.contains (.ifNotRng 98 99 0), c.contains (.ifNeChr 100 0),
        c.any (fun i => match i with | .switchOn .. => true | _ => false))) =
    some (false, true, true, true) := by decide

/-- A range with a single key still elides its test: `switch { case 'b': [b-b] 'y'; default: 'd' }`. -/
def swRng1G : Grammar := { rules := [
  { name := "S", id := 0, body := .ipush (.seq [
      .ualt [[(98, 98)]] [.seq [.rng 98 98, .chr 121], .chr 100], .peekNot .dot]) "S" }] }

example : GrammarOKS swRng1G = true := by decide
example : ((compileAll {} swRng1G).find "S").map (fun c => c.contains (.ifNotRng 98 98 0)) =
    some false := by decide

/-- The old check rejects the grammar (it has a `-switch` node), the new one is an extension. -/
example : GrammarOK swExG = false := by decide

/-- TEST harness: reference interpreter against the emitted code run by the machine model. -/
def swAgree (G : Grammar) (inp : List Sym) : Bool :=
  let cfg : Cfg := { ast := true, memo := true, rho := fun _ _ => true }
  match (compileAll {} G).find "S" with
  | none => false
  | some cr =>
    match evalF G cfg.rho inp 50 (.name "S") 0,
        execF (compileAll {} G) cfg inp 500 cr 0 St.init Frame.empty with
    | some (.ok p' f, _), some (.ret true, s') => s'.pos == p' && s'.tree.take s'.ti == postorderL f
    | some (.fail, evs), some (.ret false, s') => s'.maxTok == evs.foldl updTok zeroTok
    | _, _ => false

/-- TESTS (not theorems about all inputs): `execF` and `evalF` agree on accepted and rejected inputs. -/
example : swAgree swExG [97, 120] = true := by decide          -- "ax"  accepted, case 0
example : swAgree swExG [98, 121] = true := by decide          -- "by"  accepted, case 1
example : swAgree swExG [99, 121] = true := by decide          -- "cy"  accepted, case 1
example : swAgree swExG [100] = true := by decide              -- "d"   accepted, default
example : swAgree swExG [97, 121] = true := by decide          -- "ay"  rejected inside case 0
example : swAgree swExG [101] = true := by decide              -- "e"   rejected in the default
example : swAgree swExG [] = true := by decide                 -- ""    rejected (end symbol → default)
example : swAgree swExG [100, 100] = true := by decide         -- "dd"  rejected by `!.`

/-- TEST: the verdict on "ax" is a success consuming both runes with the single token `S[0,2)`. -/
example : ∃ f evs, Eval swExG (fun _ _ => true) [97, 120] (.name "S") 0 (.ok 2 f) evs ∧
    postorderL f = [⟨"S", 0, 2⟩] :=
  ⟨_, _, evalF_sound 20 _ _ _ _ (by rfl), by rfl⟩

/-! The output of the MODELLED `-switch` rewrite (`optimise` = `optimizeAlternates`) on a source
    grammar is in the fragment: `S <- ('a' 'x' / [b-c] 'y' / 'd' 'z' / 'e') !.` is rewritten to one
    `switch` whose default is the `[b-c]` alternative, and the result passes all side conditions
    (while the `-switch`-free check `GrammarOK` rejects it). -/

def swSrcG : Grammar := { rules := [
  { name := "S", id := 0, body := .ipush (.seq [
      .alt [.seq [.chr 97, .chr 120], .seq [.rng 98 99, .chr 121], .seq [.chr 100, .chr 122], .chr 101],
      .peekNot .dot]) "S" }] }

/-- The side conditions, checked on `optimise G`. -/
def okAfterSwitch (G : Grammar) : Bool :=
  match optimise G with
  | .ok g => GrammarOKS g && LinkedOK g && g.rules.all (fun r => r.body.plainS) && !GrammarOK g
  | .error _ => false

example : okAfterSwitch swSrcG = true := by decide

/-- TESTS: the code emitted for the rewritten grammar agrees with the semantics of the rewritten
    grammar on these inputs. -/
example : (match optimise swSrcG with
    | .ok g => [[97, 120], [98, 121], [100, 122], [101], [100, 120], [102], []].all (swAgree g)
    | .error _ => false) = true := by decide

/-! REPAIRED (was: "a case body that starts with `.` is compiled to NOTHING under `parentDetect`"):
    `.` directly behind a `case` is now `position++`.  The side condition for it is that every key
    of the case is below the end symbol (then the position is inside the input); with it the emitted
    code and the semantics agree. -/

def swDotG : Grammar := { rules := [
  { name := "S", id := 0, body := .ipush (.seq [
      .ualt [[(97, 97)]] [.seq [.dot, .chr 120], .chr 100], .peekNot .dot]) "S" }] }

example : GrammarOKS swDotG = true := by decide
/-- The test of `.` is elided, the position is advanced. -/
example : ((compileAll {} swDotG).find "S").map (fun c =>
    (c.any (fun i => match i with | .ifNotDot _ => true | _ => false), c.contains .inc)) =
    some (true, true) := by decide   -- the one `ifNotDot` left is that of `!.`
/-- TESTS: code and semantics agree ("ax" accepted, "a" / "ay" rejected inside the case, "d" default). -/
example : [[97, 120], [97], [97, 121], [100], [], [98]].all (swAgree swDotG) = true := by decide

/-- The side condition is not vacuous: keys that reach the end symbol do not justify eliding the
    test of `.` (at the end of input `.` fails but `position++` would not) — rejected. -/
example : GrammarOKS { rules := [
    { name := "S", id := 0, body := .ipush (.seq [
      .ualt [[(97, END)]] [.seq [.dot, .chr 120], .chr 100], .peekNot .dot]) "S" }] } = false := by
  decide

/-- … and keys that do not imply an elided character test are rejected (`casesLeadOK`). -/
example : GrammarOKS { rules := [
    { name := "S", id := 0, body := .ipush (.ualt [[(98, 98)]] [.chr 97, .chr 100]) "S" }] } = false := by
  decide

/-! REPAIRED (was: "a case body that starts with a repetition of an elided terminal is rejected"):
    `e*` no longer hands `parentDetect` to its body, which is re-run at later positions; the body
    keeps its test, the grammar is in the fragment and code and semantics agree. -/

def swStarG : Grammar := { rules := [
  { name := "S", id := 0, body := .ipush (.seq [
      .ualt [[(97, 97)]] [.seq [.star (.chr 97), .chr 120], .chr 100], .peekNot .dot]) "S" }] }

example : GrammarOKS swStarG = true := by decide
example : ((compileAll {} swStarG).find "S").map (fun c =>
    c.any (fun i => match i with | .ifNeChr 97 _ => true | _ => false)) = some true := by decide
example : [[97, 120], [97, 97, 97, 120], [97, 97], [100], [120], []].all (swAgree swStarG) = true := by
  decide

/-- Likewise `&e` and `!e` compile their operand without the flags. -/
example : ((compileAll {} { rules := [
    { name := "S", id := 0, body := .ipush (.ualt [[(97, 97)]]
      [.seq [.peekNot (.chr 97), .chr 98], .chr 100]) "S" }] }).find "S").map (fun c =>
    c.any (fun i => match i with | .ifNeChr 97 _ => true | _ => false)) = some true := by decide

end PegVerif

#print axioms PegVerif.switch_world
#print axioms PegVerif.switch_generated_parser
#print axioms PegVerif.switch_generated_parser_tokens
#print axioms PegVerif.switch_run_exists
#print axioms PegVerif.switch_parseF
#print axioms PegVerif.R_all
#print axioms PegVerif.good_ualt
#print axioms PegVerif.ruleFunc_suniq
#print axioms PegVerif.leadOK_sound
