import PegVerif.Model.SwitchSafe
import PegVerif.Proofs.LinkSwitch
import PegVerif.Proofs.AlwaysLemmas
/-
  The decidable hypothesis of the `-switch` end-to-end theorem (`Props/C02Switch.lean`), in a file
  of its own so that the driver `pegmodel emit` evaluates the very definition the theorem uses.
-/
namespace PegVerif

/-- The decidable side condition under which the `-switch` parser is proved equivalent to the
    grammar it was generated from (`switchSafe`, printed per grammar by `pegmodel emit`):
    * `swOK G G'`       — the optimiser's rewrite is a valid rearrangement w.r.t. sound first sets
                          (Eval-level, `C02_switch_validated`);
    * `GrammarOKS G'`   — every `parentDetect` elision of a leading test is justified by the case
                          keys (`casesLeadOK`; for a leading `.`: keys below END), terminals below END;
    * `LinkedOK G'`, `plainS G'` — as for the default parser. -/
def switchSafe (G G' : Grammar) : Bool :=
  swOK G G' && GrammarOKS G' && LinkedOK G' && G'.rules.all (fun r => r.body.plainS)

end PegVerif
