import PegVerif.Proofs.SemLemmas
/-
  Ford's totality theorem (POPL 2004, §3.6) for the PEG semantics `Eval`:
  for a *well-formed* grammar every expression has an outcome (success or failure) at every
  position of every input.  All refinement theorems of this development are relative to the
  existence of an `Eval` derivation; this file supplies the derivation.

  * `nullE N e`      conservative "may succeed without consuming", relative to a set `N` of rule
                     names assumed nullable; `nullSet G` = the least such set, by Kleene iteration;
                     `closedB G N` checks that `N` is closed (a pre-fixed point), which is all the
                     soundness proof needs.
  * `wfF G N f e`    Ford's inductive set WF, with the induction height made explicit as fuel:
                     the check descends into every *first-position* sub-expression and through
                     rule references, and fails when the fuel runs out — so a left-recursive rule
                     is rejected, and the fuel at which a check succeeds is the rank used in the
                     totality proof.
  * `subsB G N F e`  every proper sub-expression of `e` passes `wfF … F`.
  * `WFB G`          `nullSet G` is closed and every rule body passes `wfF` and `subsB`.
-/
namespace PegVerif

/-! ## 1. Nullability -/

mutual
  /-- Over-approximation of "`e` can succeed without consuming input", where the references in
      `N` are assumed to be nullable. -/
  def nullE (N : List String) : Expr → Bool
    | .dot => false
    | .chr _ => false
    | .rng _ _ => false
    | .str s => s.isEmpty
    | .name n => N.contains n
    | .inl _ e => nullE N e
    | .pred _ => true
    | .stmt _ => true
    | .act _ => true
    | .seq es => nullAll N es
    | .alt es => nullAny N es
    | .ualt _ es => nullAny N es
    | .peekFor _ => true
    | .peekNot _ => true
    | .query _ => true
    | .star _ => true
    | .plus e => nullE N e
    | .push e _ => nullE N e
    | .ipush e _ => nullE N e
    | .nil => true
  def nullAll (N : List String) : List Expr → Bool
    | [] => true
    | e :: es => nullE N e && nullAll N es
  def nullAny (N : List String) : List Expr → Bool
    | [] => false
    | e :: es => nullE N e || nullAny N es
end

/-- One Kleene step: the names of the rules whose body is nullable relative to `N`. -/
def nullStep (G : Grammar) (N : List String) : List String :=
  (G.rules.filter (fun r => nullE N r.body)).map (·.name)

def nullIter (G : Grammar) : Nat → List String → List String
  | 0, N => N
  | k + 1, N => nullIter G k (nullStep G N)

/-- The nullable rules: `|rules|` Kleene steps from the empty set (each non-final step adds a rule,
    so this is the least fixed point; `WFB` re-checks closedness instead of relying on that). -/
def nullSet (G : Grammar) : List String := nullIter G G.rules.length []

/-- `N` is closed: a rule whose body is nullable relative to `N` is in `N`. -/
def closedB (G : Grammar) (N : List String) : Bool :=
  G.rules.all (fun r => !nullE N r.body || N.contains r.name)

/-! ## 2. Ford's WF, with explicit height -/

/-- `wfF G N f e`: `e` is in Ford's set WF, by a derivation of height `≤ f`.
    The check visits the first-position sub-expressions only (the rest of a sequence is visited
    iff its head is nullable), goes through rule references, and fails on: fuel exhaustion (left
    recursion), an undefined reference, the empty choice (ordered or `-switch`), and `e*`/`e+`
    over a nullable `e`.  Every case of a `-switch` node is in first position. -/
def wfF (G : Grammar) (N : List String) : Nat → Expr → Bool
  | 0, _ => false
  | _ + 1, .dot => true
  | _ + 1, .chr _ => true
  | _ + 1, .rng _ _ => true
  | _ + 1, .str _ => true
  | _ + 1, .pred _ => true
  | _ + 1, .stmt _ => true
  | _ + 1, .act _ => true
  | _ + 1, .nil => true
  | f + 1, .name n =>
    match G.body n with
    | none => false
    | some b => wfF G N f b
  | f + 1, .inl _ e => wfF G N f e
  | _ + 1, .seq [] => true
  | f + 1, .seq (e :: es) => wfF G N f e && (!nullE N e || wfF G N f (.seq es))
  | _ + 1, .alt [] => false
  | f + 1, .alt [e] => wfF G N f e
  | f + 1, .alt (e :: e' :: es) => wfF G N f e && wfF G N f (.alt (e' :: es))
  | f + 1, .ualt _ es => !es.isEmpty && es.all (fun e => wfF G N f e)
  | f + 1, .peekFor e => wfF G N f e
  | f + 1, .peekNot e => wfF G N f e
  | f + 1, .query e => wfF G N f e
  | f + 1, .star e => !nullE N e && wfF G N f e
  | f + 1, .plus e => !nullE N e && wfF G N f e
  | f + 1, .push e _ => wfF G N f e
  | f + 1, .ipush e _ => wfF G N f e

mutual
  /-- Every proper sub-expression of `e` passes `wfF G N F`. -/
  def subsB (G : Grammar) (N : List String) (F : Nat) : Expr → Bool
    | .inl _ e => wfF G N F e && subsB G N F e
    | .seq es => subsL G N F es
    | .alt es => subsL G N F es
    | .ualt _ es => subsL G N F es
    | .peekFor e => wfF G N F e && subsB G N F e
    | .peekNot e => wfF G N F e && subsB G N F e
    | .query e => wfF G N F e && subsB G N F e
    | .star e => wfF G N F e && subsB G N F e
    | .plus e => wfF G N F e && subsB G N F e
    | .push e _ => wfF G N F e && subsB G N F e
    | .ipush e _ => wfF G N F e && subsB G N F e
    | .dot => true
    | .chr _ => true
    | .rng _ _ => true
    | .str _ => true
    | .name _ => true
    | .pred _ => true
    | .stmt _ => true
    | .act _ => true
    | .nil => true
  def subsL (G : Grammar) (N : List String) (F : Nat) : List Expr → Bool
    | [] => true
    | e :: es => wfF G N F e && subsB G N F e && subsL G N F es
end

mutual
  /-- Size of an expression, counting one per list cell (an upper bound of the fuel `wfF` needs to
      traverse the expression itself). -/
  def Expr.wsize : Expr → Nat
    | .inl _ e => e.wsize + 1
    | .seq es => wsizeL es + 1
    | .alt es => wsizeL es + 1
    | .ualt _ es => wsizeL es + 1
    | .peekFor e => e.wsize + 1
    | .peekNot e => e.wsize + 1
    | .query e => e.wsize + 1
    | .star e => e.wsize + 1
    | .plus e => e.wsize + 1
    | .push e _ => e.wsize + 1
    | .ipush e _ => e.wsize + 1
    | _ => 1
  def wsizeL : List Expr → Nat
    | [] => 0
    | e :: es => e.wsize + 1 + wsizeL es
end

/-- Enough fuel: a chain of first-position references without repetition enters every rule body at
    most once, plus the body the chain started in. -/
def wfFuel (G : Grammar) : Nat :=
  2 * G.rules.foldl (fun acc r => acc + r.body.wsize + 1) 1

/-- Ford's well-formedness of a grammar, as a decidable check. -/
def WFB (G : Grammar) : Bool :=
  closedB G (nullSet G) &&
    G.rules.all (fun r => wfF G (nullSet G) (wfFuel G) r.body && subsB G (nullSet G) (wfFuel G) r.body)

/-- Local well-formedness of an expression relative to `G`: it and all its sub-expressions are in
    Ford's WF.  `WFB G` establishes it for every rule body (`WFB_body`). -/
def WFE (G : Grammar) (e : Expr) : Prop :=
  wfF G (nullSet G) (wfFuel G) e = true ∧ subsB G (nullSet G) (wfFuel G) e = true

instance (G : Grammar) (e : Expr) : Decidable (WFE G e) := by unfold WFE; infer_instance

/-- Immediate sub-expression. -/
inductive Child : Expr → Expr → Prop where
  | inl {n e} : Child e (.inl n e)
  | seq {e es} : e ∈ es → Child e (.seq es)
  | alt {e es} : e ∈ es → Child e (.alt es)
  | ualt {e ks es} : e ∈ es → Child e (.ualt ks es)
  | peekFor {e} : Child e (.peekFor e)
  | peekNot {e} : Child e (.peekNot e)
  | query {e} : Child e (.query e)
  | star {e} : Child e (.star e)
  | plus {e} : Child e (.plus e)
  | push {e r} : Child e (.push e r)
  | ipush {e r} : Child e (.ipush e r)

/-- `e` occurs in a rule body of `G` (as the body of the first rule of some name, or below it). -/
inductive InGrammar (G : Grammar) : Expr → Prop where
  | body {n b} : G.body n = some b → InGrammar G b
  | child {e e'} : InGrammar G e → Child e' e → InGrammar G e'

/-! ## 3. Basic lemmas -/

theorem body_mem {G : Grammar} {n b} (h : G.body n = some b) :
    ∃ r ∈ G.rules, r.name = n ∧ r.body = b := by
  unfold Grammar.body Grammar.find at h
  cases hf : G.rules.find? (fun r => r.name == n) with
  | none => simp [hf] at h
  | some r =>
    simp [hf] at h
    exact ⟨r, List.mem_of_find?_eq_some hf, by simpa using List.find?_some hf, h⟩

theorem closed_body {G : Grammar} {N n b} (hcl : closedB G N = true) (h : G.body n = some b)
    (hn : N.contains n = false) : nullE N b = false := by
  obtain ⟨r, hr, rfl, rfl⟩ := body_mem h
  have := (List.all_eq_true.mp hcl) r hr
  cases hb : nullE N r.body with
  | false => rfl
  | true =>
    simp [hb] at this
    simp at hn
    exact absurd this hn

theorem subsL_mem {G N F} {es : List Expr} (h : subsL G N F es = true) :
    ∀ e ∈ es, wfF G N F e = true ∧ subsB G N F e = true := by
  induction es with
  | nil => intro e he; cases he
  | cons a as ih =>
    simp only [subsL, Bool.and_eq_true] at h
    intro e he
    rcases List.mem_cons.mp he with rfl | he
    · exact ⟨h.1.1, h.1.2⟩
    · exact ih h.2 e he

theorem nullAny_false {N} {es : List Expr} (h : nullAny N es = false) :
    ∀ e ∈ es, nullE N e = false := by
  induction es with
  | nil => intro e he; cases he
  | cons a as ih =>
    simp only [nullAny, Bool.or_eq_false_iff] at h
    intro e he
    rcases List.mem_cons.mp he with rfl | he
    · exact h.1
    · exact ih h.2 e he

theorem getElem?_lt_of_some {inp : List Sym} {p : Nat} {c : Sym} (h : inp[p]? = some c) :
    p < inp.length := by
  obtain ⟨h', _⟩ := List.getElem?_eq_some_iff.mp h
  exact h'

/-- Positions stay inside the input (copy of `Eval_bound` of `Proofs/RefineComb.lean`). -/
theorem Eval_le_len {G : Grammar} {ρ : String → Nat → Bool} {inp e p res evs}
    (h : Eval G ρ inp e p res evs) :
    p ≤ inp.length → ∀ p1 f1, res = .ok p1 f1 → p ≤ p1 ∧ p1 ≤ inp.length := by
  induction h with
  | dot_ok h => intro _ p1 f1 e; cases e; have := getElem?_lt_of_some h; omega
  | chr_ok h => intro _ p1 f1 e; cases e; have := getElem?_lt_of_some h; omega
  | rng_ok h _ _ => intro _ p1 f1 e; cases e; have := getElem?_lt_of_some h; omega
  | str_ok h =>
    intro _ p1 f1 e; cases e
    simp only [matchesAt, Bool.and_eq_true, decide_eq_true_eq] at h
    omega
  | name _ _ ih => exact ih
  | inl _ ih => exact ih
  | seq_ok _ _ ih1 ih2 =>
    intro hp p1 f1 e; cases e
    have := ih1 hp _ _ rfl
    have := ih2 this.2 _ _ rfl
    omega
  | alt_last _ ih => exact ih
  | alt_ok _ ih => exact ih
  | alt_next _ _ _ ih2 => exact ih2
  | ualt _ _ ih => exact ih
  | query_ok _ ih => exact ih
  | star_step _ _ ih1 ih2 =>
    intro hp p1 f1 e; cases e
    have := ih1 hp _ _ rfl
    have := ih2 this.2 _ _ rfl
    omega
  | plus_ok _ _ ih1 ih2 =>
    intro hp p1 f1 e; cases e
    have := ih1 hp _ _ rfl
    have := ih2 this.2 _ _ rfl
    omega
  | push_ok _ _ ih => intro hp p1 f1 e; cases e; exact ih hp _ _ rfl
  | ipush_ok _ _ ih => intro hp p1 f1 e; cases e; exact ih hp _ _ rfl
  | _ => intro hp p1 f1 e; cases e <;> omega

/-- Positions only move forward, and a derivation that consumes ends inside the input — without
    assuming that it starts inside. -/
theorem Eval_pos {G : Grammar} {ρ : String → Nat → Bool} {inp e p res evs}
    (h : Eval G ρ inp e p res evs) :
    ∀ p1 f1, res = .ok p1 f1 → p ≤ p1 ∧ (p < p1 → p1 ≤ inp.length) := by
  induction h with
  | dot_ok h => intro p1 f1 e; cases e; have := getElem?_lt_of_some h; omega
  | chr_ok h => intro p1 f1 e; cases e; have := getElem?_lt_of_some h; omega
  | rng_ok h _ _ => intro p1 f1 e; cases e; have := getElem?_lt_of_some h; omega
  | str_ok h =>
    intro p1 f1 e; cases e
    simp only [matchesAt, Bool.and_eq_true, decide_eq_true_eq] at h
    omega
  | name _ _ ih => exact ih
  | inl _ ih => exact ih
  | seq_ok _ _ ih1 ih2 =>
    intro p1 f1 e; cases e
    have := ih1 _ _ rfl
    have := ih2 _ _ rfl
    omega
  | alt_last _ ih => exact ih
  | alt_ok _ ih => exact ih
  | alt_next _ _ _ ih2 => exact ih2
  | ualt _ _ ih => exact ih
  | query_ok _ ih => exact ih
  | star_step _ _ ih1 ih2 =>
    intro p1 f1 e; cases e
    have := ih1 _ _ rfl
    have := ih2 _ _ rfl
    omega
  | plus_ok _ _ ih1 ih2 =>
    intro p1 f1 e; cases e
    have := ih1 _ _ rfl
    have := ih2 _ _ rfl
    omega
  | push_ok _ _ ih => intro p1 f1 e; cases e; exact ih _ _ rfl
  | ipush_ok _ _ ih => intro p1 f1 e; cases e; exact ih _ _ rfl
  | _ => intro p1 f1 e; cases e <;> omega

theorem caseIdx_le (keys : List KeySet) (c : Sym) : caseIdx keys c ≤ keys.length := by
  unfold caseIdx
  cases h : keys.findIdx? (fun ks => ks.has c) with
  | none => exact Nat.le_refl _
  | some i =>
    have := (List.findIdx?_eq_some_iff_getElem.mp h).1
    exact Nat.le_of_lt this

/-- The case a non-empty `-switch` node selects exists. -/
theorem ualt_case_lt (ks : List KeySet) {es : List Expr} (hne : es ≠ []) (c : Sym) :
    caseIdx (ks.take (es.length - 1)) c < es.length := by
  have h1 := caseIdx_le (ks.take (es.length - 1)) c
  have h2 : (ks.take (es.length - 1)).length ≤ es.length - 1 := by
    rw [List.length_take]; exact Nat.min_le_left _ _
  have h3 : 0 < es.length := List.length_pos_iff.mpr hne
  omega

/-! ## 4. A non-nullable expression that succeeds consumes input -/

/-- Positions only move forward, and strictly so when the expression is not nullable. -/
theorem Eval_adv {G : Grammar} {ρ : String → Nat → Bool} {inp N} (hcl : closedB G N = true)
    {e p res evs} (h : Eval G ρ inp e p res evs) :
    ∀ p1 f1, res = .ok p1 f1 → p ≤ p1 ∧ (nullE N e = false → p < p1) := by
  induction h with
  | dot_ok h => intro p1 f1 e; cases e; simp
  | chr_ok h => intro p1 f1 e; cases e; simp
  | rng_ok h _ _ => intro p1 f1 e; cases e; simp
  | str_ok h =>
    intro p1 f1 e; cases e
    refine ⟨by omega, fun hn => ?_⟩
    rename_i s
    cases s with
    | nil => simp [nullE] at hn
    | cons a as => simp
  | name hb _ ih =>
    intro p1 f1 e
    refine ⟨(ih p1 f1 e).1, fun hn => (ih p1 f1 e).2 (closed_body hcl hb ?_)⟩
    simpa [nullE] using hn
  | inl _ ih =>
    intro p1 f1 e
    exact ⟨(ih p1 f1 e).1, fun hn => (ih p1 f1 e).2 (by simpa [nullE] using hn)⟩
  | seq_ok _ _ ih1 ih2 =>
    intro p1 f1 e; cases e
    have h1 := ih1 _ _ rfl
    have h2 := ih2 _ _ rfl
    refine ⟨by omega, fun hn => ?_⟩
    simp only [nullE, nullAll, Bool.and_eq_false_iff] at hn
    rcases hn with hn | hn
    · have := h1.2 hn; omega
    · have := h2.2 (by simpa [nullE] using hn); omega
  | alt_last _ ih =>
    intro p1 f1 e
    exact ⟨(ih p1 f1 e).1, fun hn => (ih p1 f1 e).2 (by simpa [nullE, nullAny] using hn)⟩
  | alt_ok _ ih =>
    intro p1 f1 e
    refine ⟨(ih p1 f1 e).1, fun hn => (ih p1 f1 e).2 ?_⟩
    simp only [nullE, nullAny, Bool.or_eq_false_iff] at hn
    exact hn.1
  | alt_next _ _ _ ih2 =>
    intro p1 f1 e
    refine ⟨(ih2 p1 f1 e).1, fun hn => (ih2 p1 f1 e).2 ?_⟩
    simp only [nullE, nullAny, Bool.or_eq_false_iff] at hn
    simp only [nullE, nullAny, Bool.or_eq_false_iff]
    exact hn.2
  | ualt hidx _ ih =>
    intro p1 f1 e
    refine ⟨(ih p1 f1 e).1, fun hn => (ih p1 f1 e).2 ?_⟩
    simp only [nullE] at hn
    exact nullAny_false hn _ (List.mem_of_getElem? hidx)
  | query_ok _ ih =>
    intro p1 f1 e
    exact ⟨(ih p1 f1 e).1, fun hn => by simp [nullE] at hn⟩
  | star_step _ _ ih1 ih2 =>
    intro p1 f1 e; cases e
    have h1 := ih1 _ _ rfl
    have h2 := ih2 _ _ rfl
    exact ⟨by omega, fun hn => by simp [nullE] at hn⟩
  | plus_ok _ _ ih1 ih2 =>
    intro p1 f1 e; cases e
    have h1 := ih1 _ _ rfl
    have h2 := ih2 _ _ rfl
    refine ⟨by omega, fun hn => ?_⟩
    have := h1.2 (by simpa [nullE] using hn); omega
  | push_ok _ _ ih =>
    intro p1 f1 e; cases e
    exact ⟨(ih _ _ rfl).1, fun hn => (ih _ _ rfl).2 (by simpa [nullE] using hn)⟩
  | ipush_ok _ _ ih =>
    intro p1 f1 e; cases e
    exact ⟨(ih _ _ rfl).1, fun hn => (ih _ _ rfl).2 (by simpa [nullE] using hn)⟩
  | _ => intro p1 f1 e; cases e <;> exact ⟨Nat.le_refl _, fun hn => by simp [nullE, nullAll] at hn⟩

/-- **A non-nullable expression that succeeds consumes input.** -/
theorem Eval_consumes {G : Grammar} {ρ : String → Nat → Bool} {inp N} (hcl : closedB G N = true)
    {e p p' f evs} (h : Eval G ρ inp e p (.ok p' f) evs) (hn : nullE N e = false) : p < p' :=
  (Eval_adv hcl h _ _ rfl).2 hn

/-! ## 5. Totality -/

/-- `e` has an outcome at `p`. -/
def Tot (G : Grammar) (ρ : String → Nat → Bool) (inp : List Sym) (e : Expr) (p : Nat) : Prop :=
  ∃ res evs, Eval G ρ inp e p res evs

/-- A sequence of total expressions is total. -/
theorem seq_total {G : Grammar} {ρ : String → Nat → Bool} {inp} {es : List Expr} {p0 : Nat}
    (h : ∀ e ∈ es, ∀ p, p0 ≤ p → p ≤ inp.length → Tot G ρ inp e p) :
    ∀ p, p0 ≤ p → p ≤ inp.length → Tot G ρ inp (.seq es) p := by
  induction es with
  | nil => intro p _ _; exact ⟨_, _, .seq_nil⟩
  | cons e es ih =>
    intro p hp hl
    obtain ⟨res, evs, he⟩ := h e (by simp) p hp hl
    cases res with
    | fail => exact ⟨_, _, .seq_fail he⟩
    | ok p1 f1 =>
      have hb := Eval_le_len he hl _ _ rfl
      obtain ⟨res2, evs2, h2⟩ :=
        ih (fun e' he' => h e' (by simp [he'])) p1 (by omega) hb.2
      cases res2 with
      | fail => exact ⟨_, _, .seq_ok_fail he h2⟩
      | ok p2 f2 => exact ⟨_, _, .seq_ok he h2⟩

/-- The greedy loop over a total non-nullable body terminates (and succeeds). -/
theorem star_total {G : Grammar} {ρ : String → Nat → Bool} {inp N} (hcl : closedB G N = true)
    {e : Expr} (hne : nullE N e = false) {p0 : Nat}
    (h : ∀ p, p0 ≤ p → p ≤ inp.length → Tot G ρ inp e p) :
    ∀ k p, inp.length - p = k → p0 ≤ p → p ≤ inp.length →
      ∃ p2 f evs, Eval G ρ inp (.star e) p (.ok p2 f) evs := by
  intro k
  induction k using Nat.strongRecOn with
  | _ k ih =>
    intro p hk hp hl
    obtain ⟨res, evs, he⟩ := h p hp hl
    cases res with
    | fail => exact ⟨_, _, _, .star_stop he⟩
    | ok p1 f1 =>
      have hb := Eval_le_len he hl _ _ rfl
      have hc := Eval_consumes hcl he hne
      obtain ⟨p2, f2, evs2, h2⟩ := ih (inp.length - p1) (by omega) p1 rfl (by omega) hb.2
      exact ⟨_, _, _, .star_step he h2⟩

theorem isAct_cases (e : Expr) : (∃ c, e = .act c) ∨ e.isAct = false := by
  cases e <;> simp [Expr.isAct]

/-- Ford's induction: outer on the remaining input, inner on the height of the WF derivation
    (which bounds both the chain of first-position references and the structure). -/
theorem total_aux {G : Grammar} {ρ : String → Nat → Bool} {inp N F} (hcl : closedB G N = true)
    (hall : ∀ n b, G.body n = some b → subsB G N F b = true) :
    ∀ k f e, wfF G N f e = true → subsB G N F e = true →
      ∀ p, inp.length - p = k → Tot G ρ inp e p := by
  intro k
  induction k using Nat.strongRecOn with
  | _ k IHk =>
    intro f
    induction f with
    | zero => intro e h; simp [wfF] at h
    | succ f IHf =>
      intro e hw hs p hk
      have later : ∀ e', wfF G N F e' = true → subsB G N F e' = true →
          ∀ p', p < p' → p' ≤ inp.length → Tot G ρ inp e' p' :=
        fun e' h1 h2 p' hp hl' => IHk (inp.length - p') (by omega) F e' h1 h2 p' rfl
      cases e with
      | dot =>
        cases hc : inp[p]? with
        | none => exact ⟨_, _, .dot_fail hc⟩
        | some c => exact ⟨_, _, .dot_ok hc⟩
      | chr c =>
        by_cases hc : inp[p]? = some c
        · exact ⟨_, _, .chr_ok hc⟩
        · exact ⟨_, _, .chr_fail hc⟩
      | rng lo hi =>
        cases hc : inp[p]? with
        | none => exact ⟨_, _, .rng_fail (fun c h1 => by rw [hc] at h1; cases h1)⟩
        | some c =>
          rcases Nat.lt_or_ge c lo with h2 | h2
          · exact ⟨_, _, .rng_fail (fun c' h1 => by rw [hc] at h1; cases h1; exact Or.inl h2)⟩
          · rcases Nat.lt_or_ge hi c with h3 | h3
            · exact ⟨_, _, .rng_fail (fun c' h1 => by rw [hc] at h1; cases h1; exact Or.inr h3)⟩
            · exact ⟨_, _, .rng_ok hc h2 h3⟩
      | str s =>
        cases hc : matchesAt inp s p with
        | true => exact ⟨_, _, .str_ok hc⟩
        | false => exact ⟨_, _, .str_fail hc⟩
      | name n =>
        simp only [wfF] at hw
        cases hb : G.body n with
        | none => simp [hb] at hw
        | some b =>
          simp only [hb] at hw
          obtain ⟨res, evs, he⟩ := IHf b hw (hall n b hb) p hk
          exact ⟨_, _, .name hb he⟩
      | inl n e =>
        simp only [wfF] at hw
        simp only [subsB, Bool.and_eq_true] at hs
        obtain ⟨res, evs, he⟩ := IHf e hw hs.2 p hk
        exact ⟨_, _, .inl he⟩
      | pred c =>
        cases hc : ρ c p with
        | true => exact ⟨_, _, .pred_ok hc⟩
        | false => exact ⟨_, _, .pred_fail hc⟩
      | stmt c => exact ⟨_, _, .stmt⟩
      | act c => exact ⟨_, _, .act⟩
      | nil => exact ⟨_, _, .nil⟩
      | seq es =>
        cases es with
        | nil => exact ⟨_, _, .seq_nil⟩
        | cons e es =>
          simp only [wfF, Bool.and_eq_true, Bool.or_eq_true, Bool.not_eq_true'] at hw
          simp only [subsB, subsL, Bool.and_eq_true] at hs
          obtain ⟨res, evs, he⟩ := IHf e hw.1 hs.1.2 p hk
          cases res with
          | fail => exact ⟨_, _, .seq_fail he⟩
          | ok p1 f1 =>
            have hb := Eval_pos he _ _ rfl
            have hrest : Tot G ρ inp (.seq es) p1 := by
              by_cases hpp : p1 = p
              · subst hpp
                rcases hw.2 with hn | hw2
                · have := Eval_consumes hcl he hn; omega
                · exact IHf (.seq es) hw2 (by simpa [subsB] using hs.2) p1 hk
              · exact seq_total (p0 := p + 1)
                  (fun e' he' p' hp' hl' =>
                    later e' (subsL_mem hs.2 e' he').1 (subsL_mem hs.2 e' he').2 p' (by omega) hl')
                  p1 (by omega) (hb.2 (by omega))
            obtain ⟨res2, evs2, h2⟩ := hrest
            cases res2 with
            | fail => exact ⟨_, _, .seq_ok_fail he h2⟩
            | ok p2 f2 => exact ⟨_, _, .seq_ok he h2⟩
      | alt es =>
        cases es with
        | nil => simp [wfF] at hw
        | cons e es =>
          cases es with
          | nil =>
            simp only [wfF] at hw
            simp only [subsB, subsL, Bool.and_eq_true] at hs
            obtain ⟨res, evs, he⟩ := IHf e hw hs.1.2 p hk
            exact ⟨_, _, .alt_last he⟩
          | cons e' es =>
            simp only [wfF, Bool.and_eq_true] at hw
            have hs' := hs
            simp only [subsB] at hs'
            rw [subsL] at hs'
            simp only [Bool.and_eq_true] at hs'
            obtain ⟨res, evs, he⟩ := IHf e hw.1 hs'.1.2 p hk
            cases res with
            | ok p1 f1 => exact ⟨_, _, .alt_ok he⟩
            | fail =>
              obtain ⟨res2, evs2, h2⟩ :=
                IHf (.alt (e' :: es)) hw.2 (by simpa [subsB] using hs'.2) p hk
              exact ⟨_, _, .alt_next he h2⟩
      | ualt ks es =>
        simp only [wfF, Bool.and_eq_true, Bool.not_eq_true', List.isEmpty_eq_false_iff,
          List.all_eq_true] at hw
        simp only [subsB] at hs
        have hlt := ualt_case_lt ks hw.1 (peek inp p)
        have hidx : es[caseIdx (ks.take (es.length - 1)) (peek inp p)]? =
            some es[caseIdx (ks.take (es.length - 1)) (peek inp p)] := List.getElem?_eq_getElem hlt
        have hm := List.getElem_mem hlt
        obtain ⟨res, evs, he⟩ := IHf _ (hw.2 _ hm) (subsL_mem hs _ hm).2 p hk
        exact ⟨_, _, .ualt hidx he⟩
      | peekFor e =>
        simp only [wfF] at hw
        simp only [subsB, Bool.and_eq_true] at hs
        obtain ⟨res, evs, he⟩ := IHf e hw hs.2 p hk
        cases res with
        | ok p1 f1 => exact ⟨_, _, .peekFor_ok he⟩
        | fail => exact ⟨_, _, .peekFor_fail he⟩
      | peekNot e =>
        simp only [wfF] at hw
        simp only [subsB, Bool.and_eq_true] at hs
        obtain ⟨res, evs, he⟩ := IHf e hw hs.2 p hk
        cases res with
        | ok p1 f1 => exact ⟨_, _, .peekNot_fail he⟩
        | fail => exact ⟨_, _, .peekNot_ok he⟩
      | query e =>
        simp only [wfF] at hw
        simp only [subsB, Bool.and_eq_true] at hs
        obtain ⟨res, evs, he⟩ := IHf e hw hs.2 p hk
        cases res with
        | ok p1 f1 => exact ⟨_, _, .query_ok he⟩
        | fail => exact ⟨_, _, .query_none he⟩
      | star e =>
        simp only [wfF, Bool.and_eq_true, Bool.not_eq_true'] at hw
        simp only [subsB, Bool.and_eq_true] at hs
        obtain ⟨res, evs, he⟩ := IHf e hw.2 hs.2 p hk
        cases res with
        | fail => exact ⟨_, _, .star_stop he⟩
        | ok p1 f1 =>
          have hb := Eval_pos he _ _ rfl
          have hc := Eval_consumes hcl he hw.1
          obtain ⟨p2, f2, evs2, h2⟩ := star_total hcl hw.1 (p0 := p + 1)
            (fun p' hp' hl' => later e hs.1 hs.2 p' (by omega) hl')
            (inp.length - p1) p1 rfl (by omega) (hb.2 hc)
          exact ⟨_, _, .star_step he h2⟩
      | plus e =>
        simp only [wfF, Bool.and_eq_true, Bool.not_eq_true'] at hw
        simp only [subsB, Bool.and_eq_true] at hs
        obtain ⟨res, evs, he⟩ := IHf e hw.2 hs.2 p hk
        cases res with
        | fail => exact ⟨_, _, .plus_fail he⟩
        | ok p1 f1 =>
          have hb := Eval_pos he _ _ rfl
          have hc := Eval_consumes hcl he hw.1
          obtain ⟨p2, f2, evs2, h2⟩ := star_total hcl hw.1 (p0 := p + 1)
            (fun p' hp' hl' => later e hs.1 hs.2 p' (by omega) hl')
            (inp.length - p1) p1 rfl (by omega) (hb.2 hc)
          exact ⟨_, _, .plus_ok he h2⟩
      | push e r =>
        simp only [wfF] at hw
        simp only [subsB, Bool.and_eq_true] at hs
        rcases isAct_cases e with ⟨c, rfl⟩ | hna
        · exact ⟨_, _, .push_act⟩
        · obtain ⟨res, evs, he⟩ := IHf e hw hs.2 p hk
          cases res with
          | ok p1 f1 => exact ⟨_, _, .push_ok hna he⟩
          | fail => exact ⟨_, _, .push_fail hna he⟩
      | ipush e r =>
        simp only [wfF] at hw
        simp only [subsB, Bool.and_eq_true] at hs
        rcases isAct_cases e with ⟨c, rfl⟩ | hna
        · exact ⟨_, _, .ipush_act⟩
        · obtain ⟨res, evs, he⟩ := IHf e hw hs.2 p hk
          cases res with
          | ok p1 f1 => exact ⟨_, _, .ipush_ok hna he⟩
          | fail => exact ⟨_, _, .ipush_fail hna he⟩

/-! ## 6. The theorems -/

theorem WFB_closed {G : Grammar} (hwf : WFB G = true) : closedB G (nullSet G) = true := by
  simp only [WFB, Bool.and_eq_true] at hwf; exact hwf.1

/-- `WFB` establishes local well-formedness of every rule body. -/
theorem WFB_body {G : Grammar} (hwf : WFB G = true) {n b} (h : G.body n = some b) : WFE G b := by
  simp only [WFB, Bool.and_eq_true] at hwf
  obtain ⟨r, hr, rfl, rfl⟩ := body_mem h
  have := (List.all_eq_true.mp hwf.2) r hr
  simpa [WFE] using this

/-- Local well-formedness is inherited by sub-expressions. -/
theorem WFE_child {G : Grammar} {e e' : Expr} (h : WFE G e) (hc : Child e' e) : WFE G e' := by
  obtain ⟨_, hs⟩ := h
  cases hc with
  | seq hm => simp only [subsB] at hs; exact subsL_mem hs _ hm
  | alt hm => simp only [subsB] at hs; exact subsL_mem hs _ hm
  | ualt hm => simp only [subsB] at hs; exact subsL_mem hs _ hm
  | _ => simpa [subsB, WFE] using hs

theorem WFE_inGrammar {G : Grammar} (hwf : WFB G = true) {e : Expr} (h : InGrammar G e) :
    WFE G e := by
  induction h with
  | body hb => exact WFB_body hwf hb
  | child _ hc ih => exact WFE_child ih hc

/-- **Totality for expressions**: in a well-formed grammar every locally well-formed expression has
    an outcome at every position of every input, for every interpretation of the predicates. -/
theorem Eval_total_expr {G : Grammar} {ρ : String → Nat → Bool} (hwf : WFB G = true)
    {e : Expr} (he : WFE G e) :
    ∀ (inp : List Sym) (p : Nat), p ≤ inp.length → ∃ res evs, Eval G ρ inp e p res evs :=
  fun inp p _ =>
    total_aux (WFB_closed hwf) (fun _ _ hb => (WFB_body hwf hb).2)
      (inp.length - p) (wfFuel G) e he.1 he.2 p rfl

/-- Totality without the assumption that the position is inside the input (beyond the end every
    terminal fails). -/
theorem Eval_total_expr' {G : Grammar} {ρ : String → Nat → Bool} (hwf : WFB G = true)
    {e : Expr} (he : WFE G e) :
    ∀ (inp : List Sym) (p : Nat), ∃ res evs, Eval G ρ inp e p res evs :=
  fun inp p =>
    total_aux (WFB_closed hwf) (fun _ _ hb => (WFB_body hwf hb).2)
      (inp.length - p) (wfFuel G) e he.1 he.2 p rfl

/-- Totality for every sub-expression occurring in a rule body. -/
theorem Eval_total_inGrammar {G : Grammar} {ρ : String → Nat → Bool} (hwf : WFB G = true)
    {e : Expr} (he : InGrammar G e) :
    ∀ (inp : List Sym) (p : Nat), p ≤ inp.length → ∃ res evs, Eval G ρ inp e p res evs :=
  Eval_total_expr hwf (WFE_inGrammar hwf he)

/-- **Ford's totality theorem**: in a well-formed grammar every rule has an outcome at every
    position of every input. -/
theorem Eval_total {G : Grammar} {ρ : String → Nat → Bool} (hwf : WFB G = true) :
    ∀ (inp : List Sym) (n : String) (b : Expr), G.body n = some b →
      ∀ p, p ≤ inp.length → ∃ res evs, Eval G ρ inp (.name n) p res evs := by
  intro inp n b hb p hl
  obtain ⟨res, evs, he⟩ := Eval_total_expr (ρ := ρ) hwf (WFB_body hwf hb) inp p hl
  exact ⟨res, evs, .name hb he⟩

theorem Eval_total' {G : Grammar} {ρ : String → Nat → Bool} (hwf : WFB G = true) :
    ∀ (inp : List Sym) (n : String) (b : Expr), G.body n = some b →
      ∀ p, ∃ res evs, Eval G ρ inp (.name n) p res evs := by
  intro inp n b hb p
  obtain ⟨res, evs, he⟩ := Eval_total_expr' (ρ := ρ) hwf (WFB_body hwf hb) inp p
  exact ⟨res, evs, .name hb he⟩

/-- With determinism: the outcome exists and is unique. -/
theorem Eval_total_unique {G : Grammar} {ρ : String → Nat → Bool} (hwf : WFB G = true)
    {inp : List Sym} {n : String} {b : Expr} (hb : G.body n = some b) {p : Nat}
    (hl : p ≤ inp.length) :
    ∃ res evs, Eval G ρ inp (.name n) p res evs ∧
      ∀ res' evs', Eval G ρ inp (.name n) p res' evs' → res' = res ∧ evs' = evs := by
  obtain ⟨res, evs, he⟩ := Eval_total (ρ := ρ) hwf inp n b hb p hl
  exact ⟨res, evs, he, fun _ _ h' => Eval_det h' he⟩

/-! ## 7. The check is executable -/

/-- The example grammar of `Props/C01.lean`. -/
def totG : Grammar := { rules := [
  { name := "S", id := 0, body := .ipush (.seq [.star (.alt [.name "A", .chr 98]), .peekNot .dot]) "S" },
  { name := "A", id := 1, body := .ipush (.push (.chr 97) "PegText") "A" }] }

example : WFB totG = true := by decide

/-- Directly left-recursive: `E <- E '+' 'n' / 'n'`. -/
def lrG : Grammar := { rules := [
  { name := "E", id := 0, body := .alt [.seq [.name "E", .chr 43, .chr 110], .chr 110] }] }

example : WFB lrG = false := by decide

/-- Left-recursive through a nullable prefix: `A <- B? A 'a' / 'a'`, `B <- 'b'`. -/
def lrG2 : Grammar := { rules := [
  { name := "A", id := 0, body := .alt [.seq [.query (.name "B"), .name "A", .chr 97], .chr 97] },
  { name := "B", id := 1, body := .chr 98 }] }

example : WFB lrG2 = false := by decide

/-- A loop over a nullable body: `S <- (A?)*`. -/
def loopG : Grammar := { rules := [
  { name := "S", id := 0, body := .star (.query (.name "A")) },
  { name := "A", id := 1, body := .chr 97 }] }

example : WFB loopG = false := by decide

/-- An undefined reference. -/
example : WFB { rules := [{ name := "S", id := 0, body := .name "T" }] } = false := by decide

/-- Right recursion and nullable rules are fine: `S <- 'a' S / T`, `T <- 'b'?`. -/
def rrG : Grammar := { rules := [
  { name := "S", id := 0, body := .alt [.seq [.chr 97, .name "S"], .name "T"] },
  { name := "T", id := 1, body := .query (.chr 98) }] }

example : WFB rrG = true := by decide
example : nullSet rrG = ["S", "T"] := by decide

/-- A `-switch` node: `S <- switch { 'a': 'a' 'x'; default: 'b' } !.`; the empty one is rejected. -/
def swG : Grammar := { rules := [
  { name := "S", id := 0,
    body := .seq [.ualt [[(97, 97)], []] [.seq [.chr 97, .chr 120], .chr 98], .peekNot .dot] }] }

example : WFB swG = true := by decide
example : WFB { rules := [{ name := "S", id := 0, body := .ualt [] [] }] } = false := by decide
/-- … and a left recursion through a case is still found. -/
example : WFB { rules := [{ name := "S", id := 0, body := .ualt [[(97, 97)], []] [.chr 97, .name "S"] }] }
    = false := by decide

example : ∀ inp p, p ≤ inp.length → ∃ res evs, Eval totG (fun _ _ => true) inp (.name "S") p res evs :=
  fun inp p => Eval_total (by decide) inp "S" _ rfl p

end PegVerif

#print axioms PegVerif.Eval_total
#print axioms PegVerif.Eval_total_expr
#print axioms PegVerif.Eval_total_inGrammar
#print axioms PegVerif.Eval_consumes
