import PegVerif.Proofs.AllOptionsDef
import PegVerif.Proofs.FastCheck
import PegVerif.Proofs.Kacts
import PegVerif.Props.C01
import PegVerif.Props.C02
import PegVerif.Props.C02Switch
import PegVerif.Props.C02InlineSwitch
import PegVerif.Props.C07
import PegVerif.Props.C07Switch
import PegVerif.Props.C07Inline
import PegVerif.Props.C12
/-
  Summary over all eight option sets of peg (`-inline`, `-switch`, `-noast` and their combinations).

  `G` is the linked grammar, `G'` the grammar the emission works on (`G' = optimise G` with
  `-switch`, `G' = G` otherwise); the emitted program is `compileAll o G'`, the default parser is
  `compileAll dfltOpts G`.  One decidable hypothesis, `theoremApplies o G G'`
  (`Proofs/AllOptionsDef.lean`): the default parser's hypotheses on `G` (`WFB`, `GrammarOK`,
  `LinkedOK`, plain bodies) and the side condition of the option set:

      ''    Props/C01.lean              –
      i     Props/C02.lean              GrammarOKI G
      s     Props/C02Switch.lean        switchSafe G G'
      is    Props/C02InlineSwitch.lean  inlineSwitchSafe G G'
      n     Props/C07.lean              GrammarOKN (Kacts G) G
      in    Props/C07Inline.lean        inlineNoastSafeK (Kacts G) G
      sn    Props/C07Switch.lean        noastSwitchSafeK (Kacts G') G G'
      isn   Props/C07Inline.lean        inlineNoastSwitchSafeK (Kacts G') G G'

  `theoremApplies` EVALUATES cheap versions of `GrammarOK`, `GrammarOKI`, `switchSafe`,
  `inlineSwitchSafe`, `noastSwitchSafeK` (`Proofs/FastCheckDef.lean`: the reachability closure, the
  reference counts and the table of the rules that get a function are computed once and shared by
  all rules), proved EQUAL to the checkers of the table in `Proofs/FastCheck.lean`.

  The `-noast` rows use the kit `Kacts` (`Proofs/KactsDef.lean`: of the machine's trace, the entries
  of actions are compared and the entries of state-change statements are not), so grammars WITH
  state-change statements are covered — the summary theorems speak about verdict, position and (in
  AST mode) tokens, for which the refinement theorems hold with any kit.  A statement whose code
  coincides with the code of an action is rejected.  The `Kall` instances `GrammarOKN (Kall G) G`,
  `inlineNoastSafe`, `noastSwitchSafe`, `inlineNoastSwitchSafe` (no statement at all) imply the rows
  above (`Proofs/Kacts.lean`).

  * `option_parser_spec`        every option set against the PEG semantics of `G` (one shape);
  * `all_options_same_verdict`  every option set against the default parser;
  * `all_options_run_exists`    termination;
  * non-vacuity: one grammar for which `theoremApplies` holds for all eight option sets, with the
    output of the modelled optimiser as `G'`; and one WITH STATE-CHANGE STATEMENTS (`Gstmt`).

  Nothing is proved anew about the emission: each case is the end-to-end theorem (or the `World`
  lemma and refinement theorem behind it) of the file named in the table.
-/
namespace PegVerif
open Noast

/-! ### The parts of `theoremApplies` -/

theorem theoremApplies_default {o : Opts} {G G' : Grammar} (h : theoremApplies o G G' = true) :
    defaultParserOK G = true := by
  simp only [theoremApplies, Bool.and_eq_true] at h; exact h.1

theorem theoremApplies_optionSet {o : Opts} {G G' : Grammar} (h : theoremApplies o G G' = true) :
    optionSetOK o G G' = true := by
  simp only [theoremApplies, Bool.and_eq_true] at h; exact h.2

/-- The default option set asks for nothing beyond the default parser's hypotheses. -/
theorem theoremApplies_dflt {o : Opts} {G G' : Grammar} (h : theoremApplies o G G' = true) :
    theoremApplies dfltOpts G G = true := by
  simp only [theoremApplies, Bool.and_eq_true]
  exact ⟨theoremApplies_default h, rfl⟩

theorem defaultParserOK_iff {G : Grammar} (h : defaultParserOK G = true) :
    WFB G = true ∧ GrammarOK G = true ∧ LinkedOK G = true ∧ G.plain := by
  simp only [defaultParserOK, GrammarOKfast_eq, Bool.and_eq_true] at h
  exact ⟨h.1.1.1, h.1.1.2, h.1.2, Grammar.plain_of_all h.2⟩

/-- `defaultParserOK` in terms of the checker the theorems of `Props/C01.lean` are stated with. -/
theorem defaultParserOK_eq (G : Grammar) :
    defaultParserOK G = (WFB G && GrammarOK G && LinkedOK G && G.rules.all (fun r => r.body.plain)) := by
  simp only [defaultParserOK, GrammarOKfast_eq]

/-- **The table of the header is what `optionSetOK` computes**: the cheap checkers it evaluates are
    equal to the side conditions the per-option theorems are stated with. -/
theorem optionSetOK_eq (o : Opts) (G G' : Grammar) :
    optionSetOK o G G' =
      match o.inline, o.switch, o.ast with
      | false, false, true  => true
      | true,  false, true  => GrammarOKI G
      | false, true,  true  => switchSafe G G'
      | true,  true,  true  => inlineSwitchSafe G G'
      | false, false, false => GrammarOKN (Kacts G) G
      | true,  false, false => inlineNoastSafeK (Kacts G) G
      | false, true,  false => noastSwitchSafeK (Kacts G') G G'
      | true,  true,  false => inlineNoastSwitchSafeK (Kacts G') G G' := by
  obtain ⟨i, s, a⟩ := o
  cases i <;> cases s <;> cases a <;>
    simp only [optionSetOK, GrammarOKIfast_eq, switchSafeFast_eq, inlineSwitchSafeFast_eq, noastSafeA,
      inlineNoastSafeA, noastSwitchSafeA, noastSwitchSafeKfast_eq, inlineNoastSwitchSafeA]

/-- Nothing is lost with respect to the `Kall` instances (no state-change statement at all) that
    `optionSetOK` was defined with before. -/
theorem optionSetOK_of_Kall (o : Opts) (G G' : Grammar)
    (h : (match o.inline, o.switch, o.ast with
      | false, false, true  => true
      | true,  false, true  => GrammarOKI G
      | false, true,  true  => switchSafe G G'
      | true,  true,  true  => inlineSwitchSafe G G'
      | false, false, false => GrammarOKN (Kall G) G
      | true,  false, false => inlineNoastSafe G
      | false, true,  false => noastSwitchSafe G G'
      | true,  true,  false => inlineNoastSwitchSafe G G') = true) :
    optionSetOK o G G' = true := by
  obtain ⟨i, s, a⟩ := o
  cases i <;> cases s <;> cases a <;> simp only at h <;>
    simp only [optionSetOK, GrammarOKIfast_eq, switchSafeFast_eq, inlineSwitchSafeFast_eq]
  · exact noastSafeA_of_Kall h
  · exact noastSwitchSafeA_of_Kall h
  · exact h
  · exact inlineNoastSafeA_of_Kall h
  · exact h
  · exact inlineNoastSwitchSafeA_of_Kall h
  · exact h

/-- `allOpts` lists every option set. -/
theorem mem_allOpts (o : Opts) : o ∈ allOpts := by
  obtain ⟨i, s, a⟩ := o
  cases i <;> cases s <;> cases a <;> simp [allOpts]

/-! ### One shape for "the run is the one the semantics prescribes" -/

/-- What a run (`out`, final state `t'`) of a rule function entered at position 0 has to look like
    when the PEG semantics assigns the rule the outcome `res`: no panic; on `.ok p' f` it returns
    true at `p'` and — in AST mode — has published exactly the post-order of the forest `f`; on
    `.fail` it returns false and is back at 0. -/
def RunSpec (ast : Bool) (res : Res) (out : Outcome) (t' : St) : Prop :=
  out ≠ .panic ∧
  match res with
  | .ok p' f => out = .ret true ∧ t'.pos = p' ∧ (ast = true → t'.tree.take t'.ti = postorderL f)
  | .fail => out = .ret false ∧ t'.pos = 0

/-- AST mode: `RunSpec` from `World` (R through C01 / C12), from any post-`Reset` state. -/
theorem runSpec_of_world {P : Program} {cfg : Cfg} {env : CEnv} {G : Grammar} {inp : List Sym}
    (hW : World P cfg env G inp) {n cr res evs s out s'}
    (hs : AfterReset s) (hfind : P.find n = some cr)
    (hev : Eval G cfg.rho inp (.name n) 0 res evs)
    (hrun : Exec P cfg inp cr 0 s Frame.empty (out, s')) : RunSpec true res out s' := by
  have h := C12_reset_like_fresh hW hs hfind hev hrun
  have hf := C01_refines_anywhere hW hfind hev hs.1 (Nat.zero_le _)
    (by rw [hs.2.1]; exact Nat.zero_le _) (by rw [hs.2.2.2]; exact memoOK_nil) hrun
  cases res with
  | ok p' f => exact ⟨(by rw [h.1]; intro e; cases e), h.1, h.2.1, fun _ => h.2.2⟩
  | fail => exact ⟨(by rw [h.1]; intro e; cases e), h.1, hf.2.1⟩

/-- AST mode: `RunSpec` from the conclusion of `C02_switch_parser` / `C02_inline_switch_parser`. -/
theorem runSpec_of_match {res : Res} {out : Outcome} {t' : St}
    (h : out ≠ .panic ∧
      match res with
      | .ok p' forest => out = .ret true ∧ t'.pos = p' ∧ t'.tree.take t'.ti = postorderL forest
      | .fail => out = .ret false ∧ t'.pos = 0) : RunSpec true res out t' := by
  cases res with
  | ok p' f => exact ⟨h.1, h.2.1, h.2.2.1, fun _ => h.2.2.2⟩
  | fail => exact ⟨h.1, h.2.1, h.2.2⟩

/-- `-noast`: `RunSpec` from the conclusion of `C07_verdict` and its variants at position 0. -/
theorem runSpec_of_verdict {res : Res} {out : Outcome} {t' : St}
    (h : out ≠ .panic ∧ (out = .ret true ↔ ∃ p' f, res = .ok p' f) ∧ (out = .ret false ↔ res = .fail) ∧
      (∀ p' f, res = .ok p' f → t'.pos = p') ∧ (res = .fail → t'.pos = 0)) :
    RunSpec false res out t' := by
  obtain ⟨h1, h2, h3, h4, h5⟩ := h
  cases res with
  | ok p' f => exact ⟨h1, h2.2 ⟨p', f, rfl⟩, h4 p' f rfl, fun e => by cases e⟩
  | fail => exact ⟨h1, h3.2 rfl, h5 rfl⟩

/-- The rule body behind a body of the expanded grammar. -/
theorem body_of_expandG_body {o : Opts} {G : Grammar} {n : String} {b : Expr}
    (hb : (expandG o G).body n = some b) : ∃ b0, G.body n = some b0 := by
  rw [expandG_body] at hb
  cases hf : G.find n with
  | none => rw [hf] at hb; cases hb
  | some r => exact ⟨r.body, by simp [Grammar.body, hf]⟩

/-! ### Every option set against the PEG semantics of the linked grammar -/

/-- The conclusion shared by all eight cases: the semantics of the LINKED grammar `G` assigns rule
    `n` an outcome at position 0, a run of the emitted function from a fresh parser exists, and
    every run from a post-`Reset` state is the one that outcome prescribes. -/
def ParserSpec (o : Opts) (G G' : Grammar) (cfg : Cfg) (inp : List Sym) (n : String) (cr : Code) : Prop :=
  ∃ res evs, Eval G cfg.rho inp (.name n) 0 res evs ∧
    (∃ out t', Exec (compileAll o G') cfg inp cr 0 St.init Frame.empty (out, t')) ∧
    ∀ t out t', AfterReset t → Exec (compileAll o G') cfg inp cr 0 t Frame.empty (out, t') →
      RunSpec o.ast res out t'

section cases
variable (G G' : Grammar) (o : Opts) (cfg : Cfg) (inp : List Sym) (hinp : ∀ c ∈ inp, c ≠ END)
  {n : String} {cr : Code}
include hinp

/-- '' (`Props/C01.lean`). -/
theorem spec_dflt (hd : defaultParserOK G = true)
    (hinl : o.inline = false) (hsw : o.switch = false) (hast : o.ast = true) (hcfg : cfg.ast = true)
    (hfind : (compileAll o G).find n = some cr) : ParserSpec o G G cfg inp n cr := by
  obtain ⟨hwf, hG, hL, hplain⟩ := defaultParserOK_iff hd
  have hW := compileAll_world (cfg := cfg) (inp := inp) hsw hinl hast hcfg hinp hG hL
    (fun _ h => alwaysSucceeds_sound hplain h)
  obtain ⟨_, b, _, _, hb, _⟩ := hW.rules n cr hfind
  obtain ⟨res, evs, hev⟩ := Eval_total (ρ := cfg.rho) hwf inp n b hb 0 (Nat.zero_le _)
  refine ⟨res, evs, hev, C01_run_exists hW hfind hev, ?_⟩
  intro t out t' ht hrun
  rw [hast]; exact runSpec_of_world hW ht hfind hev hrun

/-- i (`Props/C02.lean`). -/
theorem spec_i (hd : defaultParserOK G = true) (hI : GrammarOKI G = true)
    (hinl : o.inline = true) (hsw : o.switch = false) (hast : o.ast = true) (hcfg : cfg.ast = true)
    (hfind : (compileAll o G).find n = some cr) : ParserSpec o G G cfg inp n cr := by
  obtain ⟨hwf, _, hL, hplain⟩ := defaultParserOK_iff hd
  have hW := compileAll_world_inline' (cfg := cfg) (inp := inp) hinl hsw hast hcfg hinp hI hL hplain
  obtain ⟨_, b, _, _, hb, _⟩ := hW.rules n cr hfind
  obtain ⟨b0, hb0⟩ := body_of_expandG_body hb
  obtain ⟨res, evs, hev⟩ := Eval_total (ρ := cfg.rho) hwf inp n b0 hb0 0 (Nat.zero_le _)
  have hevX : Eval (expandG o G) cfg.rho inp (.name n) 0 res evs := Eval_expandG hev
  refine ⟨res, evs, hev, C01_run_exists hW hfind hevX, ?_⟩
  intro t out t' ht hrun
  rw [hast]; exact runSpec_of_world hW ht hfind hevX hrun

/-- s (`Props/C02Switch.lean`). -/
theorem spec_s (hd : defaultParserOK G = true) (hS : switchSafe G G' = true)
    (hinl : o.inline = false) (hast : o.ast = true) (hcfg : cfg.ast = true)
    (hfind : (compileAll o G').find n = some cr) : ParserSpec o G G' cfg inp n cr := by
  obtain ⟨hwf, _, _, _⟩ := defaultParserOK_iff hd
  obtain ⟨res, evs, hev, hex, hall⟩ := C02_switch_parser G G' o cfg inp hwf hS hinl hast hcfg hinp hfind
  refine ⟨res, evs, hev, hex, ?_⟩
  intro t out t' ht hrun
  rw [hast]; exact runSpec_of_match (hall t out t' ht hrun)

/-- is (`Props/C02InlineSwitch.lean`). -/
theorem spec_is (hd : defaultParserOK G = true) (hS : inlineSwitchSafe G G' = true)
    (hinl : o.inline = true) (hast : o.ast = true) (hcfg : cfg.ast = true)
    (hfind : (compileAll o G').find n = some cr) : ParserSpec o G G' cfg inp n cr := by
  obtain ⟨hwf, _, _, _⟩ := defaultParserOK_iff hd
  obtain ⟨res, evs, hev, hex, hall⟩ :=
    C02_inline_switch_parser G G' o cfg inp hwf hS hinl hast hcfg hinp hfind
  refine ⟨res, evs, hev, hex, ?_⟩
  intro t out t' ht hrun
  rw [hast]; exact runSpec_of_match (hall t out t' ht hrun)

/-- n (`Props/C07.lean`), for any kit. -/
theorem spec_n (K : NKit) (hd : defaultParserOK G = true) (hN : GrammarOKN K G = true)
    (hinl : o.inline = false) (hsw : o.switch = false) (hast : o.ast = false) (hcfg : cfg.ast = false)
    (hfind : (compileAll o G).find n = some cr) : ParserSpec o G G cfg inp n cr := by
  obtain ⟨hwf, hG, _, hplain⟩ := defaultParserOK_iff hd
  have hW := compileAll_worldN (K := K) (cfg := cfg) (inp := inp) hsw hinl hast hcfg hinp hG hN
    (fun _ h => alwaysSucceeds_sound hplain h)
  obtain ⟨_, b, _, _, hb, _⟩ := hW.rules n cr hfind
  obtain ⟨res, evs, hev⟩ := Eval_total (ρ := cfg.rho) hwf inp n b hb 0 (Nat.zero_le _)
  refine ⟨res, evs, hev, C07_runs hW hfind hev rfl (Nat.zero_le _), ?_⟩
  intro t out t' ht hrun
  rw [hast]; exact runSpec_of_verdict (C07_verdict hW hfind hev ht.1 (Nat.zero_le _) hrun)

/-- in (`Props/C07Inline.lean`), for any kit (`inline_noast_world` + the theorems over `WorldNS`). -/
theorem spec_in (K : NKit) (hd : defaultParserOK G = true) (hS : inlineNoastSafeK K G = true)
    (hinl : o.inline = true) (hast : o.ast = false) (hcfg : cfg.ast = false)
    (hfind : (compileAll o G).find n = some cr) : ParserSpec o G G cfg inp n cr := by
  obtain ⟨hwf, _, _, _⟩ := defaultParserOK_iff hd
  have hW := inline_noast_world K G o cfg inp hS hinl hast hcfg hinp
  obtain ⟨_, b, _, _, hb, _⟩ := hW.rules n cr hfind
  obtain ⟨b0, hb0⟩ := body_of_expandG_body hb
  obtain ⟨res, evs, hev⟩ := Eval_total (ρ := cfg.rho) hwf inp n b0 hb0 0 (Nat.zero_le _)
  refine ⟨res, evs, hev,
    C07_inline_runs K G o cfg inp hS hinl hast hcfg hinp hfind hev rfl (Nat.zero_le _), ?_⟩
  intro t out t' ht hrun
  rw [hast]
  exact runSpec_of_verdict
    (C07_switch_verdict_world hW hfind (Eval_expandG hev) ht.1 (Nat.zero_le _) hrun)

/-- sn (`Props/C07Switch.lean`), for any kit (`noast_switch_world`, `noast_switch_outcome` + the
    theorems over `WorldNS`: the proof of `C07_switch_verdict`). -/
theorem spec_sn (K : NKit) (hd : defaultParserOK G = true) (hS : noastSwitchSafeK K G G' = true)
    (hinl : o.inline = false) (hast : o.ast = false) (hcfg : cfg.ast = false)
    (hfind : (compileAll o G').find n = some cr) : ParserSpec o G G' cfg inp n cr := by
  obtain ⟨hwf, _, _, _⟩ := defaultParserOK_iff hd
  have hW := noast_switch_world K G G' o cfg inp hS hinl hast hcfg hinp
  obtain ⟨res, evs, evs', hev, hev'⟩ := noast_switch_outcome hwf hS hW hfind (p := 0) (Nat.zero_le _)
  refine ⟨res, evs, hev, C07_switch_runs hW hfind hev' rfl (Nat.zero_le _), ?_⟩
  intro t out t' ht hrun
  rw [hast]
  exact runSpec_of_verdict (C07_switch_verdict_world hW hfind hev' ht.1 (Nat.zero_le _) hrun)

/-- isn (`Props/C07Inline.lean`), for any kit (`inline_noast_switch_world`,
    `inline_noast_switch_outcome` + the theorems over `WorldNS`: the proof of
    `C07_inline_switch_verdict`). -/
theorem spec_isn (K : NKit) (hd : defaultParserOK G = true) (hS : inlineNoastSwitchSafeK K G G' = true)
    (hinl : o.inline = true) (hast : o.ast = false) (hcfg : cfg.ast = false)
    (hfind : (compileAll o G').find n = some cr) : ParserSpec o G G' cfg inp n cr := by
  obtain ⟨hwf, _, _, _⟩ := defaultParserOK_iff hd
  have hW := inline_noast_switch_world K G G' o cfg inp hS hinl hast hcfg hinp
  obtain ⟨res, evs, evs', hev, _, hevX⟩ :=
    inline_noast_switch_outcome hwf hS hW hfind (p := 0) (Nat.zero_le _)
  refine ⟨res, evs, hev, C07_switch_runs hW hfind hevX rfl (Nat.zero_le _), ?_⟩
  intro t out t' ht hrun
  rw [hast]
  exact runSpec_of_verdict (C07_switch_verdict_world hW hfind hevX ht.1 (Nat.zero_le _) hrun)

end cases

/-- **Every option set against the PEG semantics.**  For every option set `o`, every linked grammar
    `G` and emission grammar `G'` (`= G` without `-switch`) with `theoremApplies o G G'`, every
    machine configuration whose mode is that of the option set (`cfg.ast = o.ast`; memoisation on
    or off, any semantic predicates `rho`), every input of valid runes and every rule `n` with a
    function in `compileAll o G'`: the PEG semantics of `G` assigns `n` an outcome at position 0, a
    run of the function from a fresh parser exists, and every run from a post-`Reset` state never
    panics, returns true exactly on `.ok` — then at the end of the matched prefix and, in AST mode,
    with exactly the tokens of the derivation forest — and false at position 0 on `.fail`. -/
theorem option_parser_spec (o : Opts) (G G' : Grammar) (cfg : Cfg) (inp : List Sym)
    (happ : theoremApplies o G G' = true) (hG' : o.switch = false → G' = G)
    (hcfg : cfg.ast = o.ast) (hinp : ∀ c ∈ inp, c ≠ END)
    {n cr} (hfind : (compileAll o G').find n = some cr) : ParserSpec o G G' cfg inp n cr := by
  have hd := theoremApplies_default happ
  have hS := theoremApplies_optionSet happ
  obtain ⟨i, s, a⟩ := o
  cases s with
  | false =>
    obtain rfl : G' = G := hG' rfl
    cases i <;> cases a <;> simp only [optionSetOK] at hS
    · exact spec_n _ _ cfg inp hinp (Kacts _) hd hS rfl rfl rfl hcfg hfind
    · exact spec_dflt _ _ cfg inp hinp hd rfl rfl rfl hcfg hfind
    · exact spec_in _ _ cfg inp hinp (Kacts _) hd hS rfl rfl hcfg hfind
    · rw [GrammarOKIfast_eq] at hS
      exact spec_i _ _ cfg inp hinp hd hS rfl rfl rfl hcfg hfind
  | true =>
    cases i <;> cases a <;> simp only [optionSetOK] at hS
    · rw [noastSwitchSafeA, noastSwitchSafeKfast_eq] at hS
      exact spec_sn G G' _ cfg inp hinp (Kacts G') hd hS rfl rfl hcfg hfind
    · rw [switchSafeFast_eq] at hS
      exact spec_s G G' _ cfg inp hinp hd hS rfl rfl hcfg hfind
    · exact spec_isn G G' _ cfg inp hinp (Kacts G') hd hS rfl rfl hcfg hfind
    · rw [inlineSwitchSafeFast_eq] at hS
      exact spec_is G G' _ cfg inp hinp hd hS rfl rfl hcfg hfind

/-! ### Every option set against the default parser -/

/-- **All option sets give the default parser's verdict.**  For every option set `o`, every linked
    grammar `G` and emission grammar `G'` (`optimise G` with `-switch`, `G` itself otherwise) with
    `theoremApplies o G G' = true`, every input of valid runes and every rule `n` that has a
    function in BOTH the default program `compileAll dfltOpts G` and the program `compileAll o G'`:
    every run of the default parser's function and every run of the option-set parser's function,
    each from a fresh or post-`Reset` state (`AfterReset`; `afterReset_init` for `St.init`), return
    the same outcome, neither panics, they end at the same position, and — when the option set
    keeps the AST — a successful parse records the same token sequence.

    The two machine configurations share the semantic predicates (`hrho`); `cfg.ast` is true for the
    default parser and `o.ast` for the other; memoisation may be on or off independently. -/
theorem all_options_same_verdict (o : Opts) (G G' : Grammar) (cfg cfg' : Cfg) (inp : List Sym)
    (happ : theoremApplies o G G' = true) (hG' : o.switch = false → G' = G)
    (hcfg : cfg.ast = true) (hcfg' : cfg'.ast = o.ast) (hrho : cfg.rho = cfg'.rho)
    (hinp : ∀ c ∈ inp, c ≠ END)
    {n cr cr'} (hfind : (compileAll dfltOpts G).find n = some cr)
    (hfind' : (compileAll o G').find n = some cr')
    {s t out out' s' t'} (hs : AfterReset s) (ht : AfterReset t)
    (hrun : Exec (compileAll dfltOpts G) cfg inp cr 0 s Frame.empty (out, s'))
    (hrun' : Exec (compileAll o G') cfg' inp cr' 0 t Frame.empty (out', t')) :
    out = out' ∧ out ≠ .panic ∧ out' ≠ .panic ∧ s'.pos = t'.pos ∧
      (o.ast = true → out = .ret true → s'.tree.take s'.ti = t'.tree.take t'.ti) := by
  obtain ⟨res, evs, hev, _, hall⟩ :=
    option_parser_spec dfltOpts G G cfg inp (theoremApplies_dflt happ) (fun _ => rfl) hcfg hinp hfind
  obtain ⟨res', evs', hev', _, hall'⟩ := option_parser_spec o G G' cfg' inp happ hG' hcfg' hinp hfind'
  obtain ⟨rfl, _⟩ := Eval_det hev (hrho ▸ hev')
  obtain ⟨hp, h⟩ := hall s out s' hs hrun
  obtain ⟨hp', h'⟩ := hall' t out' t' ht hrun'
  refine ⟨?_, hp, hp', ?_, ?_⟩
  · cases res with
    | ok p' f => rw [h.1, h'.1]
    | fail => rw [h.1, h'.1]
  · cases res with
    | ok p' f => rw [h.2.1, h'.2.1]
    | fail => rw [h.2, h'.2]
  · intro ha hout
    cases res with
    | ok p' f => rw [h.2.2 rfl, h'.2.2 ha]
    | fail => rw [h.1] at hout; cases hout

/-- … in particular from two fresh parsers. -/
theorem all_options_same_verdict_fresh (o : Opts) (G G' : Grammar) (cfg cfg' : Cfg) (inp : List Sym)
    (happ : theoremApplies o G G' = true) (hG' : o.switch = false → G' = G)
    (hcfg : cfg.ast = true) (hcfg' : cfg'.ast = o.ast) (hrho : cfg.rho = cfg'.rho)
    (hinp : ∀ c ∈ inp, c ≠ END)
    {n cr cr'} (hfind : (compileAll dfltOpts G).find n = some cr)
    (hfind' : (compileAll o G').find n = some cr')
    {out out' s' t'}
    (hrun : Exec (compileAll dfltOpts G) cfg inp cr 0 St.init Frame.empty (out, s'))
    (hrun' : Exec (compileAll o G') cfg' inp cr' 0 St.init Frame.empty (out', t')) :
    out = out' ∧ out ≠ .panic ∧ out' ≠ .panic ∧ s'.pos = t'.pos ∧
      (o.ast = true → out = .ret true → s'.tree.take s'.ti = t'.tree.take t'.ti) :=
  all_options_same_verdict o G G' cfg cfg' inp happ hG' hcfg hcfg' hrho hinp hfind hfind'
    afterReset_init afterReset_init hrun hrun'

/-- **Termination for all option sets**: under the same hypotheses (only the function of `n` in the
    option-set program is needed) a run of the option-set parser's function from a fresh parser
    exists. -/
theorem all_options_run_exists (o : Opts) (G G' : Grammar) (cfg' : Cfg) (inp : List Sym)
    (happ : theoremApplies o G G' = true) (hG' : o.switch = false → G' = G)
    (hcfg' : cfg'.ast = o.ast) (hinp : ∀ c ∈ inp, c ≠ END)
    {n cr'} (hfind' : (compileAll o G').find n = some cr') :
    ∃ out' t', Exec (compileAll o G') cfg' inp cr' 0 St.init Frame.empty (out', t') := by
  obtain ⟨_, _, _, hex, _⟩ := option_parser_spec o G G' cfg' inp happ hG' hcfg' hinp hfind'
  exact hex

/-! ### Non-vacuity

  Linked grammar (shape of the examples in `Props/C07Inline.lean`, plus a rule with two references):

      S       <- (A 'b' / B 'y' / 'd' / [g-k] 'z') C C? !.
      A       <- 'a' <'x'> Action0
      B       <- [b-c]
      C       <- 'c'
      Action0 <- { A0 }

  * the 4-way choice of `S` is rewritten by `optimise` into a switch;
  * `A`, `B`, `Action0` have one reference, so `-inline` compiles them in place and emits no
    function for them; `C` has two references and keeps its function, `S` is emitted with label 0
    and keeps its function — both have a function in every one of the eight programs;
  * `A` carries a capture and an action, which `-noast` executes inline. -/
namespace AllOptionsExample

def G : Grammar := ⟨[
  ⟨"S", 0, .ipush (.seq [
      .alt [.seq [.name "A", .chr 98], .seq [.name "B", .chr 121], .chr 100, .seq [.rng 103 107, .chr 122]],
      .name "C", .query (.name "C"), .peekNot .dot]) "S"⟩,
  ⟨"A", 1, .ipush (.seq [.chr 97, .push (.chr 120) "PegText", .name "Action0"]) "A"⟩,
  ⟨"B", 2, .ipush (.rng 98 99) "B"⟩,
  ⟨"C", 3, .ipush (.chr 99) "C"⟩,
  ⟨"Action0", 4, .ipush (.act "A0") "Action0"⟩]⟩

/-- What the modelled optimiser (`optimise` = `optimizeAlternates`) makes of `G`. -/
def Gsw : Grammar := (optimise G).toOption.getD G

/-- The emission grammar of an option set. -/
def emitG (o : Opts) : Grammar := if o.switch then Gsw else G

/-- **Non-vacuity**: `theoremApplies` holds for all eight option sets, with the OUTPUT OF THE
    MODELLED OPTIMISER as emission grammar of the four option sets with `-switch` (kernel-checked,
    through `optimise`). -/
theorem applies_all : allOpts.all (fun o => theoremApplies o G (emitG o)) = true := by decide

/-- … so `all_options_same_verdict` and `all_options_run_exists` apply to this grammar under every
    option set (`emitG o` is `G` without `-switch`, as the theorems ask). -/
theorem applies (o : Opts) : theoremApplies o G (emitG o) = true ∧ (o.switch = false → emitG o = G) :=
  ⟨List.all_eq_true.mp applies_all o (mem_allOpts o), fun h => by simp [emitG, h]⟩

/-- The optimiser succeeded and did rewrite the choice of `S` into a switch: `'d'` first, the
    alternatives with `A` and `B` as the cases of 'a' and of 'b','c', `[g-k] 'z'` as default; the
    other rules are untouched (`swMatchL` with no renaming is syntactic equality of the bodies). -/
example : (optimise G).toOption.map (fun g =>
    swMatchL (fun _ => none) (g.rules.map (·.body)) [
      .ipush (.seq [
        .ualt [[(100, 100)], [(97, 97)], [(98, 99)], [(103, 107)]]
          [.chr 100, .seq [.name "A", .chr 98], .seq [.name "B", .chr 121], .seq [.rng 103 107, .chr 122]],
        .name "C", .query (.name "C"), .peekNot .dot]) "S",
      .ipush (.seq [.chr 97, .push (.chr 120) "PegText", .name "Action0"]) "A",
      .ipush (.rng 98 99) "B", .ipush (.chr 99) "C", .ipush (.act "A0") "Action0"] &&
    g.rules.map (fun r => (r.name, r.id)) == G.rules.map (fun r => (r.name, r.id))) = some true := by
  decide

/-- Which rules have a function: all five without `-inline`; `S` and `C` with `-inline` (`A`, `B`,
    `Action0` are compiled in place).  So `S` and `C` have a function in the default program and in
    every option set's program: the rule `n` of the theorems exists. -/
example : allOpts.map (fun o => (compileAll o (emitG o)).filterMap
      (fun r => if r.code.isSome then some r.name else none)) =
    [["S", "A", "B", "C", "Action0"], ["S", "C"], ["S", "A", "B", "C", "Action0"], ["S", "C"],
     ["S", "A", "B", "C", "Action0"], ["S", "C"], ["S", "A", "B", "C", "Action0"], ["S", "C"]] := by
  decide

/-- The conditions are not vacuous: a capture that is not named "PegText" is outside the `-noast`
    fragment — the four AST option sets pass, the four `-noast` option sets are rejected. -/
def Gcap : Grammar := ⟨[
  ⟨"S", 0, .ipush (.seq [.push (.chr 97) "Other", .peekNot .dot]) "S"⟩]⟩

example : allOpts.map (fun o => theoremApplies o Gcap ((optimise Gcap).toOption.getD Gcap)) =
    [true, true, true, true, false, false, false, false] := by decide

/-- … and a left-recursive grammar is rejected for every option set (`WFB`). -/
def Glr : Grammar := ⟨[⟨"S", 0, .ipush (.alt [.seq [.name "S", .chr 97], .chr 98]) "S"⟩]⟩

example : allOpts.map (fun o => theoremApplies o Glr Glr) =
    [false, false, false, false, false, false, false, false] := by decide

/-- The instance of the summary theorem for this grammar: the default parser and the parser of ANY
    option set, on any input of valid runes, for the rules `S` and `C`. -/
example (o : Opts) (cfg cfg' : Cfg) (inp : List Sym)
    (hcfg : cfg.ast = true) (hcfg' : cfg'.ast = o.ast) (hrho : cfg.rho = cfg'.rho)
    (hinp : ∀ c ∈ inp, c ≠ END)
    {n cr cr'} (hfind : (compileAll dfltOpts G).find n = some cr)
    (hfind' : (compileAll o (emitG o)).find n = some cr')
    {out out' s' t'}
    (hrun : Exec (compileAll dfltOpts G) cfg inp cr 0 St.init Frame.empty (out, s'))
    (hrun' : Exec (compileAll o (emitG o)) cfg' inp cr' 0 St.init Frame.empty (out', t')) :
    out = out' ∧ out ≠ .panic ∧ out' ≠ .panic ∧ s'.pos = t'.pos ∧
      (o.ast = true → out = .ret true → s'.tree.take s'.ti = t'.tree.take t'.ti) :=
  all_options_same_verdict_fresh o G (emitG o) cfg cfg' inp (applies o).1 (applies o).2 hcfg hcfg' hrho
    hinp hfind hfind' hrun hrun'

/-! #### A grammar with state-change statements

  `Gstmt` is `G` with three state-change statements (`.stmt`; under `-noast` each appends its code to
  the machine's trace, like an action, but it is not an event of the semantics):

      S       <- (A 'b' / B !{n++} 'y' / 'd' / [g-k] 'z') !{m = 0} C C? !.
      A       <- 'a' !{k--} <'x'> Action0
      B       <- [b-c]
      C       <- 'c'
      Action0 <- { A0 }

  one in the body of `S`, one inside an alternative that `-switch` turns into a case, one in the
  rule `A` that `-inline` compiles in place.  With the kit `Kall` (every trace entry compared) the
  four `-noast` side conditions reject it; with `Kacts` (`theoremApplies`) all eight option sets are
  covered. -/

def Gstmt : Grammar := ⟨[
  ⟨"S", 0, .ipush (.seq [
      .alt [.seq [.name "A", .chr 98], .seq [.name "B", .stmt "n++", .chr 121], .chr 100,
        .seq [.rng 103 107, .chr 122]],
      .stmt "m = 0", .name "C", .query (.name "C"), .peekNot .dot]) "S"⟩,
  ⟨"A", 1, .ipush (.seq [.chr 97, .stmt "k--", .push (.chr 120) "PegText", .name "Action0"]) "A"⟩,
  ⟨"B", 2, .ipush (.rng 98 99) "B"⟩,
  ⟨"C", 3, .ipush (.chr 99) "C"⟩,
  ⟨"Action0", 4, .ipush (.act "A0") "Action0"⟩]⟩

def GstmtSw : Grammar := (optimise Gstmt).toOption.getD Gstmt

def emitGstmt (o : Opts) : Grammar := if o.switch then GstmtSw else Gstmt

/-- **Non-vacuity with state-change statements**: `theoremApplies` holds for `Gstmt` under all eight
    option sets — in particular the four with `-noast` — with the output of the modelled optimiser
    as emission grammar of the option sets with `-switch`. -/
theorem applies_all_stmt : allOpts.all (fun o => theoremApplies o Gstmt (emitGstmt o)) = true := by
  decide

theorem applies_stmt (o : Opts) :
    theoremApplies o Gstmt (emitGstmt o) = true ∧ (o.switch = false → emitGstmt o = Gstmt) :=
  ⟨List.all_eq_true.mp applies_all_stmt o (mem_allOpts o), fun h => by simp [emitGstmt, h]⟩

/-- The optimiser did rewrite the choice of `S` (the statement sits inside a case), and the kit is
    what it should be: the one action code is kept, the statement codes are not. -/
example : (GstmtSw.rules.any (fun r => SwitchTests.hasSwitch r.body),
    actionCodes Gstmt, ["A0", "n++", "m = 0", "k--"].map (Kacts GstmtSw).keep) =
    (true, ["A0"], [true, false, false, false]) := by decide

/-- The `Kall` instances of the four `-noast` side conditions (n, in, sn, isn) — what
    `theoremApplies` used before — all reject `Gstmt`. -/
example : [GrammarOKN (Kall Gstmt) Gstmt, inlineNoastSafe Gstmt, noastSwitchSafe Gstmt GstmtSw,
    inlineNoastSwitchSafe Gstmt GstmtSw] = [false, false, false, false] := by decide

/-- A statement whose code coincides with the code of an action is still rejected under `-noast`
    (the two trace entries could not be told apart); the four AST option sets pass. -/
def Gclash : Grammar := ⟨[
  ⟨"S", 0, .ipush (.seq [.chr 97, .stmt "A0", .name "Action0", .peekNot .dot]) "S"⟩,
  ⟨"Action0", 1, .ipush (.act "A0") "Action0"⟩]⟩

example : allOpts.map (fun o => theoremApplies o Gclash ((optimise Gclash).toOption.getD Gclash)) =
    [true, true, true, true, false, false, false, false] := by decide

/-- The instance of the summary theorem for `Gstmt`: the default parser and the parser of ANY option
    set agree on any input of valid runes, for every rule that has a function in both. -/
example (o : Opts) (cfg cfg' : Cfg) (inp : List Sym)
    (hcfg : cfg.ast = true) (hcfg' : cfg'.ast = o.ast) (hrho : cfg.rho = cfg'.rho)
    (hinp : ∀ c ∈ inp, c ≠ END)
    {n cr cr'} (hfind : (compileAll dfltOpts Gstmt).find n = some cr)
    (hfind' : (compileAll o (emitGstmt o)).find n = some cr')
    {out out' s' t'}
    (hrun : Exec (compileAll dfltOpts Gstmt) cfg inp cr 0 St.init Frame.empty (out, s'))
    (hrun' : Exec (compileAll o (emitGstmt o)) cfg' inp cr' 0 St.init Frame.empty (out', t')) :
    out = out' ∧ out ≠ .panic ∧ out' ≠ .panic ∧ s'.pos = t'.pos ∧
      (o.ast = true → out = .ret true → s'.tree.take s'.ti = t'.tree.take t'.ti) :=
  all_options_same_verdict_fresh o Gstmt (emitGstmt o) cfg cfg' inp (applies_stmt o).1 (applies_stmt o).2
    hcfg hcfg' hrho hinp hfind hfind' hrun hrun'

/-- `S` and `C` have a function in every one of the eight programs for `Gstmt`. -/
example : allOpts.all (fun o => ["S", "C"].all (fun n =>
    ((compileAll o (emitGstmt o)).find n).isSome && ((compileAll dfltOpts Gstmt).find n).isSome)) = true := by
  decide

end AllOptionsExample
end PegVerif

#print axioms PegVerif.option_parser_spec
#print axioms PegVerif.all_options_same_verdict
#print axioms PegVerif.all_options_same_verdict_fresh
#print axioms PegVerif.all_options_run_exists
#print axioms PegVerif.mem_allOpts
#print axioms PegVerif.defaultParserOK_eq
#print axioms PegVerif.optionSetOK_eq
#print axioms PegVerif.optionSetOK_of_Kall
#print axioms PegVerif.AllOptionsExample.applies_all
#print axioms PegVerif.AllOptionsExample.applies
#print axioms PegVerif.AllOptionsExample.applies_all_stmt
#print axioms PegVerif.AllOptionsExample.applies_stmt
