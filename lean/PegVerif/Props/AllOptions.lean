import PegVerif.Proofs.AllOptionsDef
import PegVerif.Props.C01
import PegVerif.Props.C02
import PegVerif.Props.C02Switch
import PegVerif.Props.C02InlineSwitch
import PegVerif.Props.C07
import PegVerif.Props.C07Switch
import PegVerif.Props.C07Inline
import PegVerif.Props.C12
/-
  Summary over all eight option sets of peg (`-inline`, `-switch`, `-noast` and their combinations).

  `G` is the linked grammar, `G'` the grammar the emission works on (`G' = optimise G` with
  `-switch`, `G' = G` otherwise); the emitted program is `compileAll o G'`, the default parser is
  `compileAll dfltOpts G`.  One decidable hypothesis, `theoremApplies o G G'`
  (`Proofs/AllOptionsDef.lean`): the default parser's hypotheses on `G` (`WFB`, `GrammarOK`,
  `LinkedOK`, plain bodies) and the side condition of the option set:

      ''    Props/C01.lean              –
      i     Props/C02.lean              GrammarOKI G
      s     Props/C02Switch.lean        switchSafe G G'
      is    Props/C02InlineSwitch.lean  inlineSwitchSafe G G'
      n     Props/C07.lean              GrammarOKN (Kall G) G
      in    Props/C07Inline.lean        inlineNoastSafe G
      sn    Props/C07Switch.lean        noastSwitchSafe G G'
      isn   Props/C07Inline.lean        inlineNoastSwitchSafe G G'

  * `option_parser_spec`        every option set against the PEG semantics of `G` (one shape);
  * `all_options_same_verdict`  every option set against the default parser;
  * `all_options_run_exists`    termination;
  * non-vacuity: one grammar for which `theoremApplies` holds for all eight option sets, with the
    output of the modelled optimiser as `G'`.

  Nothing is proved anew about the emission: each case is the end-to-end theorem (or the `World`
  lemma and refinement theorem behind it) of the file named in the table.
-/
namespace PegVerif
open Noast

/-! ### The parts of `theoremApplies` -/

theorem theoremApplies_default {o : Opts} {G G' : Grammar} (h : theoremApplies o G G' = true) :
    defaultParserOK G = true := by
  simp only [theoremApplies, Bool.and_eq_true] at h; exact h.1

theorem theoremApplies_optionSet {o : Opts} {G G' : Grammar} (h : theoremApplies o G G' = true) :
    optionSetOK o G G' = true := by
  simp only [theoremApplies, Bool.and_eq_true] at h; exact h.2

/-- The default option set asks for nothing beyond the default parser's hypotheses. -/
theorem theoremApplies_dflt {o : Opts} {G G' : Grammar} (h : theoremApplies o G G' = true) :
    theoremApplies dfltOpts G G = true := by
  simp only [theoremApplies, Bool.and_eq_true]
  exact ⟨theoremApplies_default h, rfl⟩

theorem defaultParserOK_iff {G : Grammar} (h : defaultParserOK G = true) :
    WFB G = true ∧ GrammarOK G = true ∧ LinkedOK G = true ∧ G.plain := by
  simp only [defaultParserOK, Bool.and_eq_true] at h
  exact ⟨h.1.1.1, h.1.1.2, h.1.2, Grammar.plain_of_all h.2⟩

/-- `allOpts` lists every option set. -/
theorem mem_allOpts (o : Opts) : o ∈ allOpts := by
  obtain ⟨i, s, a⟩ := o
  cases i <;> cases s <;> cases a <;> simp [allOpts]

/-! ### One shape for "the run is the one the semantics prescribes" -/

/-- What a run (`out`, final state `t'`) of a rule function entered at position 0 has to look like
    when the PEG semantics assigns the rule the outcome `res`: no panic; on `.ok p' f` it returns
    true at `p'` and — in AST mode — has published exactly the post-order of the forest `f`; on
    `.fail` it returns false and is back at 0. -/
def RunSpec (ast : Bool) (res : Res) (out : Outcome) (t' : St) : Prop :=
  out ≠ .panic ∧
  match res with
  | .ok p' f => out = .ret true ∧ t'.pos = p' ∧ (ast = true → t'.tree.take t'.ti = postorderL f)
  | .fail => out = .ret false ∧ t'.pos = 0

/-- AST mode: `RunSpec` from `World` (R through C01 / C12), from any post-`Reset` state. -/
theorem runSpec_of_world {P : Program} {cfg : Cfg} {env : CEnv} {G : Grammar} {inp : List Sym}
    (hW : World P cfg env G inp) {n cr res evs s out s'}
    (hs : AfterReset s) (hfind : P.find n = some cr)
    (hev : Eval G cfg.rho inp (.name n) 0 res evs)
    (hrun : Exec P cfg inp cr 0 s Frame.empty (out, s')) : RunSpec true res out s' := by
  have h := C12_reset_like_fresh hW hs hfind hev hrun
  have hf := C01_refines_anywhere hW hfind hev hs.1 (Nat.zero_le _)
    (by rw [hs.2.1]; exact Nat.zero_le _) (by rw [hs.2.2.2]; exact memoOK_nil) hrun
  cases res with
  | ok p' f => exact ⟨(by rw [h.1]; intro e; cases e), h.1, h.2.1, fun _ => h.2.2⟩
  | fail => exact ⟨(by rw [h.1]; intro e; cases e), h.1, hf.2.1⟩

/-- AST mode: `RunSpec` from the conclusion of `C02_switch_parser` / `C02_inline_switch_parser`. -/
theorem runSpec_of_match {res : Res} {out : Outcome} {t' : St}
    (h : out ≠ .panic ∧
      match res with
      | .ok p' forest => out = .ret true ∧ t'.pos = p' ∧ t'.tree.take t'.ti = postorderL forest
      | .fail => out = .ret false ∧ t'.pos = 0) : RunSpec true res out t' := by
  cases res with
  | ok p' f => exact ⟨h.1, h.2.1, h.2.2.1, fun _ => h.2.2.2⟩
  | fail => exact ⟨h.1, h.2.1, h.2.2⟩

/-- `-noast`: `RunSpec` from the conclusion of `C07_verdict` and its variants at position 0. -/
theorem runSpec_of_verdict {res : Res} {out : Outcome} {t' : St}
    (h : out ≠ .panic ∧ (out = .ret true ↔ ∃ p' f, res = .ok p' f) ∧ (out = .ret false ↔ res = .fail) ∧
      (∀ p' f, res = .ok p' f → t'.pos = p') ∧ (res = .fail → t'.pos = 0)) :
    RunSpec false res out t' := by
  obtain ⟨h1, h2, h3, h4, h5⟩ := h
  cases res with
  | ok p' f => exact ⟨h1, h2.2 ⟨p', f, rfl⟩, h4 p' f rfl, fun e => by cases e⟩
  | fail => exact ⟨h1, h3.2 rfl, h5 rfl⟩

/-- The rule body behind a body of the expanded grammar. -/
theorem body_of_expandG_body {o : Opts} {G : Grammar} {n : String} {b : Expr}
    (hb : (expandG o G).body n = some b) : ∃ b0, G.body n = some b0 := by
  rw [expandG_body] at hb
  cases hf : G.find n with
  | none => rw [hf] at hb; cases hb
  | some r => exact ⟨r.body, by simp [Grammar.body, hf]⟩

/-! ### Every option set against the PEG semantics of the linked grammar -/

/-- The conclusion shared by all eight cases: the semantics of the LINKED grammar `G` assigns rule
    `n` an outcome at position 0, a run of the emitted function from a fresh parser exists, and
    every run from a post-`Reset` state is the one that outcome prescribes. -/
def ParserSpec (o : Opts) (G G' : Grammar) (cfg : Cfg) (inp : List Sym) (n : String) (cr : Code) : Prop :=
  ∃ res evs, Eval G cfg.rho inp (.name n) 0 res evs ∧
    (∃ out t', Exec (compileAll o G') cfg inp cr 0 St.init Frame.empty (out, t')) ∧
    ∀ t out t', AfterReset t → Exec (compileAll o G') cfg inp cr 0 t Frame.empty (out, t') →
      RunSpec o.ast res out t'

section cases
variable (G G' : Grammar) (o : Opts) (cfg : Cfg) (inp : List Sym) (hinp : ∀ c ∈ inp, c ≠ END)
  {n : String} {cr : Code}
include hinp

/-- '' (`Props/C01.lean`). -/
theorem spec_dflt (hd : defaultParserOK G = true)
    (hinl : o.inline = false) (hsw : o.switch = false) (hast : o.ast = true) (hcfg : cfg.ast = true)
    (hfind : (compileAll o G).find n = some cr) : ParserSpec o G G cfg inp n cr := by
  obtain ⟨hwf, hG, hL, hplain⟩ := defaultParserOK_iff hd
  have hW := compileAll_world (cfg := cfg) (inp := inp) hsw hinl hast hcfg hinp hG hL
    (fun _ h => alwaysSucceeds_sound hplain h)
  obtain ⟨_, b, _, _, hb, _⟩ := hW.rules n cr hfind
  obtain ⟨res, evs, hev⟩ := Eval_total (ρ := cfg.rho) hwf inp n b hb 0 (Nat.zero_le _)
  refine ⟨res, evs, hev, C01_run_exists hW hfind hev, ?_⟩
  intro t out t' ht hrun
  rw [hast]; exact runSpec_of_world hW ht hfind hev hrun

/-- i (`Props/C02.lean`). -/
theorem spec_i (hd : defaultParserOK G = true) (hI : GrammarOKI G = true)
    (hinl : o.inline = true) (hsw : o.switch = false) (hast : o.ast = true) (hcfg : cfg.ast = true)
    (hfind : (compileAll o G).find n = some cr) : ParserSpec o G G cfg inp n cr := by
  obtain ⟨hwf, _, hL, hplain⟩ := defaultParserOK_iff hd
  have hW := compileAll_world_inline' (cfg := cfg) (inp := inp) hinl hsw hast hcfg hinp hI hL hplain
  obtain ⟨_, b, _, _, hb, _⟩ := hW.rules n cr hfind
  obtain ⟨b0, hb0⟩ := body_of_expandG_body hb
  obtain ⟨res, evs, hev⟩ := Eval_total (ρ := cfg.rho) hwf inp n b0 hb0 0 (Nat.zero_le _)
  have hevX : Eval (expandG o G) cfg.rho inp (.name n) 0 res evs := Eval_expandG hev
  refine ⟨res, evs, hev, C01_run_exists hW hfind hevX, ?_⟩
  intro t out t' ht hrun
  rw [hast]; exact runSpec_of_world hW ht hfind hevX hrun

/-- s (`Props/C02Switch.lean`). -/
theorem spec_s (hd : defaultParserOK G = true) (hS : switchSafe G G' = true)
    (hinl : o.inline = false) (hast : o.ast = true) (hcfg : cfg.ast = true)
    (hfind : (compileAll o G').find n = some cr) : ParserSpec o G G' cfg inp n cr := by
  obtain ⟨hwf, _, _, _⟩ := defaultParserOK_iff hd
  obtain ⟨res, evs, hev, hex, hall⟩ := C02_switch_parser G G' o cfg inp hwf hS hinl hast hcfg hinp hfind
  refine ⟨res, evs, hev, hex, ?_⟩
  intro t out t' ht hrun
  rw [hast]; exact runSpec_of_match (hall t out t' ht hrun)

/-- is (`Props/C02InlineSwitch.lean`). -/
theorem spec_is (hd : defaultParserOK G = true) (hS : inlineSwitchSafe G G' = true)
    (hinl : o.inline = true) (hast : o.ast = true) (hcfg : cfg.ast = true)
    (hfind : (compileAll o G').find n = some cr) : ParserSpec o G G' cfg inp n cr := by
  obtain ⟨hwf, _, _, _⟩ := defaultParserOK_iff hd
  obtain ⟨res, evs, hev, hex, hall⟩ :=
    C02_inline_switch_parser G G' o cfg inp hwf hS hinl hast hcfg hinp hfind
  refine ⟨res, evs, hev, hex, ?_⟩
  intro t out t' ht hrun
  rw [hast]; exact runSpec_of_match (hall t out t' ht hrun)

/-- n (`Props/C07.lean`). -/
theorem spec_n (hd : defaultParserOK G = true) (hN : GrammarOKN (Kall G) G = true)
    (hinl : o.inline = false) (hsw : o.switch = false) (hast : o.ast = false) (hcfg : cfg.ast = false)
    (hfind : (compileAll o G).find n = some cr) : ParserSpec o G G cfg inp n cr := by
  obtain ⟨hwf, hG, _, hplain⟩ := defaultParserOK_iff hd
  have hW := compileAll_worldN (K := Kall G) (cfg := cfg) (inp := inp) hsw hinl hast hcfg hinp hG hN
    (fun _ h => alwaysSucceeds_sound hplain h)
  obtain ⟨_, b, _, _, hb, _⟩ := hW.rules n cr hfind
  obtain ⟨res, evs, hev⟩ := Eval_total (ρ := cfg.rho) hwf inp n b hb 0 (Nat.zero_le _)
  refine ⟨res, evs, hev, C07_runs hW hfind hev rfl (Nat.zero_le _), ?_⟩
  intro t out t' ht hrun
  rw [hast]; exact runSpec_of_verdict (C07_verdict hW hfind hev ht.1 (Nat.zero_le _) hrun)

/-- in (`Props/C07Inline.lean`). -/
theorem spec_in (hd : defaultParserOK G = true) (hS : inlineNoastSafe G = true)
    (hinl : o.inline = true) (hast : o.ast = false) (hcfg : cfg.ast = false)
    (hfind : (compileAll o G).find n = some cr) : ParserSpec o G G cfg inp n cr := by
  obtain ⟨hwf, _, _, _⟩ := defaultParserOK_iff hd
  have hW := inline_noast_world (Kall G) G o cfg inp hS hinl hast hcfg hinp
  obtain ⟨_, b, _, _, hb, _⟩ := hW.rules n cr hfind
  obtain ⟨b0, hb0⟩ := body_of_expandG_body hb
  obtain ⟨res, evs, hev⟩ := Eval_total (ρ := cfg.rho) hwf inp n b0 hb0 0 (Nat.zero_le _)
  refine ⟨res, evs, hev,
    C07_inline_runs (Kall G) G o cfg inp hS hinl hast hcfg hinp hfind hev rfl (Nat.zero_le _), ?_⟩
  intro t out t' ht hrun
  rw [hast]
  exact runSpec_of_verdict
    (C07_inline_verdict G o cfg inp hS hinl hast hcfg hinp hfind hev ht.1 (Nat.zero_le _) hrun)

/-- sn (`Props/C07Switch.lean`). -/
theorem spec_sn (hd : defaultParserOK G = true) (hS : noastSwitchSafe G G' = true)
    (hinl : o.inline = false) (hast : o.ast = false) (hcfg : cfg.ast = false)
    (hfind : (compileAll o G').find n = some cr) : ParserSpec o G G' cfg inp n cr := by
  obtain ⟨hwf, _, _, _⟩ := defaultParserOK_iff hd
  obtain ⟨res, evs, hev, hex, hall⟩ :=
    C07_switch_verdict G G' o cfg inp hwf hS hinl hast hcfg hinp hfind (p := 0) (Nat.zero_le _)
  refine ⟨res, evs, hev, hex St.init rfl, ?_⟩
  intro t out t' ht hrun
  rw [hast]; exact runSpec_of_verdict (hall t out t' ht.1 hrun)

/-- isn (`Props/C07Inline.lean`). -/
theorem spec_isn (hd : defaultParserOK G = true) (hS : inlineNoastSwitchSafe G G' = true)
    (hinl : o.inline = true) (hast : o.ast = false) (hcfg : cfg.ast = false)
    (hfind : (compileAll o G').find n = some cr) : ParserSpec o G G' cfg inp n cr := by
  obtain ⟨hwf, _, _, _⟩ := defaultParserOK_iff hd
  obtain ⟨res, evs, hev, hex, hall⟩ :=
    C07_inline_switch_verdict G G' o cfg inp hwf hS hinl hast hcfg hinp hfind (p := 0) (Nat.zero_le _)
  refine ⟨res, evs, hev, hex St.init rfl, ?_⟩
  intro t out t' ht hrun
  rw [hast]; exact runSpec_of_verdict (hall t out t' ht.1 hrun)

end cases

/-- **Every option set against the PEG semantics.**  For every option set `o`, every linked grammar
    `G` and emission grammar `G'` (`= G` without `-switch`) with `theoremApplies o G G'`, every
    machine configuration whose mode is that of the option set (`cfg.ast = o.ast`; memoisation on
    or off, any semantic predicates `rho`), every input of valid runes and every rule `n` with a
    function in `compileAll o G'`: the PEG semantics of `G` assigns `n` an outcome at position 0, a
    run of the function from a fresh parser exists, and every run from a post-`Reset` state never
    panics, returns true exactly on `.ok` — then at the end of the matched prefix and, in AST mode,
    with exactly the tokens of the derivation forest — and false at position 0 on `.fail`. -/
theorem option_parser_spec (o : Opts) (G G' : Grammar) (cfg : Cfg) (inp : List Sym)
    (happ : theoremApplies o G G' = true) (hG' : o.switch = false → G' = G)
    (hcfg : cfg.ast = o.ast) (hinp : ∀ c ∈ inp, c ≠ END)
    {n cr} (hfind : (compileAll o G').find n = some cr) : ParserSpec o G G' cfg inp n cr := by
  have hd := theoremApplies_default happ
  have hS := theoremApplies_optionSet happ
  obtain ⟨i, s, a⟩ := o
  cases s with
  | false =>
    obtain rfl : G' = G := hG' rfl
    cases i <;> cases a <;> simp only [optionSetOK] at hS
    · exact spec_n _ _ cfg inp hinp hd hS rfl rfl rfl hcfg hfind
    · exact spec_dflt _ _ cfg inp hinp hd rfl rfl rfl hcfg hfind
    · exact spec_in _ _ cfg inp hinp hd hS rfl rfl hcfg hfind
    · exact spec_i _ _ cfg inp hinp hd hS rfl rfl rfl hcfg hfind
  | true =>
    cases i <;> cases a <;> simp only [optionSetOK] at hS
    · exact spec_sn G G' _ cfg inp hinp hd hS rfl rfl hcfg hfind
    · exact spec_s G G' _ cfg inp hinp hd hS rfl rfl hcfg hfind
    · exact spec_isn G G' _ cfg inp hinp hd hS rfl rfl hcfg hfind
    · exact spec_is G G' _ cfg inp hinp hd hS rfl rfl hcfg hfind

/-! ### Every option set against the default parser -/

/-- **All option sets give the default parser's verdict.**  For every option set `o`, every linked
    grammar `G` and emission grammar `G'` (`optimise G` with `-switch`, `G` itself otherwise) with
    `theoremApplies o G G' = true`, every input of valid runes and every rule `n` that has a
    function in BOTH the default program `compileAll dfltOpts G` and the program `compileAll o G'`:
    every run of the default parser's function and every run of the option-set parser's function,
    each from a fresh or post-`Reset` state (`AfterReset`; `afterReset_init` for `St.init`), return
    the same outcome, neither panics, they end at the same position, and — when the option set
    keeps the AST — a successful parse records the same token sequence.

    The two machine configurations share the semantic predicates (`hrho`); `cfg.ast` is true for the
    default parser and `o.ast` for the other; memoisation may be on or off independently. -/
theorem all_options_same_verdict (o : Opts) (G G' : Grammar) (cfg cfg' : Cfg) (inp : List Sym)
    (happ : theoremApplies o G G' = true) (hG' : o.switch = false → G' = G)
    (hcfg : cfg.ast = true) (hcfg' : cfg'.ast = o.ast) (hrho : cfg.rho = cfg'.rho)
    (hinp : ∀ c ∈ inp, c ≠ END)
    {n cr cr'} (hfind : (compileAll dfltOpts G).find n = some cr)
    (hfind' : (compileAll o G').find n = some cr')
    {s t out out' s' t'} (hs : AfterReset s) (ht : AfterReset t)
    (hrun : Exec (compileAll dfltOpts G) cfg inp cr 0 s Frame.empty (out, s'))
    (hrun' : Exec (compileAll o G') cfg' inp cr' 0 t Frame.empty (out', t')) :
    out = out' ∧ out ≠ .panic ∧ out' ≠ .panic ∧ s'.pos = t'.pos ∧
      (o.ast = true → out = .ret true → s'.tree.take s'.ti = t'.tree.take t'.ti) := by
  obtain ⟨res, evs, hev, _, hall⟩ :=
    option_parser_spec dfltOpts G G cfg inp (theoremApplies_dflt happ) (fun _ => rfl) hcfg hinp hfind
  obtain ⟨res', evs', hev', _, hall'⟩ := option_parser_spec o G G' cfg' inp happ hG' hcfg' hinp hfind'
  obtain ⟨rfl, _⟩ := Eval_det hev (hrho ▸ hev')
  obtain ⟨hp, h⟩ := hall s out s' hs hrun
  obtain ⟨hp', h'⟩ := hall' t out' t' ht hrun'
  refine ⟨?_, hp, hp', ?_, ?_⟩
  · cases res with
    | ok p' f => rw [h.1, h'.1]
    | fail => rw [h.1, h'.1]
  · cases res with
    | ok p' f => rw [h.2.1, h'.2.1]
    | fail => rw [h.2, h'.2]
  · intro ha hout
    cases res with
    | ok p' f => rw [h.2.2 rfl, h'.2.2 ha]
    | fail => rw [h.1] at hout; cases hout

/-- … in particular from two fresh parsers. -/
theorem all_options_same_verdict_fresh (o : Opts) (G G' : Grammar) (cfg cfg' : Cfg) (inp : List Sym)
    (happ : theoremApplies o G G' = true) (hG' : o.switch = false → G' = G)
    (hcfg : cfg.ast = true) (hcfg' : cfg'.ast = o.ast) (hrho : cfg.rho = cfg'.rho)
    (hinp : ∀ c ∈ inp, c ≠ END)
    {n cr cr'} (hfind : (compileAll dfltOpts G).find n = some cr)
    (hfind' : (compileAll o G').find n = some cr')
    {out out' s' t'}
    (hrun : Exec (compileAll dfltOpts G) cfg inp cr 0 St.init Frame.empty (out, s'))
    (hrun' : Exec (compileAll o G') cfg' inp cr' 0 St.init Frame.empty (out', t')) :
    out = out' ∧ out ≠ .panic ∧ out' ≠ .panic ∧ s'.pos = t'.pos ∧
      (o.ast = true → out = .ret true → s'.tree.take s'.ti = t'.tree.take t'.ti) :=
  all_options_same_verdict o G G' cfg cfg' inp happ hG' hcfg hcfg' hrho hinp hfind hfind'
    afterReset_init afterReset_init hrun hrun'

/-- **Termination for all option sets**: under the same hypotheses (only the function of `n` in the
    option-set program is needed) a run of the option-set parser's function from a fresh parser
    exists. -/
theorem all_options_run_exists (o : Opts) (G G' : Grammar) (cfg' : Cfg) (inp : List Sym)
    (happ : theoremApplies o G G' = true) (hG' : o.switch = false → G' = G)
    (hcfg' : cfg'.ast = o.ast) (hinp : ∀ c ∈ inp, c ≠ END)
    {n cr'} (hfind' : (compileAll o G').find n = some cr') :
    ∃ out' t', Exec (compileAll o G') cfg' inp cr' 0 St.init Frame.empty (out', t') := by
  obtain ⟨_, _, _, hex, _⟩ := option_parser_spec o G G' cfg' inp happ hG' hcfg' hinp hfind'
  exact hex

/-! ### Non-vacuity

  Linked grammar (shape of the examples in `Props/C07Inline.lean`, plus a rule with two references):

      S       <- (A 'b' / B 'y' / 'd' / [g-k] 'z') C C? !.
      A       <- 'a' <'x'> Action0
      B       <- [b-c]
      C       <- 'c'
      Action0 <- { A0 }

  * the 4-way choice of `S` is rewritten by `optimise` into a switch;
  * `A`, `B`, `Action0` have one reference, so `-inline` compiles them in place and emits no
    function for them; `C` has two references and keeps its function, `S` is emitted with label 0
    and keeps its function — both have a function in every one of the eight programs;
  * `A` carries a capture and an action, which `-noast` executes inline. -/
namespace AllOptionsExample

def G : Grammar := ⟨[
  ⟨"S", 0, .ipush (.seq [
      .alt [.seq [.name "A", .chr 98], .seq [.name "B", .chr 121], .chr 100, .seq [.rng 103 107, .chr 122]],
      .name "C", .query (.name "C"), .peekNot .dot]) "S"⟩,
  ⟨"A", 1, .ipush (.seq [.chr 97, .push (.chr 120) "PegText", .name "Action0"]) "A"⟩,
  ⟨"B", 2, .ipush (.rng 98 99) "B"⟩,
  ⟨"C", 3, .ipush (.chr 99) "C"⟩,
  ⟨"Action0", 4, .ipush (.act "A0") "Action0"⟩]⟩

/-- What the modelled optimiser (`optimise` = `optimizeAlternates`) makes of `G`. -/
def Gsw : Grammar := (optimise G).toOption.getD G

/-- The emission grammar of an option set. -/
def emitG (o : Opts) : Grammar := if o.switch then Gsw else G

/-- **Non-vacuity**: `theoremApplies` holds for all eight option sets, with the OUTPUT OF THE
    MODELLED OPTIMISER as emission grammar of the four option sets with `-switch` (kernel-checked,
    through `optimise`). -/
theorem applies_all : allOpts.all (fun o => theoremApplies o G (emitG o)) = true := by decide

/-- … so `all_options_same_verdict` and `all_options_run_exists` apply to this grammar under every
    option set (`emitG o` is `G` without `-switch`, as the theorems ask). -/
theorem applies (o : Opts) : theoremApplies o G (emitG o) = true ∧ (o.switch = false → emitG o = G) :=
  ⟨List.all_eq_true.mp applies_all o (mem_allOpts o), fun h => by simp [emitG, h]⟩

/-- The optimiser succeeded and did rewrite the choice of `S` into a switch: `'d'` first, the
    alternatives with `A` and `B` as the cases of 'a' and of 'b','c', `[g-k] 'z'` as default; the
    other rules are untouched (`swMatchL` with no renaming is syntactic equality of the bodies). -/
example : (optimise G).toOption.map (fun g =>
    swMatchL (fun _ => none) (g.rules.map (·.body)) [
      .ipush (.seq [
        .ualt [[(100, 100)], [(97, 97)], [(98, 99)], [(103, 107)]]
          [.chr 100, .seq [.name "A", .chr 98], .seq [.name "B", .chr 121], .seq [.rng 103 107, .chr 122]],
        .name "C", .query (.name "C"), .peekNot .dot]) "S",
      .ipush (.seq [.chr 97, .push (.chr 120) "PegText", .name "Action0"]) "A",
      .ipush (.rng 98 99) "B", .ipush (.chr 99) "C", .ipush (.act "A0") "Action0"] &&
    g.rules.map (fun r => (r.name, r.id)) == G.rules.map (fun r => (r.name, r.id))) = some true := by
  decide

/-- Which rules have a function: all five without `-inline`; `S` and `C` with `-inline` (`A`, `B`,
    `Action0` are compiled in place).  So `S` and `C` have a function in the default program and in
    every option set's program: the rule `n` of the theorems exists. -/
example : allOpts.map (fun o => (compileAll o (emitG o)).filterMap
      (fun r => if r.code.isSome then some r.name else none)) =
    [["S", "A", "B", "C", "Action0"], ["S", "C"], ["S", "A", "B", "C", "Action0"], ["S", "C"],
     ["S", "A", "B", "C", "Action0"], ["S", "C"], ["S", "A", "B", "C", "Action0"], ["S", "C"]] := by
  decide

/-- The conditions are not vacuous: a capture that is not named "PegText" is outside the `-noast`
    fragment — the four AST option sets pass, the four `-noast` option sets are rejected. -/
def Gcap : Grammar := ⟨[
  ⟨"S", 0, .ipush (.seq [.push (.chr 97) "Other", .peekNot .dot]) "S"⟩]⟩

example : allOpts.map (fun o => theoremApplies o Gcap ((optimise Gcap).toOption.getD Gcap)) =
    [true, true, true, true, false, false, false, false] := by decide

/-- … and a left-recursive grammar is rejected for every option set (`WFB`). -/
def Glr : Grammar := ⟨[⟨"S", 0, .ipush (.alt [.seq [.name "S", .chr 97], .chr 98]) "S"⟩]⟩

example : allOpts.map (fun o => theoremApplies o Glr Glr) =
    [false, false, false, false, false, false, false, false] := by decide

/-- The instance of the summary theorem for this grammar: the default parser and the parser of ANY
    option set, on any input of valid runes, for the rules `S` and `C`. -/
example (o : Opts) (cfg cfg' : Cfg) (inp : List Sym)
    (hcfg : cfg.ast = true) (hcfg' : cfg'.ast = o.ast) (hrho : cfg.rho = cfg'.rho)
    (hinp : ∀ c ∈ inp, c ≠ END)
    {n cr cr'} (hfind : (compileAll dfltOpts G).find n = some cr)
    (hfind' : (compileAll o (emitG o)).find n = some cr')
    {out out' s' t'}
    (hrun : Exec (compileAll dfltOpts G) cfg inp cr 0 St.init Frame.empty (out, s'))
    (hrun' : Exec (compileAll o (emitG o)) cfg' inp cr' 0 St.init Frame.empty (out', t')) :
    out = out' ∧ out ≠ .panic ∧ out' ≠ .panic ∧ s'.pos = t'.pos ∧
      (o.ast = true → out = .ret true → s'.tree.take s'.ti = t'.tree.take t'.ti) :=
  all_options_same_verdict_fresh o G (emitG o) cfg cfg' inp (applies o).1 (applies o).2 hcfg hcfg' hrho
    hinp hfind hfind' hrun hrun'

end AllOptionsExample
end PegVerif

#print axioms PegVerif.option_parser_spec
#print axioms PegVerif.all_options_same_verdict
#print axioms PegVerif.all_options_same_verdict_fresh
#print axioms PegVerif.all_options_run_exists
#print axioms PegVerif.mem_allOpts
#print axioms PegVerif.AllOptionsExample.applies_all
#print axioms PegVerif.AllOptionsExample.applies
