import PegVerif.Proofs.SemLemmas
/-
  C01 — the generated parser recognises exactly the grammar's PEG language.

  Property theorems (this file holds statements only; proofs of helper lemmas are in Proofs/).
-/
namespace PegVerif

/-- The PEG semantics assigns at most one outcome (verdict, consumed prefix, derivation forest,
    attempted tokens) to an expression at a position: "succeeds exactly when" is well defined. -/
theorem C01_semantics_deterministic {G ρ inp e p r1 ev1 r2 ev2}
    (h1 : Eval G ρ inp e p r1 ev1) (h2 : Eval G ρ inp e p r2 ev2) : r1 = r2 ∧ ev1 = ev2 :=
  Eval_det h1 h2

/-- The reference interpreter used as oracle by the differential checks is sound for the
    relational semantics, for every fuel. -/
theorem C01_oracle_sound {G ρ inp} (fuel : Nat) (e : Expr) (p : Nat) (res : Res) (evs : List Token)
    (h : evalF G ρ inp fuel e p = some (res, evs)) : Eval G ρ inp e p res evs :=
  evalF_sound fuel e p res evs h

end PegVerif

#print axioms PegVerif.C01_semantics_deterministic
#print axioms PegVerif.C01_oracle_sound
