import PegVerif.Proofs.RefineTop
import PegVerif.Proofs.SemLemmas
import PegVerif.Proofs.LinkLemmas
import PegVerif.Proofs.AlwaysLemmas
import PegVerif.Proofs.TotalLemmas
/-
  C01 — the generated parser recognises exactly the grammar's PEG language.

  Property theorems (statements only; helper lemmas are in Proofs/).  `World P cfg env G inp`
  collects what is assumed about the emitted program `P` (every function is the emission of its
  rule's body, labels unique, `CheckAlwaysSucceeds` sound, AST mode; memoisation may be on or off, see C06) and about the input (runes below the end symbol).
-/
namespace PegVerif

variable {P : Program} {cfg : Cfg} {env : CEnv} {G : Grammar} {inp : List Sym}

/-- The PEG semantics assigns at most one outcome to an expression at a position, so "succeeds
    exactly when" is well defined. -/
theorem C01_semantics_deterministic {ρ e p r1 ev1 r2 ev2}
    (h1 : Eval G ρ inp e p r1 ev1) (h2 : Eval G ρ inp e p r2 ev2) : r1 = r2 ∧ ev1 = ev2 :=
  Eval_det h1 h2

/-- The reference interpreter used as oracle by the differential checks is sound for the
    relational semantics, for every fuel. -/
theorem C01_oracle_sound {ρ} (fuel : Nat) (e : Expr) (p : Nat) (res : Res) (evs : List Token)
    (h : evalF G ρ inp fuel e p = some (res, evs)) : Eval G ρ inp e p res evs :=
  evalF_sound fuel e p res evs h

/-- **C01** (for any rule `n` used as entry point, from a fresh parser): every run of the emitted
    function of `n` returns `true` exactly when the PEG semantics of `n` matches a prefix, then the
    position is the end of exactly that prefix, and it never panics. -/
theorem C01_refines (hW : World P cfg env G inp) {n cr res evs o s'}
    (hfind : P.find n = some cr) (hev : Eval G cfg.rho inp (.name n) 0 res evs)
    (hrun : Exec P cfg inp cr 0 St.init Frame.empty (o, s')) :
    (o = .ret true ↔ ∃ p' f, res = .ok p' f) ∧ (∀ p' f, res = .ok p' f → s'.pos = p') ∧
    (o = .ret false ↔ res = .fail) ∧ o ≠ .panic := by
  have h := R_rule_all hW hfind hev rfl (Nat.zero_le _) (by simp [St.init]) memoOK_init hrun
  cases res with
  | ok p' f =>
    obtain ⟨h1, h2, _⟩ := h
    subst h1
    refine ⟨⟨fun _ => ⟨p', f, rfl⟩, fun _ => rfl⟩, ?_, ⟨?_, ?_⟩, ?_⟩
    · intro p'' f'' e; cases e; exact h2
    · intro e; cases e
    · intro e; cases e
    · intro e; cases e
  | fail =>
    obtain ⟨h1, _⟩ := h
    subst h1
    refine ⟨⟨?_, ?_⟩, ?_, ⟨fun _ => rfl, fun _ => rfl⟩, ?_⟩
    · intro e; cases e
    · rintro ⟨_, _, e⟩; cases e
    · intro _ _ e; cases e
    · intro e; cases e

/-- The same from any admissible state and position (rule functions called in the middle of a
    parse, entry by any rule constant). -/
theorem C01_refines_anywhere (hW : World P cfg env G inp) {n cr p res evs s o s'}
    (hfind : P.find n = some cr) (hev : Eval G cfg.rho inp (.name n) p res evs)
    (hpos : s.pos = p) (hple : p ≤ inp.length) (hlen : s.ti ≤ s.tree.length)
    (hm : MemoOK P G cfg.rho inp s.memo s.maxTok.e)
    (hrun : Exec P cfg inp cr 0 s Frame.empty (o, s')) : RuleSpec P G cfg.rho inp s p res evs o s' :=
  R_rule_all hW hfind hev hpos hple hlen hm hrun

/-- … and such a run exists (the emitted function terminates whenever the semantics does). -/
theorem C01_run_exists (hW : World P cfg env G inp) {n cr res evs}
    (hfind : P.find n = some cr) (hev : Eval G cfg.rho inp (.name n) 0 res evs) :
    ∃ o s', Exec P cfg inp cr 0 St.init Frame.empty (o, s') :=
  let ⟨o, s', h, _⟩ := R_rule hW hfind hev rfl (Nat.zero_le _) (by simp [St.init]) memoOK_init
  ⟨o, s', h⟩

/-- The executable model used by the T-run tie obeys the theorem (it is not a separate artefact). -/
theorem C01_parseF (hW : World P cfg env G inp) {n cr res evs fuel pr st}
    (hfind : P.find n = some cr) (hev : Eval G cfg.rho inp (.name n) 0 res evs)
    (hrun : parseF P cfg inp fuel n St.init = (pr, st)) (hfuel : pr ≠ .stuck) :
    match res with
    | .ok p' forest => pr = .ok (postorderL forest) ∧ st.pos = p'
    | .fail => pr = .fail (evs.foldl updTok zeroTok) :=
  R_parseF hW hfind hev hrun hfuel

/-- **C01 for the generator itself** (default options without `-inline`/`-switch`, memoisation
    enabled or disabled): for every linked grammar that passes the decidable check `GrammarOK` (terminals below the
    end symbol, no reference from an emitted rule to a rule without function) and is `plain` (no
    `-switch`/`-inline` nodes), every input of valid runes, and every rule with an emitted function:
    each run of the function the MODEL GENERATOR emits returns true exactly when the PEG semantics
    matches a prefix, and stops at the end of exactly that prefix.  `World` is discharged here
    (`compileAll_world`, `alwaysSucceeds_sound`); the T-emit tie says the real generator emits this
    very program. -/
theorem C01_generated_parser (G : Grammar) (o : Opts) (cfg : Cfg) (inp : List Sym)
    (hinl : o.inline = false) (hsw : o.switch = false) (hast : o.ast = true)
    (hcfg : cfg.ast = true)
    (hinp : ∀ c ∈ inp, c ≠ END) (hG : GrammarOK G = true) (hL : LinkedOK G = true) (hplain : G.plain)
    {n cr res evs out s'} (hfind : (compileAll o G).find n = some cr)
    (hev : Eval G cfg.rho inp (.name n) 0 res evs)
    (hrun : Exec (compileAll o G) cfg inp cr 0 St.init Frame.empty (out, s')) :
    (out = .ret true ↔ ∃ p' f, res = .ok p' f) ∧ (∀ p' f, res = .ok p' f → s'.pos = p') ∧
    (out = .ret false ↔ res = .fail) ∧ out ≠ .panic :=
  C01_refines
    (compileAll_world hsw hinl hast hcfg hinp hG hL (fun _ h => alwaysSucceeds_sound hplain h))
    hfind hev hrun

/-- **C01, absolute form** (Ford's totality theorem `Eval_total` + R): for a grammar that passes the
    decidable well-formedness check `WFB` (no left recursion, no `*`/`+` over an expression that can
    succeed without consuming, every name defined) the semantics assigns an outcome to every rule at
    position 0 of every input, a run of the emitted function exists, and every run returns exactly that
    verdict and stops at the end of exactly the matched prefix. -/
theorem C01_wellformed (G : Grammar) (o : Opts) (cfg : Cfg) (inp : List Sym)
    (hwf : WFB G = true)
    (hinl : o.inline = false) (hsw : o.switch = false) (hast : o.ast = true) (hcfg : cfg.ast = true)
    (hinp : ∀ c ∈ inp, c ≠ END) (hG : GrammarOK G = true) (hL : LinkedOK G = true) (hplain : G.plain)
    {n cr} (hfind : (compileAll o G).find n = some cr) :
    ∃ res evs, Eval G cfg.rho inp (.name n) 0 res evs ∧
      (∃ out s', Exec (compileAll o G) cfg inp cr 0 St.init Frame.empty (out, s')) ∧
      ∀ out s', Exec (compileAll o G) cfg inp cr 0 St.init Frame.empty (out, s') →
        (out = .ret true ↔ ∃ p' f, res = .ok p' f) ∧ (∀ p' f, res = .ok p' f → s'.pos = p') ∧
        (out = .ret false ↔ res = .fail) ∧ out ≠ .panic := by
  have hW := compileAll_world (cfg := cfg) (inp := inp) hsw hinl hast hcfg hinp hG hL
    (fun _ h => alwaysSucceeds_sound hplain h)
  obtain ⟨_, b, _, _, hb, _⟩ := hW.rules n cr hfind
  obtain ⟨res, evs, hev⟩ := Eval_total (ρ := cfg.rho) hwf inp n b hb 0 (Nat.zero_le _)
  exact ⟨res, evs, hev, C01_run_exists hW hfind hev, fun out s' hrun => C01_refines hW hfind hev hrun⟩

/-! Non-vacuity: a grammar using sequence, choice, `*`, `!`, rule reference and a capture has
    derivations, found by the interpreter and certified by `C01_oracle_sound`. -/
def exG : Grammar := { rules := [
  { name := "S", id := 0, body := .ipush (.seq [.star (.alt [.name "A", .chr 98]), .peekNot .dot]) "S" },
  { name := "A", id := 1, body := .ipush (.push (.chr 97) "PegText") "A" }] }

example : ∃ f evs, Eval exG (fun _ _ => true) [97, 98, 97] (.name "S") 0 (.ok 3 f) evs :=
  ⟨_, _, evalF_sound 20 _ _ _ _ (by rfl)⟩

example : ∃ evs, Eval exG (fun _ _ => true) [97, 99] (.name "S") 0 .fail evs :=
  ⟨_, evalF_sound 20 _ _ _ _ (by rfl)⟩

/-- The hypotheses of `C01_generated_parser` are satisfiable: the example grammar passes both checks
    and both of its rules get a function. -/
example : WFB exG = true ∧ GrammarOK exG = true ∧ LinkedOK exG = true ∧ exG.plain ∧ ((compileAll {} exG).find "S").isSome = true ∧
    ((compileAll {} exG).find "A").isSome = true :=
  ⟨by decide, by decide, by decide, Grammar.plain_of_all (by decide), by decide, by decide⟩

end PegVerif

#print axioms PegVerif.C01_semantics_deterministic
#print axioms PegVerif.C01_oracle_sound
#print axioms PegVerif.C01_refines
#print axioms PegVerif.C01_refines_anywhere
#print axioms PegVerif.C01_run_exists
#print axioms PegVerif.C01_parseF
#print axioms PegVerif.C01_generated_parser
#print axioms PegVerif.C01_wellformed
