import PegVerif.Props.C01
import PegVerif.Proofs.InlineLemmas
/-
  C02 — `-inline` does not change what the generated parser accepts or publishes.

  `-inline` compiles a rule that has exactly one reference in place of that reference and emits no
  function for it (`slotOf`), except for the rule emitted with label 0.  In the model this is the
  source transformation `expandInline` (`name n ↦ inl n body`); `expandG o G` is the grammar whose
  bodies are the expanded ones.

  * `C02_inline_preserves_semantics`  the expanded grammar has exactly the derivations of `G`
                                      (result, derivation forest, attempted tokens);
  * `C02_inline_generated_parser`     the program emitted with `-inline` is judged against the
                                      semantics of the ORIGINAL grammar: same verdict, same
                                      prefix, same token list as prescribed by `Eval G`;
  * `C02_inline_same_as_default`      two runs, with and without `-inline`, agree.

  `World` for the inlined program is discharged in Proofs/InlineLemmas.lean
  (`compileAll_world_inline'`); the refinement theorem `R_rule_all` is the one used for C01.
-/
namespace PegVerif

theorem C02_semantics_deterministic {G ρ inp e p r1 ev1 r2 ev2}
    (h1 : Eval G ρ inp e p r1 ev1) (h2 : Eval G ρ inp e p r2 ev2) : r1 = r2 ∧ ev1 = ev2 :=
  Eval_det h1 h2

/-- The source transformation of `-inline` preserves the PEG semantics of every expression, in
    both directions: same result, same derivation forest, same attempted tokens. -/
theorem C02_inline_preserves_semantics (o : Opts) (G : Grammar) (ρ : String → Nat → Bool)
    (inp : List Sym) (e : Expr) (p : Nat) (res : Res) (evs : List Token) :
    Eval (expandG o G) ρ inp e p res evs ↔ Eval G ρ inp e p res evs :=
  Eval_expandG_iff

/-- … and an expanded expression means what the expression means. -/
theorem C02_expandInline_preserves_semantics (o : Opts) (G : Grammar) (ρ : String → Nat → Bool)
    (inp : List Sym) (cnt : String → Nat) (fuel : Nat) (e : Expr) (p : Nat) (res : Res)
    (evs : List Token) :
    Eval (expandG o G) ρ inp (expandInline G cnt fuel e) p res evs ↔ Eval G ρ inp e p res evs :=
  Eval_expandInline_iff

/-- **C02 for the generator itself** (`-inline`, no `-switch`, AST mode; memoisation enabled or
    disabled): for every linked grammar that passes the decidable check `GrammarOKI` (terminals
    below the end symbol, every reference left in an expanded body of an emitted rule is to a rule
    that has a function under `-inline`) and is `plain`, every input of valid runes and every rule
    with an emitted function: each run of the function the MODEL GENERATOR emits with `-inline`
    returns true exactly when the PEG semantics OF THE ORIGINAL GRAMMAR matches a prefix, stops at
    the end of exactly that prefix, and publishes exactly the post-order of the derivation forest —
    the statement the default parser satisfies by `C01_generated_parser` / `C03_tokens`. -/
theorem C02_inline_generated_parser (G : Grammar) (o : Opts) (cfg : Cfg) (inp : List Sym)
    (hinl : o.inline = true) (hsw : o.switch = false) (hast : o.ast = true)
    (hcfg : cfg.ast = true)
    (hinp : ∀ c ∈ inp, c ≠ END) (hG : GrammarOKI G = true) (hL : LinkedOK G = true) (hplain : G.plain)
    {n cr res evs out s'} (hfind : (compileAll o G).find n = some cr)
    (hev : Eval G cfg.rho inp (.name n) 0 res evs)
    (hrun : Exec (compileAll o G) cfg inp cr 0 St.init Frame.empty (out, s')) :
    (out = .ret true ↔ ∃ p' f, res = .ok p' f) ∧
    (∀ p' f, res = .ok p' f → s'.pos = p' ∧ s'.tree.take s'.ti = postorderL f) ∧
    (out = .ret false ↔ res = .fail) ∧ out ≠ .panic := by
  have hW := compileAll_world_inline' (cfg := cfg) (inp := inp) hinl hsw hast hcfg hinp hG hL hplain
  have h := R_rule_all hW hfind (Eval_expandG hev) rfl (Nat.zero_le _) (by simp [St.init])
    memoOK_init hrun
  cases res with
  | ok p' f =>
    obtain ⟨h1, h2, _, h4, _⟩ := h
    subst h1
    refine ⟨⟨fun _ => ⟨p', f, rfl⟩, fun _ => rfl⟩, ?_, ⟨?_, ?_⟩, ?_⟩
    · intro p'' f'' e; cases e
      exact ⟨h2, by simpa [St.init] using h4⟩
    · intro e; cases e
    · intro e; cases e
    · intro e; cases e
  | fail =>
    obtain ⟨h1, _⟩ := h
    subst h1
    refine ⟨⟨?_, ?_⟩, ?_, ⟨fun _ => rfl, fun _ => rfl⟩, ?_⟩
    · intro e; cases e
    · rintro ⟨_, _, e⟩; cases e
    · intro _ _ e; cases e
    · intro e; cases e

/-- … and such a run exists: the `-inline` parser terminates whenever the semantics of the original
    grammar assigns an outcome. -/
theorem C02_inline_run_exists (G : Grammar) (o : Opts) (cfg : Cfg) (inp : List Sym)
    (hinl : o.inline = true) (hsw : o.switch = false) (hast : o.ast = true)
    (hcfg : cfg.ast = true)
    (hinp : ∀ c ∈ inp, c ≠ END) (hG : GrammarOKI G = true) (hL : LinkedOK G = true) (hplain : G.plain)
    {n cr res evs} (hfind : (compileAll o G).find n = some cr)
    (hev : Eval G cfg.rho inp (.name n) 0 res evs) :
    ∃ out s', Exec (compileAll o G) cfg inp cr 0 St.init Frame.empty (out, s') :=
  C01_run_exists (compileAll_world_inline' hinl hsw hast hcfg hinp hG hL hplain) hfind
    (Eval_expandG hev)

/-- **`-inline` is unobservable**: for a rule `n` that has a function in both programs, a run of
    the default parser and a run of the `-inline` parser from a fresh state on the same input agree
    on the verdict, the end position, the published token list (`tree[:tokenIndex]`) and the error
    token (`maxToken`), whenever the PEG semantics assigns `n` an outcome at all (if it assigns none
    — left recursion — neither theorem says anything about a run). -/
theorem C02_inline_same_as_default (G : Grammar) (o : Opts) (cfg : Cfg) (inp : List Sym)
    (hsw : o.switch = false) (hast : o.ast = true) (hcfg : cfg.ast = true)
    (hinp : ∀ c ∈ inp, c ≠ END) (hG : GrammarOK G = true) (hGI : GrammarOKI G = true)
    (hL : LinkedOK G = true) (hplain : G.plain)
    {n cr1 cr2 res evs out1 s1 out2 s2}
    (hfind1 : (compileAll { o with inline := false } G).find n = some cr1)
    (hfind2 : (compileAll { o with inline := true } G).find n = some cr2)
    (hev : Eval G cfg.rho inp (.name n) 0 res evs)
    (hrun1 : Exec (compileAll { o with inline := false } G) cfg inp cr1 0 St.init Frame.empty (out1, s1))
    (hrun2 : Exec (compileAll { o with inline := true } G) cfg inp cr2 0 St.init Frame.empty (out2, s2)) :
    out1 = out2 ∧ out1 ≠ .panic ∧ s1.pos = s2.pos ∧ s1.ti = s2.ti ∧
    s1.tree.take s1.ti = s2.tree.take s2.ti ∧ s1.maxTok = s2.maxTok := by
  have hW1 := compileAll_world (o := { o with inline := false }) (cfg := cfg) (inp := inp)
    hsw rfl hast hcfg hinp hG hL (fun _ h => alwaysSucceeds_sound hplain h)
  have hW2 := compileAll_world_inline' (o := { o with inline := true }) (cfg := cfg) (inp := inp)
    rfl hsw hast hcfg hinp hGI hL hplain
  have h1 := R_rule_all hW1 hfind1 hev rfl (Nat.zero_le _) (by simp [St.init]) memoOK_init hrun1
  have h2 := R_rule_all hW2 hfind2 (Eval_expandG hev) rfl (Nat.zero_le _) (by simp [St.init])
    memoOK_init hrun2
  cases res with
  | ok p' f =>
    obtain ⟨a1, a2, a3, a4, _, a6, _⟩ := h1
    obtain ⟨b1, b2, b3, b4, _, b6, _⟩ := h2
    subst a1 b1
    refine ⟨rfl, ?_, by rw [a2, b2], by rw [a3, b3], by rw [a4, b4], by rw [a6, b6]⟩
    intro e; cases e
  | fail =>
    obtain ⟨a1, a2, a3, _, _, a6, _⟩ := h1
    obtain ⟨b1, b2, b3, _, _, b6, _⟩ := h2
    subst a1 b1
    refine ⟨rfl, ?_, by rw [a2, b2], by rw [a3, b3], by rw [a3, b3]; rfl, by rw [a6, b6]⟩
    intro e; cases e

/-! Non-vacuity.  `S <- A B B*`, `A <- 'a'`, `B <- 'b'`: `A` has one reference and is compiled in
    place (no function), `B` has two and keeps its function, `S` is the rule emitted with label 0. -/
def exGI : Grammar := { rules := [
  { name := "S", id := 0, body := .ipush (.seq [.name "A", .name "B", .star (.name "B")]) "S" },
  { name := "A", id := 1, body := .ipush (.chr 97) "A" },
  { name := "B", id := 2, body := .ipush (.chr 98) "B" }] }

/-- The hypotheses of `C02_inline_generated_parser` are satisfiable, and something is inlined. -/
example : GrammarOKI exGI = true ∧ GrammarOK exGI = true ∧ LinkedOK exGI = true ∧ exGI.plain ∧
    ((compileAll { inline := true } exGI).find "S").isSome = true ∧
    ((compileAll { inline := true } exGI).find "B").isSome = true ∧
    ((compileAll { inline := true } exGI).find "A").isSome = false ∧
    ((compileAll { inline := false } exGI).find "A").isSome = true :=
  ⟨by decide, by decide, by decide, Grammar.plain_of_all (by decide), by decide, by decide,
    by decide, by decide⟩

/-- The body `-inline` compiles for `S` carries the body of `A` in place. -/
example : (expandG { inline := true } exGI).body "S" =
    some (.ipush (.seq [.inl "A" (.ipush (.chr 97) "A"), .name "B", .star (.name "B")]) "S") := by
  rfl

/-- `GrammarOKI` is not trivially true: a reference that stays a call to a stub (`nil`) rule, which
    never gets a function, is rejected. -/
example : GrammarOKI { rules := [
    { name := "S", id := 0, body := .ipush (.seq [.name "B", .name "B"]) "S" },
    { name := "B", id := 1, body := .nil }] } = false := by decide

example : ∃ f evs, Eval exGI (fun _ _ => true) [97, 98, 98] (.name "S") 0 (.ok 3 f) evs :=
  ⟨_, _, evalF_sound 20 _ _ _ _ (by rfl)⟩

end PegVerif

#print axioms PegVerif.C02_semantics_deterministic
#print axioms PegVerif.C02_inline_preserves_semantics
#print axioms PegVerif.C02_expandInline_preserves_semantics
#print axioms PegVerif.C02_inline_generated_parser
#print axioms PegVerif.C02_inline_run_exists
#print axioms PegVerif.C02_inline_same_as_default
