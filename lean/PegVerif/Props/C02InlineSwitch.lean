import PegVerif.Proofs.InlineSwitch
import PegVerif.Proofs.InlineSwitchSafeDef
import PegVerif.Proofs.SwitchLemmas
import PegVerif.Props.C01
import PegVerif.Props.C12
import PegVerif.Model.Optimise
/-
  C02 — the option combination `-inline -switch` (AST mode).

  In Go: link → `-switch` rewrite of the grammar (`optimise`, giving `G'`) → emission with `-inline`
  (a reference to a rule with exactly one reference compiles the rule body in place, handing the
  `parentDetect` flags to it).  In the model: `compileAll o G'` with `o.inline = true`.

  * `C02_inline_switch_parser`           the emitted parser against the PEG semantics of the SOURCE
                                         grammar `G` (shape of `C02_switch_parser`);
  * `C02_inline_switch_same_as_default`  … against the default parser emitted from `G` (shape of
                                         `C02_switch_same_as_default`).

  Chain: `Eval G` ⇔ `Eval G'` (`Eval_switch_iff`, from `swOK`) ⇔ `Eval (expandG o G')`
  (`Eval_expandG_iff`), and `World` for `compileAll o G'` w.r.t. `expandG o G'`
  (`compileAll_world_inlineS'`, from `GrammarOKIS`, `LinkedOK`, `plainS`); then `R_rule_all` through
  C01 / C12.
-/
namespace PegVerif

/-- `World` for the program emitted with `-inline` from the `-switch`-rewritten grammar. -/
theorem inline_switch_world (G' : Grammar) (o : Opts) (cfg : Cfg) (inp : List Sym)
    (hinl : o.inline = true) (hast : o.ast = true) (hcfg : cfg.ast = true)
    (hinp : ∀ c ∈ inp, c ≠ END) (hG : GrammarOKIS G' = true) (hL : LinkedOK G' = true)
    (hplain : G'.plainS) :
    World (compileAll o G') cfg (realEnv o G') (expandG o G') inp :=
  compileAll_world_inlineS' hinl hast hcfg hinp hG hL hplain

/-- **C02, `-inline -switch`, end to end.**  For a well-formed grammar `G` and ANY rewritten grammar
    `G'` (in particular `optimise G`) that passes the decidable check `inlineSwitchSafe`, the parser
    emitted with `-inline` from `G'` — run from any post-`Reset` state on any input — terminates,
    never panics, and returns exactly the verdict, the consumed prefix and the token sequence that
    the PEG semantics of the ORIGINAL grammar `G` prescribes. -/
theorem C02_inline_switch_parser (G G' : Grammar) (o : Opts) (cfg : Cfg) (inp : List Sym)
    (hwf : WFB G = true) (hsafe : inlineSwitchSafe G G' = true)
    (hinl : o.inline = true) (hast : o.ast = true) (hcfg : cfg.ast = true)
    (hinp : ∀ c ∈ inp, c ≠ END)
    {n cr} (hfind : (compileAll o G').find n = some cr) :
    ∃ res evs, Eval G cfg.rho inp (.name n) 0 res evs ∧
      (∃ out s', Exec (compileAll o G') cfg inp cr 0 St.init Frame.empty (out, s')) ∧
      ∀ s out s', AfterReset s → Exec (compileAll o G') cfg inp cr 0 s Frame.empty (out, s') →
        out ≠ .panic ∧
        match res with
        | .ok p' forest => out = .ret true ∧ s'.pos = p' ∧ s'.tree.take s'.ti = postorderL forest
        | .fail => out = .ret false ∧ s'.pos = 0 := by
  simp only [inlineSwitchSafe, Bool.and_eq_true] at hsafe
  obtain ⟨⟨⟨hsw, hG⟩, hL⟩, hp⟩ := hsafe
  have hplain : G'.plainS := Grammar.plainS_of_all hp
  have hwf' : WFB G' = true := by
    simp only [swOK, Bool.and_eq_true] at hsw; exact hsw.1
  have hW := inline_switch_world G' o cfg inp hinl hast hcfg hinp hG hL hplain
  -- the rule exists in `G'` (its expanded body is what was compiled)
  obtain ⟨_, b, _, _, hb, _⟩ := hW.rules n cr hfind
  obtain ⟨b0, hb0⟩ : ∃ b0, G'.body n = some b0 := by
    rw [expandG_body] at hb
    cases hf : G'.find n with
    | none => rw [hf] at hb; cases hb
    | some r => exact ⟨r.body, by simp [Grammar.body, hf]⟩
  obtain ⟨res, evs', hev'⟩ := Eval_total (ρ := cfg.rho) hwf' inp n b0 hb0 0 (Nat.zero_le _)
  obtain ⟨evs, hev⟩ := (Eval_switch_iff hwf hsw).2 ⟨evs', hev'⟩
  have hevX : Eval (expandG o G') cfg.rho inp (.name n) 0 res evs' := Eval_expandG hev'
  refine ⟨res, evs, hev, C01_run_exists hW hfind hevX, ?_⟩
  intro s out s' hs hrun
  have h := C12_reset_like_fresh hW hs hfind hevX hrun
  have hf := C01_refines_anywhere hW hfind hevX hs.1 (Nat.zero_le _) (by rw [hs.2.1]; exact Nat.zero_le _)
    (by rw [hs.2.2.2]; exact memoOK_nil) hrun
  cases res with
  | ok p' forest => exact ⟨(by rw [h.1]; intro e; cases e), h⟩
  | fail => exact ⟨(by rw [h.1]; intro e; cases e), h.1, hf.2.1⟩

/-- **C02, `-inline -switch` against the default parser**: under `inlineSwitchSafe` (and the default
    parser's own side conditions on `G`), the parser generated WITH `-inline -switch` (from the
    rewritten grammar `G'`) and the parser generated WITHOUT either option (from `G`) give the same
    verdict, consume the same prefix and record the same token sequence, on every input and from
    every post-`Reset` state, and neither panics — for every rule that has a function in both
    programs.  (`o'.switch` is unconstrained: the emission does not read it.) -/
theorem C02_inline_switch_same_as_default (G G' : Grammar) (o o' : Opts) (cfg : Cfg) (inp : List Sym)
    (hwf : WFB G = true) (hsafe : inlineSwitchSafe G G' = true)
    (hinl : o.inline = false) (hsw : o.switch = false) (hast : o.ast = true)
    (hinl' : o'.inline = true) (hast' : o'.ast = true) (hcfg : cfg.ast = true)
    (hinp : ∀ c ∈ inp, c ≠ END)
    (hG : GrammarOK G = true) (hL : LinkedOK G = true) (hplain : G.plain)
    {n cr cr'} (hfind : (compileAll o G).find n = some cr) (hfind' : (compileAll o' G').find n = some cr')
    {s t out out' s' t'} (hs : AfterReset s) (ht : AfterReset t)
    (hrun : Exec (compileAll o G) cfg inp cr 0 s Frame.empty (out, s'))
    (hrun' : Exec (compileAll o' G') cfg inp cr' 0 t Frame.empty (out', t')) :
    out = out' ∧ out ≠ .panic ∧ out' ≠ .panic ∧ s'.pos = t'.pos ∧
      (out = .ret true → s'.tree.take s'.ti = t'.tree.take t'.ti) := by
  obtain ⟨res, evs, hev, _, hall⟩ :=
    C02_inline_switch_parser G G' o' cfg inp hwf hsafe hinl' hast' hcfg hinp hfind'
  have h' := hall t out' t' ht hrun'
  have hW := compileAll_world (cfg := cfg) (inp := inp) hsw hinl hast hcfg hinp hG hL
    (fun _ h => alwaysSucceeds_sound hplain h)
  have h := C12_reset_like_fresh hW hs hfind hev hrun
  cases res with
  | ok p' forest =>
    obtain ⟨a1, a2, a3⟩ := h
    obtain ⟨hp, b1, b2, b3⟩ := h'
    refine ⟨by rw [a1, b1], ?_, hp, by rw [a2, b2], fun _ => by rw [a3, b3]⟩
    rw [a1]; intro e; cases e
  | fail =>
    obtain ⟨a1, _⟩ := h
    obtain ⟨hp, b1, b2⟩ := h'
    have hf := C01_refines_anywhere hW hfind hev hs.1 (Nat.zero_le _) (by rw [hs.2.1]; exact Nat.zero_le _)
      (by rw [hs.2.2.2]; exact memoOK_nil) hrun
    refine ⟨by rw [a1, b1], ?_, hp, by rw [hf.2.1, b2], fun h => ?_⟩
    · rw [a1]; intro e; cases e
    · rw [a1] at h; cases h

/-! ## Non-vacuity

  Source grammar   `S <- (A / B 'y' / 'd' / [g-k] 'z') !.    A <- 'a' 'x'    B <- [b-c]`
  after `-switch`  `S <- switch { case 'd': 'd';  case 'a': A;  case 'b','c': B 'y';
                                  default: [g-k] 'z' } !.`   (the form `optimise` produces)

  `A` and `B` are referenced once, so `-inline` compiles their bodies in place, directly behind the
  `case`; `S` is the rule emitted with label 0 and keeps its function.  Inside the inlined body of
  `A` the test of `'a'` is elided (`parentDetect`, one key); inside the inlined body of `B` the test
  of `[b-c]` is kept (two keys: `parentMultipleKey`). -/
namespace InlineSwitchTests

def srcG : Grammar := { rules := [
  { name := "S", id := 0, body := .ipush (.seq [
      .alt [.name "A", .seq [.name "B", .chr 121], .chr 100, .seq [.rng 103 107, .chr 122]],
      .peekNot .dot]) "S" },
  { name := "A", id := 1, body := .ipush (.seq [.chr 97, .chr 120]) "A" },
  { name := "B", id := 2, body := .ipush (.rng 98 99) "B" }] }

def swG : Grammar := { rules := [
  { name := "S", id := 0, body := .ipush (.seq [
      .ualt [[(100, 100)], [(97, 97)], [(98, 99)], [(103, 107)]]
        [.chr 100, .name "A", .seq [.name "B", .chr 121], .seq [.rng 103 107, .chr 122]],
      .peekNot .dot]) "S" },
  { name := "A", id := 1, body := .ipush (.seq [.chr 97, .chr 120]) "A" },
  { name := "B", id := 2, body := .ipush (.rng 98 99) "B" }] }

def isOpts : Opts := { inline := true, switch := true, ast := true }

/-- All hypotheses of `C02_inline_switch_same_as_default` about the two grammars hold. -/
example : WFB srcG = true ∧ inlineSwitchSafe srcG swG = true ∧ GrammarOK srcG = true ∧
    LinkedOK srcG = true ∧ srcG.plain :=
  ⟨by decide, by decide, by decide, by decide, Grammar.plain_of_all (by decide)⟩

/-- `swG` is literally what the modelled optimiser (`optimise` = `optimizeAlternates`) makes of
    `srcG` (kernel-checked; `swMatchL` with no renaming is syntactic equality of the bodies) … -/
example : (optimise srcG).toOption.map (fun G' =>
    swMatchL (fun _ => none) (G'.rules.map (·.body)) (swG.rules.map (·.body)) &&
    G'.rules.map (fun r => (r.name, r.id)) == swG.rules.map (fun r => (r.name, r.id))) = some true := by
  decide
-- … and the side condition evaluated directly on the optimiser's output (interpreter).
#guard (optimise srcG).toOption.map (inlineSwitchSafe srcG) == some true

/-- `S` has a function in both programs; `A` and `B` have one in the default program only. -/
example : (((compileAll {} srcG).find "S").isSome, ((compileAll isOpts swG).find "S").isSome,
    ((compileAll {} srcG).find "A").isSome, ((compileAll isOpts swG).find "A").isSome,
    ((compileAll {} srcG).find "B").isSome, ((compileAll isOpts swG).find "B").isSome) =
    (true, true, true, false, true, false) := by decide

/-- The body compiled for `S`: the rule bodies sit in place behind the `case`s. -/
example : (expandG isOpts swG).body "S" = some (.ipush (.seq [
    .ualt [[(100, 100)], [(97, 97)], [(98, 99)], [(103, 107)]]
      [.chr 100, .inl "A" (.ipush (.seq [.chr 97, .chr 120]) "A"),
       .seq [.inl "B" (.ipush (.rng 98 99) "B"), .chr 121], .seq [.rng 103 107, .chr 122]],
    .peekNot .dot]) "S") := by rfl

/-- The elision really happens INSIDE the inlined body: no test of `'a'` is printed (while the
    default parser has one, in the function of `A`), the range test of the two-key case is kept,
    there is a `switch`, no call is left, and both inlined rules still publish their token. -/
example : ((compileAll isOpts swG).find "S").map (fun c =>
      (c.any (fun i => match i with | .ifNeChr 97 _ => true | _ => false),
       c.any (fun i => match i with | .ifNotRng 98 99 _ => true | _ => false),
       c.any (fun i => match i with | .switchOn .. => true | _ => false),
       c.any (fun i => match i with | .call _ | .callIf _ _ => true | _ => false),
       c.any (fun i => match i with | .add "A" _ => true | _ => false),
       c.any (fun i => match i with | .add "B" _ => true | _ => false))) =
    some (false, true, true, false, true, true) := by decide
example : ((compileAll {} srcG).find "A").map (fun c =>
    c.any (fun i => match i with | .ifNeChr 97 _ => true | _ => false)) = some true := by decide

/-- The side condition is not vacuous: if the key of the first case does not imply the character
    the inlined body of `A` starts with, the elision is not justified — rejected (while the same
    grammar passes the `-switch`-only check `GrammarOKS`, where `A` is a call). -/
def swGbad : Grammar := { rules := [
  { name := "S", id := 0, body := .ipush (.seq [
      .ualt [[(98, 98)], [(99, 99)]] [.name "A", .seq [.name "B", .chr 121], .chr 100],
      .peekNot .dot]) "S" },
  { name := "A", id := 1, body := .ipush (.seq [.chr 97, .chr 120]) "A" },
  { name := "B", id := 2, body := .ipush (.rng 98 99) "B" }] }

example : (GrammarOKIS swGbad, GrammarOKS swGbad) = (false, true) := by decide

/-- TEST harness: the reference interpreter on the SOURCE grammar against the code emitted with
    `-inline -switch` from the rewritten grammar, run by the machine model. -/
def agree (G G' : Grammar) (inp : List Sym) : Bool :=
  let cfg : Cfg := { ast := true, memo := true, rho := fun _ _ => true }
  match (compileAll isOpts G').find "S" with
  | none => false
  | some cr =>
    match evalF G cfg.rho inp 50 (.name "S") 0,
        execF (compileAll isOpts G') cfg inp 500 cr 0 St.init Frame.empty with
    | some (.ok p' f, _), some (.ret true, s') => s'.pos == p' && s'.tree.take s'.ti == postorderL f
    | some (.fail, _), some (.ret false, s') => s'.pos == 0
    | _, _ => false

/-- TESTS (not theorems about all inputs): `execF` and `evalF` agree on accepted and rejected inputs. -/
example : agree srcG swG [97, 120] = true := by decide          -- "ax"  accepted, case 0 (inlined A)
example : agree srcG swG [98, 121] = true := by decide          -- "by"  accepted, case 1 (inlined B)
example : agree srcG swG [99, 121] = true := by decide          -- "cy"  accepted, case 1
example : agree srcG swG [100] = true := by decide              -- "d"   accepted, case 'd'
example : agree srcG swG [104, 122] = true := by decide         -- "hz"  accepted, default
example : agree srcG swG [97, 121] = true := by decide          -- "ay"  rejected inside inlined A
example : agree srcG swG [97] = true := by decide               -- "a"   rejected inside inlined A
example : agree srcG swG [98, 120] = true := by decide          -- "bx"  rejected after inlined B
example : agree srcG swG [101] = true := by decide              -- "e"   rejected in the default
example : agree srcG swG [] = true := by decide                 -- ""    rejected (end symbol → default)
example : agree srcG swG [97, 120, 97] = true := by decide      -- "axa" rejected by `!.`

/-- TEST: on "ax" the `-inline -switch` parser publishes the tokens `A[0,2) S[0,2)` — the inlined
    rule still has its node. -/
example : ((compileAll isOpts swG).find "S").bind (fun cr =>
    (execF (compileAll isOpts swG) { ast := true, memo := true, rho := fun _ _ => true }
      [97, 120] 500 cr 0 St.init Frame.empty).map (fun r => (r.1, r.2.tree.take r.2.ti))) =
    some (.ret true, [⟨"A", 0, 2⟩, ⟨"S", 0, 2⟩]) := by decide

/-- … as the semantics of the source grammar prescribes. -/
example : ∃ f evs, Eval srcG (fun _ _ => true) [97, 120] (.name "S") 0 (.ok 2 f) evs ∧
    postorderL f = [⟨"A", 0, 2⟩, ⟨"S", 0, 2⟩] :=
  ⟨_, _, evalF_sound 20 _ _ _ _ (by rfl), by rfl⟩

/-- (semantics accepts?, emitted `-inline -switch` code accepts?) -/
def verdicts (G G' : Grammar) (inp : List Sym) : Option (Bool × Bool) :=
  let cfg : Cfg := { ast := true, memo := true, rho := fun _ _ => true }
  match (compileAll isOpts G').find "S" with
  | none => none
  | some cr =>
    match evalF G cfg.rho inp 50 (.name "S") 0,
        execF (compileAll isOpts G') cfg inp 500 cr 0 St.init Frame.empty with
    | some (r, _), some (o, _) =>
      some (match r with | .ok _ _ => true | .fail => false,
            match o with | .ret true => true | _ => false)
    | _, _ => none

/-- TEST: the rejected grammar `swGbad` is really wrong under `-inline` — "bx" is accepted by the
    emitted code (the test of `'a'` is elided inside the inlined body of `A`), though the semantics
    of `swGbad` rejects it; without the elision being unjustified (`swG`) both reject. -/
example : (verdicts swGbad swGbad [98, 120], verdicts srcG swG [98, 120]) =
    (some (false, true), some (false, false)) := by decide

end InlineSwitchTests
end PegVerif

#print axioms PegVerif.inline_switch_world
#print axioms PegVerif.C02_inline_switch_parser
#print axioms PegVerif.C02_inline_switch_same_as_default
