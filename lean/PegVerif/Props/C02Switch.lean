import PegVerif.Proofs.SwitchLemmas
import PegVerif.Proofs.SwitchRefine
import PegVerif.Proofs.SwitchSafeDef
import PegVerif.Props.C01
import PegVerif.Model.Optimise
import PegVerif.Model.Link
import PegVerif.Generated.PegGrammar
/-
  C02 (`-switch` part) — translation validation of the first-set rewrite.

  There is no theorem about `optimise` (the rewrite `optimizeAlternates`) itself: it was unsound for
  some grammars (finding F-C02-1 and the parentDetect defects of `compile`, repaired in `tree/peg.go`; the replay grammars of the repairs
  are TESTS at the end of this file) and it computes with the interval sets of `set/set.go`.  What
  is proved (Proofs/SwitchLemmas.lean): for every pair `G`, `G'` the
  executable check `swOK G G'` accepts, every rule has the same outcome in both grammars.

  Below: the theorems under their C02 names, and TESTS of the checker (each `example` is evaluated
  by the kernel through `decide`; the `#guard`s are evaluated by the interpreter and fail the build
  when false).
-/
namespace PegVerif

/-- If `swOK` accepts, the rewritten grammar has the outcomes of the original: same verdict, same
    end position, same derivation forest. -/
theorem C02_switch_validated {G G' : Grammar} (h : swOK G G' = true) {ρ inp n p res evs}
    (he : Eval G ρ inp (.name n) p res evs) : ∃ evs', Eval G' ρ inp (.name n) p res evs' :=
  Eval_switch h he

/-- … and with a well-formed original the outcomes are exactly the same. -/
theorem C02_switch_validated_iff {G G' : Grammar} (hwf : WFB G = true) (h : swOK G G' = true)
    {ρ inp n p res} :
    (∃ evs, Eval G ρ inp (.name n) p res evs) ↔ (∃ evs', Eval G' ρ inp (.name n) p res evs') :=
  Eval_switch_iff hwf h

/-- For the real optimiser: whenever its output passes the check, it is equivalent. -/
theorem C02_switch_optimise {G G' : Grammar} (_ho : optimise G = .ok G') (h : swOK G G' = true)
    {ρ inp n p res res' evs evs'}
    (he : Eval G ρ inp (.name n) p res evs) (he' : Eval G' ρ inp (.name n) p res' evs') :
    res = res' :=
  Eval_switch_unique h he he'

/-- **C02, `-switch`, end to end.**  For a well-formed grammar `G` and ANY rewritten grammar `G'`
    (in particular `optimise G`) that passes the decidable check `switchSafe`, the parser emitted
    with `-switch` from `G'` — run from any post-`Reset` state on any input — terminates, never
    panics, and returns exactly the verdict, the consumed prefix and the token sequence that the
    PEG semantics of the ORIGINAL grammar `G` prescribes. -/
theorem C02_switch_parser (G G' : Grammar) (o : Opts) (cfg : Cfg) (inp : List Sym)
    (hwf : WFB G = true) (hsafe : switchSafe G G' = true)
    (hinl : o.inline = false) (hast : o.ast = true) (hcfg : cfg.ast = true)
    (hinp : ∀ c ∈ inp, c ≠ END)
    {n cr} (hfind : (compileAll o G').find n = some cr) :
    ∃ res evs, Eval G cfg.rho inp (.name n) 0 res evs ∧
      (∃ out s', Exec (compileAll o G') cfg inp cr 0 St.init Frame.empty (out, s')) ∧
      ∀ s out s', AfterReset s → Exec (compileAll o G') cfg inp cr 0 s Frame.empty (out, s') →
        out ≠ .panic ∧
        match res with
        | .ok p' forest => out = .ret true ∧ s'.pos = p' ∧ s'.tree.take s'.ti = postorderL forest
        | .fail => out = .ret false ∧ s'.pos = 0 := by
  simp only [switchSafe, Bool.and_eq_true] at hsafe
  obtain ⟨⟨⟨hsw, hG⟩, hL⟩, hp⟩ := hsafe
  have hplain : G'.plainS := Grammar.plainS_of_all hp
  have hwf' : WFB G' = true := by
    simp only [swOK, Bool.and_eq_true] at hsw; exact hsw.1
  have hW := switch_world G' o cfg inp hinl hast hcfg hinp hG hL hplain
  obtain ⟨_, b, _, _, hb, _⟩ := hW.rules n cr hfind
  obtain ⟨res, evs', hev'⟩ := Eval_total (ρ := cfg.rho) hwf' inp n b hb 0 (Nat.zero_le _)
  obtain ⟨evs, hev⟩ := (Eval_switch_iff hwf hsw).2 ⟨evs', hev'⟩
  refine ⟨res, evs, hev, switch_run_exists G' o cfg inp hinl hast hcfg hinp hG hL hplain hfind hev', ?_⟩
  intro s out s' hs hrun
  have h := switch_generated_parser_tokens G' o cfg inp hinl hast hcfg hinp hG hL hplain hs hfind hev' hrun
  have hf := C01_refines_anywhere hW hfind hev' hs.1 (Nat.zero_le _) (by rw [hs.2.1]; exact Nat.zero_le _)
    (by rw [hs.2.2.2]; exact memoOK_nil) hrun
  refine ⟨h.1, ?_⟩
  cases res with
  | ok p' forest => exact h.2
  | fail => exact ⟨h.2.1, hf.2.1⟩

/-- **C02, `-switch` against the default parser**: under `switchSafe` (and the default parser's own
    side conditions on `G`), the parser generated WITH `-switch` and the parser generated WITHOUT
    give the same verdict, consume the same prefix and record the same token sequence, on every
    input and from every post-`Reset` state. -/
theorem C02_switch_same_as_default (G G' : Grammar) (o o' : Opts) (cfg : Cfg) (inp : List Sym)
    (hwf : WFB G = true) (hsafe : switchSafe G G' = true)
    (hinl : o.inline = false) (hsw : o.switch = false) (hast : o.ast = true)
    (hinl' : o'.inline = false) (hast' : o'.ast = true) (hcfg : cfg.ast = true)
    (hinp : ∀ c ∈ inp, c ≠ END)
    (hG : GrammarOK G = true) (hL : LinkedOK G = true) (hplain : G.plain)
    {n cr cr'} (hfind : (compileAll o G).find n = some cr) (hfind' : (compileAll o' G').find n = some cr')
    {s t out out' s' t'} (hs : AfterReset s) (ht : AfterReset t)
    (hrun : Exec (compileAll o G) cfg inp cr 0 s Frame.empty (out, s'))
    (hrun' : Exec (compileAll o' G') cfg inp cr' 0 t Frame.empty (out', t')) :
    out = out' ∧ out ≠ .panic ∧ s'.pos = t'.pos ∧
      (out = .ret true → s'.tree.take s'.ti = t'.tree.take t'.ti) := by
  obtain ⟨res, evs, hev, _, hall⟩ :=
    C02_switch_parser G G' o' cfg inp hwf hsafe hinl' hast' hcfg hinp hfind'
  have h' := hall t out' t' ht hrun'
  have hW := compileAll_world (cfg := cfg) (inp := inp) hsw hinl hast hcfg hinp hG hL
    (fun _ h => alwaysSucceeds_sound hplain h)
  have h := C12_reset_like_fresh hW hs hfind hev hrun
  cases res with
  | ok p' forest =>
    obtain ⟨a1, a2, a3⟩ := h
    obtain ⟨_, b1, b2, b3⟩ := h'
    refine ⟨by rw [a1, b1], ?_, by rw [a2, b2], fun _ => by rw [a3, b3]⟩
    rw [a1]; intro e; cases e
  | fail =>
    obtain ⟨a1, _⟩ := h
    obtain ⟨_, b1, b2⟩ := h'
    have hf := C01_refines_anywhere hW hfind hev hs.1 (Nat.zero_le _) (by rw [hs.2.1]; exact Nat.zero_le _)
      (by rw [hs.2.2.2]; exact memoOK_nil) hrun
    refine ⟨by rw [a1, b1], ?_, by rw [hf.2.1, b2], fun h => ?_⟩
    · rw [a1]; intro e; cases e
    · rw [a1] at h; cases h

/-! ## TESTS of the checker -/
namespace SwitchTests

def run (G : Grammar) (s : String) : Option Res :=
  (evalF G (fun _ _ => true) (s.toList.map Char.toNat) 1000 (.name "S") 0).map (·.1)

def accepts (G : Grammar) (s : String) : Bool :=
  match run G s with
  | some (.ok _ _) => true
  | _ => false

def accepts' (G : Grammar) (inp : List Sym) : Bool :=
  match evalF G (fun _ _ => true) inp 1000 (.name "S") 0 with
  | some (.ok _ _, _) => true
  | _ => false

/-- `optimise G`, and whether the checker accepts it. -/
def checkOpt (G : Grammar) : Option Bool := (optimise G).toOption.map (swOK G)

/-- TEST (i).  `S <- ('a' 'x' / [b-c] 'y' / 'd' 'z') !.` -/
def G1 : Grammar := { rules := [
  { name := "S", id := 0, body := .ipush (.seq [
      .alt [.seq [.chr 97, .chr 120], .seq [.rng 98 99, .chr 121], .seq [.chr 100, .chr 122]],
      .peekNot .dot]) "S" }] }

/-- … and a hand-written switch form. -/
def G1hand : Grammar := { rules := [
  { name := "S", id := 0, body := .ipush (.seq [
      .ualt [[(97, 97)], [(98, 99)], [(100, 100)]]
        [.seq [.chr 97, .chr 120], .seq [.rng 98 99, .chr 121], .seq [.chr 100, .chr 122]],
      .peekNot .dot]) "S" }] }

example : swOK G1 G1hand = true := by decide
/-- the optimiser's own output (cases in its shuffled order) -/
example : checkOpt G1 = some true := by decide
/-- no rewrite at all is also accepted -/
example : swOK G1 G1 = true := by decide

/-- TEST: wrong hand-written forms of `G1` are rejected — a key that does not contain the first
    set of its case; overlapping keys of an earlier case; a case dropped. -/
def G1bad (ks : List KeySet) (us : List Expr) : Grammar := { rules := [
  { name := "S", id := 0, body := .ipush (.seq [.ualt ks us, .peekNot .dot]) "S" }] }

example : swOK G1 (G1bad [[(97, 97)], [(98, 98)], [(100, 100)]]
    [.seq [.chr 97, .chr 120], .seq [.rng 98 99, .chr 121], .seq [.chr 100, .chr 122]]) = false := by
  decide
example : swOK G1 (G1bad [[(97, 98)], [(98, 99)], [(100, 100)]]
    [.seq [.chr 97, .chr 120], .seq [.rng 98 99, .chr 121], .seq [.chr 100, .chr 122]]) = false := by
  decide
example : swOK G1 (G1bad [[(97, 97)], [(98, 99)]]
    [.seq [.chr 97, .chr 120], .seq [.rng 98 99, .chr 121]]) = false := by
  decide
/-- the default case's keys are not used: anything there is fine … -/
example : swOK G1 (G1bad [[(97, 97)], [(98, 99)], []]
    [.seq [.chr 97, .chr 120], .seq [.rng 98 99, .chr 121], .seq [.chr 100, .chr 122]]) = true := by
  decide
/-- … but the default must not be able to start with a symbol of another case. -/
example : swOK G1 (G1bad [[(97, 97)], [(100, 100)], []]
    [.seq [.chr 97, .chr 120], .seq [.chr 100, .chr 122], .seq [.rng 98 100, .chr 121]]) = false := by
  decide

/-- TEST (ii), REPAIRED (F-C02-1): a nullable alternative.
    `S <- ('a'? 'k'? / 'b' 'x' / 'c' 'y') 'z' !.` — on "bxz" the grammar takes the first
    alternative (empty) and then fails on 'z'.  A choice with an alternative that may succeed
    without consuming is no longer rewritten (`consumes` is the conjunction over all alternatives). -/
def G3 : Grammar := { rules := [
  { name := "S", id := 0, body := .ipush (.seq [
      .alt [.seq [.query (.chr 97), .query (.chr 107)], .seq [.chr 98, .chr 120],
            .seq [.chr 99, .chr 121]],
      .chr 122, .peekNot .dot]) "S" }] }

/-- the optimiser leaves the choice ordered, the language is unchanged … -/
example : (optimise G3).toOption.map (fun G' => (accepts G3 "bxz", accepts G' "bxz")) =
    some (false, false) := by decide
example : (optimise G3).toOption.map (fun G' => swMatchE (fun _ => none) (G3.rules.map (·.body)).head!
    (G'.rules.map (·.body)).head!) = some true := by decide      -- literally the same tree
/-- … and the checker accepts the pair. -/
example : checkOpt G3 = some true := by decide

/-- TEST of the CHECKER: the rewrite the unrepaired optimiser made of `G3` (a switch on the
    incomplete first sets; it accepts "bxz") is REJECTED. -/
def G3old : Grammar := { rules := [
  { name := "S", id := 0, body := .ipush (.seq [
      .ualt [[(98, 98)], [(99, 99)], [(97, 97), (107, 107)]]
        [.seq [.chr 98, .chr 120], .seq [.chr 99, .chr 121],
         .seq [.query (.chr 97), .query (.chr 107)]],
      .chr 122, .peekNot .dot]) "S" }] }

example : (accepts G3 "bxz", accepts G3old "bxz") = (false, true) := by decide
example : swOK G3 G3old = false := by decide

/-- TEST (ii'), REPAIRED (the `compile` part of F-C02-1, "F-C02-2" in earlier notes),
    `S <- (([a-b] 'q' / 'c' 'w') 'z' / [d-h] 'x' / 'i' 'y') !.`
    The checker accepts the optimiser's output: the rewritten TREE is equivalent.  The defect was in
    the code EMITTED for the switch (`[a-b]` reached with `parentDetect` under the three-key case
    a,b,c skipped its test, so "cqz" was accepted); `compile` now keeps the test of a range under
    `parentMultipleKey`, the emitted code is covered by `switchSafe`. -/
def G2 : Grammar := { rules := [
  { name := "S", id := 0, body := .ipush (.seq [
      .alt [.seq [.alt [.seq [.rng 97 98, .chr 113], .seq [.chr 99, .chr 119]], .chr 122],
            .seq [.rng 100 104, .chr 120], .seq [.chr 105, .chr 121]],
      .peekNot .dot]) "S" }] }

example : checkOpt G2 = some true := by decide
example : (optimise G2).toOption.map (fun G' => (accepts G2 "cqz", accepts G' "cqz")) =
    some (false, false) := by decide
/-- the emitted code tests `[a-b]` (and the machine rejects "cqz", accepts "cwz") -/
example : (optimise G2).toOption.map (fun G' =>
    (((compileAll {} G').find "S").map (fun c =>
      c.any (fun i => match i with | .ifNotRng 97 98 _ => true | _ => false)),
     swAgree G' [99, 113, 122], swAgree G' [99, 119, 122], swAgree G' [97, 113, 122])) =
    some (some true, true, true, true) := by decide

/-- TEST (iii).  Ordered alternatives followed by a switch:
    `S <- ('a' / 'b' 'y' / 'a' 'z' / 'c' 'w') !.` — `'a'` intersects the later `'a' 'z'` and stays
    in front; it is tried before `'a' 'z'` as in the original. -/
def G4 : Grammar := { rules := [
  { name := "S", id := 0, body := .ipush (.seq [
      .alt [.chr 97, .seq [.chr 98, .chr 121], .seq [.chr 97, .chr 122], .seq [.chr 99, .chr 119]],
      .peekNot .dot]) "S" }] }

example : checkOpt G4 = some true := by decide

/-- the optimiser's form: `'a' / switch { … }` -/
def G4hand (os : List Expr) (ks : List KeySet) (us : List Expr) : Grammar := { rules := [
  { name := "S", id := 0, body := .ipush (.seq [.alt (os ++ [.ualt ks us]), .peekNot .dot]) "S" }] }

example : swOK G4 (G4hand [.chr 97] [[(98, 98)], [(97, 97)], [(99, 99)]]
    [.seq [.chr 98, .chr 121], .seq [.chr 97, .chr 122], .seq [.chr 99, .chr 119]]) = true := by
  decide
/-- TEST: a WRONG form, `'a' 'z'` moved in front of `'a'` (on "az" the original fails at `!.`, this
    one accepts): the order-reversal guard rejects it. -/
example : swOK G4 (G4hand [.seq [.chr 97, .chr 122]] [[(98, 98)], [(97, 97)], [(99, 99)]]
    [.seq [.chr 98, .chr 121], .chr 97, .seq [.chr 99, .chr 119]]) = false := by
  decide
example : (accepts G4 "az", accepts (G4hand [.seq [.chr 97, .chr 122]] [[(98, 98)], [(97, 97)], [(99, 99)]]
    [.seq [.chr 98, .chr 121], .chr 97, .seq [.chr 99, .chr 119]]) "az") = (false, true) := by
  decide

/-- TEST (iii).  Rule references, a nested rewritten choice, lookahead-first alternatives:
    `S <- (A 'x' / B S / !'q' [m-p] / &{ok} 'r') !.   A <- 'a' / 'e' / [f-g]   B <- 'b'` -/
def G5 : Grammar := { rules := [
  { name := "S", id := 0, body := .ipush (.seq [
      .alt [.seq [.name "A", .chr 120], .seq [.name "B", .query (.name "S")],
            .seq [.peekNot (.chr 113), .rng 109 112], .seq [.pred "ok", .chr 114]],
      .peekNot .dot]) "S" },
  { name := "A", id := 1, body := .ipush (.alt [.chr 97, .chr 101, .rng 102 103]) "A" },
  { name := "B", id := 2, body := .ipush (.chr 98) "B" }] }

example : checkOpt G5 = some true := by decide

/-- TEST (iii).  The grammar of peg itself (`peg.peg`, 47 rules; 100 after `link`): the optimiser
    rewrites choices in 7 rules (ImportName, Prefix, Suffix, Primary, IdentStart, Escape, Space)
    and the checker accepts the result — so `-switch` is validated for the bootstrap grammar. -/
def pegG : Grammar := (linkGrammar pegFrontRules).G

mutual
  def hasSwitch : Expr → Bool
    | .ualt _ _ => true
    | .inl _ e | .peekFor e | .peekNot e | .query e | .star e | .plus e | .push e _ | .ipush e _ =>
      hasSwitch e
    | .seq es | .alt es => hasSwitchL es
    | _ => false
  def hasSwitchL : List Expr → Bool
    | [] => false
    | e :: es => hasSwitch e || hasSwitchL es
end

#guard WFB pegG
#guard checkOpt pegG == some true
#guard (optimise pegG).toOption.map (fun G' => (G'.rules.filter (fun r => hasSwitch r.body)).length)
  == some 7

/-! ## TESTS: the replay grammars of the three repairs of `tree/peg.go`

  For each grammar: the default parser's side conditions hold, `optimise` succeeds and its output
  passes `switchSafe` — so `C02_switch_same_as_default` applies to the repaired optimiser's output:
  the `-switch` parser and the default parser agree on every input. -/

/-- `optimise G` succeeds and its output passes the end-to-end side condition. -/
def safeOpt (G : Grammar) : Option Bool := (optimise G).toOption.map (switchSafe G)

/-- Was some choice rewritten into a switch? -/
def rewritten (G : Grammar) : Option Bool :=
  (optimise G).toOption.map (fun G' => G'.rules.any (fun r => hasSwitch r.body))

/-- The hypotheses of `C02_switch_same_as_default` about the source grammar. -/
def defaultOK (G : Grammar) : Bool :=
  WFB G && GrammarOK G && LinkedOK G && G.rules.all (fun r => r.body.plain)

def mkS (alts tail : List Expr) : Grammar := { rules := [
  { name := "S", id := 0, body := .ipush (.seq (.alt alts :: tail)) "S" }] }

/-- (1) `S <- ('a'? 'k'? / 'b' 'x' / 'c' 'y') 'z' !.` = `G3`: nullable alternative, not rewritten. -/
example : (defaultOK G3, safeOpt G3, rewritten G3) = (true, some true, some false) := by decide

/-- (2) `S <- (&'q' / 'b' 'x' / 'c' 'y') 'z' !.`: lookahead-only alternative, not rewritten. -/
def Rp2 : Grammar := mkS [.peekFor (.chr 113), .seq [.chr 98, .chr 120], .seq [.chr 99, .chr 121]]
  [.chr 122, .peekNot .dot]
example : (defaultOK Rp2, safeOpt Rp2, rewritten Rp2) = (true, some true, some false) := by decide

/-- (3) `S <- (([a-b] 'q' / 'c' 'w') 'z' / [d-h] 'x' / 'i' 'y') !.` = `G2`: rewritten, the range
    under the multi-key case keeps its test. -/
example : (defaultOK G2, safeOpt G2, rewritten G2) = (true, some true, some true) := by decide

/-- (4) `S <- ([a-b]* 'x' 'q' / 'c' 'w' / [k-t] 'v') !.`: all three alternatives consume, the choice
    IS rewritten; `e*` compiles its body without `parentDetect`. -/
def Rp4 : Grammar := mkS [.seq [.star (.rng 97 98), .chr 120, .chr 113], .seq [.chr 99, .chr 119],
  .seq [.rng 107 116, .chr 118]] [.peekNot .dot]
example : (defaultOK Rp4, safeOpt Rp4, rewritten Rp4) = (true, some true, some true) := by decide
/-- The `[a-b]*` alternative is a non-default case with the keys a, b, x (as observed on the real
    repaired generator) … -/
example : (optimise Rp4).toOption.map (fun G' => swMatchL (fun _ => none) (G'.rules.map (·.body)) [
    .ipush (.seq [.ualt [[(99, 99)], [(97, 98), (120, 120)], [(107, 116)]]
      [.seq [.chr 99, .chr 119], .seq [.star (.rng 97 98), .chr 120, .chr 113],
       .seq [.rng 107 116, .chr 118]], .peekNot .dot]) "S"]) = some true := by decide
/-- … and the code of the star body contains the range test: it is no longer elided. -/
example : (optimise Rp4).toOption.map (fun G' => ((compileAll {} G').find "S").map (fun c =>
    c.any (fun i => match i with | .ifNotRng 97 98 _ => true | _ => false))) = some (some true) := by
  decide
example : (optimise Rp4).toOption.map (fun G' =>
    [[97, 98, 97, 120, 113], [120, 113], [97, 99], [99, 119], [108, 118], [97], []].all (swAgree G')) =
    some true := by decide

/-- (5) `S <- (![a-b] [a-c] 'q' / 'd' 'w' / [k-t] 'v') !.`: `!e` compiles `e` without the flags. -/
def Rp5 : Grammar := mkS [.seq [.peekNot (.rng 97 98), .rng 97 99, .chr 113], .seq [.chr 100, .chr 119],
  .seq [.rng 107 116, .chr 118]] [.peekNot .dot]
example : (defaultOK Rp5, safeOpt Rp5, rewritten Rp5) = (true, some true, some true) := by decide
example : (optimise Rp5).toOption.map (fun G' =>
    [[99, 113], [97, 113], [98, 113], [100, 119], [107, 118]].map (fun i => (swAgree G' i, accepts' G' i))) =
    some [(true, true), (true, false), (true, false), (true, true), (true, true)] := by decide

/-- (6) `S <- (&[b-c] 'a' 'q' / 'd' 'w' / [k-t] 'v') !.`: `&e` compiles `e` without the flags. -/
def Rp6 : Grammar := mkS [.seq [.peekFor (.rng 98 99), .chr 97, .chr 113], .seq [.chr 100, .chr 119],
  .seq [.rng 107 116, .chr 118]] [.peekNot .dot]
example : (defaultOK Rp6, safeOpt Rp6, rewritten Rp6) = (true, some true, some true) := by decide
example : (optimise Rp6).toOption.map (fun G' =>
    [[97, 113], [98, 113], [100, 119], [107, 118]].map (fun i => (swAgree G' i, accepts' G' i))) =
    some [(true, false), (true, false), (true, true), (true, true)] := by decide

/-- (7) recursion, `S <- C !.  C <- 'c' A / 'k'  A <- C 'x' D / 'y'  D <- A 'z' / 'c' 'w' / 'd' 'v'`:
    while `A` is analysed (`reached`, not `done`) the reference to it from `D` answers "does not
    consume, any character", so the choice of `D` stays ordered. -/
def Rp7 : Grammar := { rules := [
  { name := "S", id := 0, body := .ipush (.seq [.name "C", .peekNot .dot]) "S" },
  { name := "C", id := 1, body := .ipush (.alt [.seq [.chr 99, .name "A"], .chr 107]) "C" },
  { name := "A", id := 2, body := .ipush (.alt [.seq [.name "C", .chr 120, .name "D"], .chr 121]) "A" },
  { name := "D", id := 3, body := .ipush (.alt [.seq [.name "A", .chr 122], .seq [.chr 99, .chr 119],
      .seq [.chr 100, .chr 118]]) "D" }] }
example : (defaultOK Rp7, safeOpt Rp7, rewritten Rp7) = (true, some true, some false) := by decide
/-- "ccyxcw": `D` must try `A 'z'` first ('c' is also the first character of `A`) -/
example : (optimise Rp7).toOption.map (fun G' => (accepts G' "ccyxcw", accepts Rp7 "ccyxcw",
    accepts G' "ccyxyz", accepts Rp7 "ccyxyz")) = some (true, true, true, true) := by decide

/-- A rule that is `done` is still answered from the cache, and rewrites behind a recursion still
    happen: `S <- A !.  A <- 'a' A / B   B <- 'b' 'x' / 'c' 'y' / 'd' 'z'`. -/
def Rp8 : Grammar := { rules := [
  { name := "S", id := 0, body := .ipush (.seq [.name "A", .peekNot .dot]) "S" },
  { name := "A", id := 1, body := .ipush (.alt [.seq [.chr 97, .name "A"], .name "B"]) "A" },
  { name := "B", id := 2, body := .ipush (.alt [.seq [.chr 98, .chr 120], .seq [.chr 99, .chr 121],
      .seq [.chr 100, .chr 122]]) "B" }] }
example : (defaultOK Rp8, safeOpt Rp8, rewritten Rp8) = (true, some true, some true) := by decide

-- The bootstrap grammar passes the end-to-end check as well.
#guard safeOpt pegG == some true

end SwitchTests
end PegVerif

#print axioms PegVerif.C02_switch_validated
#print axioms PegVerif.C02_switch_validated_iff
#print axioms PegVerif.C02_switch_optimise

#print axioms PegVerif.C02_switch_parser
#print axioms PegVerif.C02_switch_same_as_default
