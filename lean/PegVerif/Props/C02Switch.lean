import PegVerif.Proofs.SwitchLemmas
import PegVerif.Proofs.SwitchRefine
import PegVerif.Proofs.SwitchSafeDef
import PegVerif.Props.C01
import PegVerif.Model.Optimise
import PegVerif.Model.Link
import PegVerif.Generated.PegGrammar
/-
  C02 (`-switch` part) — translation validation of the first-set rewrite.

  The rewrite `optimizeAlternates` is unsound in general (finding F-C02-1), so there is no theorem
  about `optimise` itself.  What is proved (Proofs/SwitchLemmas.lean): for every pair `G`, `G'` the
  executable check `swOK G G'` accepts, every rule has the same outcome in both grammars.

  Below: the theorems under their C02 names, and TESTS of the checker (each `example` is evaluated
  by the kernel through `decide`; the `#guard`s are evaluated by the interpreter and fail the build
  when false).
-/
namespace PegVerif

/-- If `swOK` accepts, the rewritten grammar has the outcomes of the original: same verdict, same
    end position, same derivation forest. -/
theorem C02_switch_validated {G G' : Grammar} (h : swOK G G' = true) {ρ inp n p res evs}
    (he : Eval G ρ inp (.name n) p res evs) : ∃ evs', Eval G' ρ inp (.name n) p res evs' :=
  Eval_switch h he

/-- … and with a well-formed original the outcomes are exactly the same. -/
theorem C02_switch_validated_iff {G G' : Grammar} (hwf : WFB G = true) (h : swOK G G' = true)
    {ρ inp n p res} :
    (∃ evs, Eval G ρ inp (.name n) p res evs) ↔ (∃ evs', Eval G' ρ inp (.name n) p res evs') :=
  Eval_switch_iff hwf h

/-- For the real optimiser: whenever its output passes the check, it is equivalent. -/
theorem C02_switch_optimise {G G' : Grammar} (_ho : optimise G = .ok G') (h : swOK G G' = true)
    {ρ inp n p res res' evs evs'}
    (he : Eval G ρ inp (.name n) p res evs) (he' : Eval G' ρ inp (.name n) p res' evs') :
    res = res' :=
  Eval_switch_unique h he he'

/-- **C02, `-switch`, end to end.**  For a well-formed grammar `G` and ANY rewritten grammar `G'`
    (in particular `optimise G`) that passes the decidable check `switchSafe`, the parser emitted
    with `-switch` from `G'` — run from any post-`Reset` state on any input — terminates, never
    panics, and returns exactly the verdict, the consumed prefix and the token sequence that the
    PEG semantics of the ORIGINAL grammar `G` prescribes. -/
theorem C02_switch_parser (G G' : Grammar) (o : Opts) (cfg : Cfg) (inp : List Sym)
    (hwf : WFB G = true) (hsafe : switchSafe G G' = true)
    (hinl : o.inline = false) (hast : o.ast = true) (hcfg : cfg.ast = true)
    (hinp : ∀ c ∈ inp, c ≠ END)
    {n cr} (hfind : (compileAll o G').find n = some cr) :
    ∃ res evs, Eval G cfg.rho inp (.name n) 0 res evs ∧
      (∃ out s', Exec (compileAll o G') cfg inp cr 0 St.init Frame.empty (out, s')) ∧
      ∀ s out s', AfterReset s → Exec (compileAll o G') cfg inp cr 0 s Frame.empty (out, s') →
        out ≠ .panic ∧
        match res with
        | .ok p' forest => out = .ret true ∧ s'.pos = p' ∧ s'.tree.take s'.ti = postorderL forest
        | .fail => out = .ret false ∧ s'.pos = 0 := by
  simp only [switchSafe, Bool.and_eq_true] at hsafe
  obtain ⟨⟨⟨hsw, hG⟩, hL⟩, hp⟩ := hsafe
  have hplain : G'.plainS := Grammar.plainS_of_all hp
  have hwf' : WFB G' = true := by
    simp only [swOK, Bool.and_eq_true] at hsw; exact hsw.1
  have hW := switch_world G' o cfg inp hinl hast hcfg hinp hG hL hplain
  obtain ⟨_, b, _, _, hb, _⟩ := hW.rules n cr hfind
  obtain ⟨res, evs', hev'⟩ := Eval_total (ρ := cfg.rho) hwf' inp n b hb 0 (Nat.zero_le _)
  obtain ⟨evs, hev⟩ := (Eval_switch_iff hwf hsw).2 ⟨evs', hev'⟩
  refine ⟨res, evs, hev, switch_run_exists G' o cfg inp hinl hast hcfg hinp hG hL hplain hfind hev', ?_⟩
  intro s out s' hs hrun
  have h := switch_generated_parser_tokens G' o cfg inp hinl hast hcfg hinp hG hL hplain hs hfind hev' hrun
  have hf := C01_refines_anywhere hW hfind hev' hs.1 (Nat.zero_le _) (by rw [hs.2.1]; exact Nat.zero_le _)
    (by rw [hs.2.2.2]; exact memoOK_nil) hrun
  refine ⟨h.1, ?_⟩
  cases res with
  | ok p' forest => exact h.2
  | fail => exact ⟨h.2.1, hf.2.1⟩

/-- **C02, `-switch` against the default parser**: under `switchSafe` (and the default parser's own
    side conditions on `G`), the parser generated WITH `-switch` and the parser generated WITHOUT
    give the same verdict, consume the same prefix and record the same token sequence, on every
    input and from every post-`Reset` state. -/
theorem C02_switch_same_as_default (G G' : Grammar) (o o' : Opts) (cfg : Cfg) (inp : List Sym)
    (hwf : WFB G = true) (hsafe : switchSafe G G' = true)
    (hinl : o.inline = false) (hsw : o.switch = false) (hast : o.ast = true)
    (hinl' : o'.inline = false) (hast' : o'.ast = true) (hcfg : cfg.ast = true)
    (hinp : ∀ c ∈ inp, c ≠ END)
    (hG : GrammarOK G = true) (hL : LinkedOK G = true) (hplain : G.plain)
    {n cr cr'} (hfind : (compileAll o G).find n = some cr) (hfind' : (compileAll o' G').find n = some cr')
    {s t out out' s' t'} (hs : AfterReset s) (ht : AfterReset t)
    (hrun : Exec (compileAll o G) cfg inp cr 0 s Frame.empty (out, s'))
    (hrun' : Exec (compileAll o' G') cfg inp cr' 0 t Frame.empty (out', t')) :
    out = out' ∧ out ≠ .panic ∧ s'.pos = t'.pos ∧
      (out = .ret true → s'.tree.take s'.ti = t'.tree.take t'.ti) := by
  obtain ⟨res, evs, hev, _, hall⟩ :=
    C02_switch_parser G G' o' cfg inp hwf hsafe hinl' hast' hcfg hinp hfind'
  have h' := hall t out' t' ht hrun'
  have hW := compileAll_world (cfg := cfg) (inp := inp) hsw hinl hast hcfg hinp hG hL
    (fun _ h => alwaysSucceeds_sound hplain h)
  have h := C12_reset_like_fresh hW hs hfind hev hrun
  cases res with
  | ok p' forest =>
    obtain ⟨a1, a2, a3⟩ := h
    obtain ⟨_, b1, b2, b3⟩ := h'
    refine ⟨by rw [a1, b1], ?_, by rw [a2, b2], fun _ => by rw [a3, b3]⟩
    rw [a1]; intro e; cases e
  | fail =>
    obtain ⟨a1, _⟩ := h
    obtain ⟨_, b1, b2⟩ := h'
    have hf := C01_refines_anywhere hW hfind hev hs.1 (Nat.zero_le _) (by rw [hs.2.1]; exact Nat.zero_le _)
      (by rw [hs.2.2.2]; exact memoOK_nil) hrun
    refine ⟨by rw [a1, b1], ?_, by rw [hf.2.1, b2], fun h => ?_⟩
    · rw [a1]; intro e; cases e
    · rw [a1] at h; cases h

/-! ## TESTS of the checker -/
namespace SwitchTests

def run (G : Grammar) (s : String) : Option Res :=
  (evalF G (fun _ _ => true) (s.toList.map Char.toNat) 1000 (.name "S") 0).map (·.1)

def accepts (G : Grammar) (s : String) : Bool :=
  match run G s with
  | some (.ok _ _) => true
  | _ => false

/-- `optimise G`, and whether the checker accepts it. -/
def checkOpt (G : Grammar) : Option Bool := (optimise G).toOption.map (swOK G)

/-- TEST (i).  `S <- ('a' 'x' / [b-c] 'y' / 'd' 'z') !.` -/
def G1 : Grammar := { rules := [
  { name := "S", id := 0, body := .ipush (.seq [
      .alt [.seq [.chr 97, .chr 120], .seq [.rng 98 99, .chr 121], .seq [.chr 100, .chr 122]],
      .peekNot .dot]) "S" }] }

/-- … and a hand-written switch form. -/
def G1hand : Grammar := { rules := [
  { name := "S", id := 0, body := .ipush (.seq [
      .ualt [[(97, 97)], [(98, 99)], [(100, 100)]]
        [.seq [.chr 97, .chr 120], .seq [.rng 98 99, .chr 121], .seq [.chr 100, .chr 122]],
      .peekNot .dot]) "S" }] }

example : swOK G1 G1hand = true := by decide
/-- the optimiser's own output (cases in its shuffled order) -/
example : checkOpt G1 = some true := by decide
/-- no rewrite at all is also accepted -/
example : swOK G1 G1 = true := by decide

/-- TEST: wrong hand-written forms of `G1` are rejected — a key that does not contain the first
    set of its case; overlapping keys of an earlier case; a case dropped. -/
def G1bad (ks : List KeySet) (us : List Expr) : Grammar := { rules := [
  { name := "S", id := 0, body := .ipush (.seq [.ualt ks us, .peekNot .dot]) "S" }] }

example : swOK G1 (G1bad [[(97, 97)], [(98, 98)], [(100, 100)]]
    [.seq [.chr 97, .chr 120], .seq [.rng 98 99, .chr 121], .seq [.chr 100, .chr 122]]) = false := by
  decide
example : swOK G1 (G1bad [[(97, 98)], [(98, 99)], [(100, 100)]]
    [.seq [.chr 97, .chr 120], .seq [.rng 98 99, .chr 121], .seq [.chr 100, .chr 122]]) = false := by
  decide
example : swOK G1 (G1bad [[(97, 97)], [(98, 99)]]
    [.seq [.chr 97, .chr 120], .seq [.rng 98 99, .chr 121]]) = false := by
  decide
/-- the default case's keys are not used: anything there is fine … -/
example : swOK G1 (G1bad [[(97, 97)], [(98, 99)], []]
    [.seq [.chr 97, .chr 120], .seq [.rng 98 99, .chr 121], .seq [.chr 100, .chr 122]]) = true := by
  decide
/-- … but the default must not be able to start with a symbol of another case. -/
example : swOK G1 (G1bad [[(97, 97)], [(100, 100)], []]
    [.seq [.chr 97, .chr 120], .seq [.chr 100, .chr 122], .seq [.rng 98 100, .chr 121]]) = false := by
  decide

/-- TEST (ii), a genuinely unsound rewrite (F-C02-1): a nullable alternative.
    `S <- ('a'? 'k'? / 'b' 'x' / 'c' 'y') 'z' !.` — on "bxz" the original takes the first
    alternative (empty) and then fails on 'z'; the switch goes to `'b' 'x'` and accepts. -/
def G3 : Grammar := { rules := [
  { name := "S", id := 0, body := .ipush (.seq [
      .alt [.seq [.query (.chr 97), .query (.chr 107)], .seq [.chr 98, .chr 120],
            .seq [.chr 99, .chr 121]],
      .chr 122, .peekNot .dot]) "S" }] }

/-- the optimiser does rewrite it, into a grammar that accepts a different language … -/
example : (optimise G3).toOption.map (fun G' => (accepts G3 "bxz", accepts G' "bxz")) =
    some (false, true) := by decide
/-- … and the checker REJECTS the pair. -/
example : checkOpt G3 = some false := by decide

/-- TEST (ii'), the shape of finding F-C02-2,
    `S <- (([a-b] 'q' / 'c' 'w') 'z' / [d-h] 'x' / 'i' 'y') !.`
    The checker ACCEPTS the optimiser's output, and rightly so: the rewritten TREE is equivalent
    (`Eval` of the switch node evaluates the selected case in full).  F-C02-2 is a defect of the
    code EMITTED for the switch (a range reached with `parentDetect` under a multi-key case skips its
    test), i.e. of `compile`, not of the rewrite — it is outside what `swOK` speaks about. -/
def G2 : Grammar := { rules := [
  { name := "S", id := 0, body := .ipush (.seq [
      .alt [.seq [.alt [.seq [.rng 97 98, .chr 113], .seq [.chr 99, .chr 119]], .chr 122],
            .seq [.rng 100 104, .chr 120], .seq [.chr 105, .chr 121]],
      .peekNot .dot]) "S" }] }

example : checkOpt G2 = some true := by decide
example : (optimise G2).toOption.map (fun G' => (accepts G2 "cqz", accepts G' "cqz")) =
    some (false, false) := by decide

/-- TEST (iii).  Ordered alternatives followed by a switch:
    `S <- ('a' / 'b' 'y' / 'a' 'z' / 'c' 'w') !.` — `'a'` intersects the later `'a' 'z'` and stays
    in front; it is tried before `'a' 'z'` as in the original. -/
def G4 : Grammar := { rules := [
  { name := "S", id := 0, body := .ipush (.seq [
      .alt [.chr 97, .seq [.chr 98, .chr 121], .seq [.chr 97, .chr 122], .seq [.chr 99, .chr 119]],
      .peekNot .dot]) "S" }] }

example : checkOpt G4 = some true := by decide

/-- the optimiser's form: `'a' / switch { … }` -/
def G4hand (os : List Expr) (ks : List KeySet) (us : List Expr) : Grammar := { rules := [
  { name := "S", id := 0, body := .ipush (.seq [.alt (os ++ [.ualt ks us]), .peekNot .dot]) "S" }] }

example : swOK G4 (G4hand [.chr 97] [[(98, 98)], [(97, 97)], [(99, 99)]]
    [.seq [.chr 98, .chr 121], .seq [.chr 97, .chr 122], .seq [.chr 99, .chr 119]]) = true := by
  decide
/-- TEST: a WRONG form, `'a' 'z'` moved in front of `'a'` (on "az" the original fails at `!.`, this
    one accepts): the order-reversal guard rejects it. -/
example : swOK G4 (G4hand [.seq [.chr 97, .chr 122]] [[(98, 98)], [(97, 97)], [(99, 99)]]
    [.seq [.chr 98, .chr 121], .chr 97, .seq [.chr 99, .chr 119]]) = false := by
  decide
example : (accepts G4 "az", accepts (G4hand [.seq [.chr 97, .chr 122]] [[(98, 98)], [(97, 97)], [(99, 99)]]
    [.seq [.chr 98, .chr 121], .chr 97, .seq [.chr 99, .chr 119]]) "az") = (false, true) := by
  decide

/-- TEST (iii).  Rule references, a nested rewritten choice, lookahead-first alternatives:
    `S <- (A 'x' / B S / !'q' [m-p] / &{ok} 'r') !.   A <- 'a' / 'e' / [f-g]   B <- 'b'` -/
def G5 : Grammar := { rules := [
  { name := "S", id := 0, body := .ipush (.seq [
      .alt [.seq [.name "A", .chr 120], .seq [.name "B", .query (.name "S")],
            .seq [.peekNot (.chr 113), .rng 109 112], .seq [.pred "ok", .chr 114]],
      .peekNot .dot]) "S" },
  { name := "A", id := 1, body := .ipush (.alt [.chr 97, .chr 101, .rng 102 103]) "A" },
  { name := "B", id := 2, body := .ipush (.chr 98) "B" }] }

example : checkOpt G5 = some true := by decide

/-- TEST (iii).  The grammar of peg itself (`peg.peg`, 47 rules; 100 after `link`): the optimiser
    rewrites choices in 7 rules (ImportName, Prefix, Suffix, Primary, IdentStart, Escape, Space)
    and the checker accepts the result — so `-switch` is validated for the bootstrap grammar. -/
def pegG : Grammar := (linkGrammar pegFrontRules).G

mutual
  def hasSwitch : Expr → Bool
    | .ualt _ _ => true
    | .inl _ e | .peekFor e | .peekNot e | .query e | .star e | .plus e | .push e _ | .ipush e _ =>
      hasSwitch e
    | .seq es | .alt es => hasSwitchL es
    | _ => false
  def hasSwitchL : List Expr → Bool
    | [] => false
    | e :: es => hasSwitch e || hasSwitchL es
end

#guard WFB pegG
#guard checkOpt pegG == some true
#guard (optimise pegG).toOption.map (fun G' => (G'.rules.filter (fun r => hasSwitch r.body)).length)
  == some 7

end SwitchTests
end PegVerif

#print axioms PegVerif.C02_switch_validated
#print axioms PegVerif.C02_switch_validated_iff
#print axioms PegVerif.C02_switch_optimise

#print axioms PegVerif.C02_switch_parser
#print axioms PegVerif.C02_switch_same_as_default
