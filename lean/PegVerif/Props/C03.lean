import PegVerif.Props.C01
import PegVerif.Proofs.ForestLemmas
/-
  C03 — the token stream is the post-order record of the successful derivation only.

  The derivation forest `f` of `Eval … (.ok p' f) evs` contains, by construction of the semantics,
  only the rule applications / captures / actions of the successful derivation: nothing from a
  failed alternative, an abandoned iteration or a lookahead (those appear only in `evs`).  The
  theorems below say that the parser publishes exactly `postorderL f`.
-/
namespace PegVerif

variable {P : Program} {cfg : Cfg} {env : CEnv} {G : Grammar} {inp : List Sym}

/-- **C03**: after a successful parse from a fresh parser, `Tokens()` (the live prefix
    `tree[:tokenIndex]`) is exactly the post-order of the derivation forest, for every run. -/
theorem C03_tokens (hW : World P cfg env G inp) {n cr p' forest evs o s'}
    (hfind : P.find n = some cr) (hev : Eval G cfg.rho inp (.name n) 0 (.ok p' forest) evs)
    (hrun : Exec P cfg inp cr 0 St.init Frame.empty (o, s')) :
    s'.tree.take s'.ti = postorderL forest ∧ s'.ti = (postorderL forest).length := by
  have h := R_rule_all hW hfind hev rfl (Nat.zero_le _) (by simp [St.init]) memoOK_init hrun
  obtain ⟨_, _, h2, h3, _⟩ := h
  simp [St.init] at h2 h3
  exact ⟨h3, h2⟩

/-- Tokens written by attempts that were backtracked over never leak: a rule that fails leaves
    the live prefix of its caller untouched, whatever it wrote beyond it. -/
theorem C03_failed_rule_leaves_no_token (hW : World P cfg env G inp) {n cr p evs s o s'}
    (hfind : P.find n = some cr) (hev : Eval G cfg.rho inp (.name n) p .fail evs)
    (hpos : s.pos = p) (hple : p ≤ inp.length) (hlen : s.ti ≤ s.tree.length)
    (hm : MemoOK P G cfg.rho inp s.memo s.maxTok.e)
    (hrun : Exec P cfg inp cr 0 s Frame.empty (o, s')) :
    s'.ti = s.ti ∧ s'.tree.take s.ti = s.tree.take s.ti := by
  have h := R_rule_all hW hfind hev hpos hple hlen hm hrun
  exact ⟨h.2.2.1, h.2.2.2.1⟩

/-- The last token is the entry rule spanning exactly the consumed prefix. -/
theorem C03_last_token {ρ n e p p' forest evs} (hb : G.body n = some (.ipush e n))
    (h : Eval G ρ inp (.name n) p (.ok p' forest) evs) :
    (postorderL forest).getLast? = some ⟨n, p, p'⟩ :=
  postorder_last_is_rule hb h

/-- Every recorded token spans what its sub-derivation consumed: the forest is well nested
    inside `[p, p']` (offsets are rune indices because `inp` is the rune list). -/
theorem C03_spans {ρ e p p' forest evs} (h : Eval G ρ inp e p (.ok p' forest) evs) :
    WellNestedL p p' forest :=
  Eval_wellNested h _ _ rfl

/-- Non-vacuity: backtracking over a token (`A` inside a failed first alternative). -/
def exG3 : Grammar := { rules := [
  { name := "S", id := 0, body := .ipush (.alt [.seq [.name "A", .chr 98], .seq [.name "A", .chr 99]]) "S" },
  { name := "A", id := 1, body := .ipush (.chr 97) "A" }] }

example : Eval exG3 (fun _ _ => true) [97, 99] (.name "S") 0
    (.ok 2 [.node ⟨"S", 0, 2⟩ [.node ⟨"A", 0, 1⟩ []]]) [⟨"A", 0, 1⟩, ⟨"A", 0, 1⟩, ⟨"S", 0, 2⟩] :=
  evalF_sound 20 _ _ _ _ (by rfl)

end PegVerif

#print axioms PegVerif.C03_tokens
#print axioms PegVerif.C03_failed_rule_leaves_no_token
#print axioms PegVerif.C03_last_token
#print axioms PegVerif.C03_spans
