import PegVerif.Props.C04Exec
import PegVerif.Props.C01
/- C04 — derivation-level statements (on top of the token-list theorems of C04Exec). -/
namespace PegVerif
end PegVerif
