import PegVerif.Props.C04Exec
import PegVerif.Props.C03
/-
  C04 — derivation-level statement: composing C03 (tokens = post-order of the forest) with the
  token-list theorem `C04_execute` gives: `Execute()` after a successful parse is the left-to-right
  action trace of the successful derivation with the last completed capture.
-/
namespace PegVerif

variable {P : Program} {cfg : Cfg} {env : CEnv} {G : Grammar} {inp : List Sym}

/-- **C04**: for every run of a successful parse, `Execute()` on the published tokens is the
    derivation-order action trace of the forest (actions inside backtracked branches or lookahead are
    not in the forest, hence never run). -/
theorem C04_execute_of_parse (hW : World P cfg env G inp) {acts : List String} {n cr p' forest evs o s'}
    (hfind : P.find n = some cr) (hev : Eval G cfg.rho inp (.name n) 0 (.ok p' forest) evs)
    (hrun : Exec P cfg inp cr 0 St.init Frame.empty (o, s')) :
    execute acts (bufOf inp) (s'.tree.take s'.ti) =
      some (actionTrace acts (bufOf inp) forest ExecState.init).1 := by
  rw [(C03_tokens hW hfind hev hrun).1]
  apply C04_execute
  intro t ht _
  have hwn := Eval_wellNested hev _ _ rfl
  have hb := Eval_bound hev (Nat.zero_le _) _ _ rfl
  have := WellNestedL.within forest 0 p' hwn t ht
  refine ⟨this.2.1, ?_⟩
  simp [bufOf]; omega

end PegVerif

#print axioms PegVerif.C04_execute_of_parse
