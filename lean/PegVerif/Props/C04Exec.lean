import PegVerif.Proofs.AstLemmas
/-
  C04 — `Execute()` runs exactly the actions of the successful derivation, once each, in
  left-to-right derivation order, each seeing the most recently completed capture.

  Model: `Model/Ast.lean` (`executeFrom`, `execute`, transcribed from `tree/peg.go.tmpl:255-270`);
  specification: `Model/AstSpec.lean` (`actionTrace` on the derivation forest, `lastCapture` on
  lists).  The token list of a successful parse is `postorderL f` for its derivation forest `f`
  (proved elsewhere), so only tokens of the successful derivation are ever seen by `Execute`.
  Side condition everywhere: every capture token can be sliced out of the buffer
  (`CapturesInRange`, i.e. `begin ≤ end ≤ len`) — true for every recorded capture.
-/
namespace PegVerif

/-! ## Forest formulation -/

/-- The `Execute` loop on the tokens of ANY forest, from any state, is the left-to-right walk of
    the forest (children, then the node) carrying the most recently completed capture. -/
theorem C04_execute_from (acts : List String) (inp : List Sym) (f : List TokTree) (s : ExecState)
    (h : CapturesInRange inp (postorderL f)) :
    executeFrom acts inp s (postorderL f) = some (actionTrace acts inp f s) :=
  executeFrom_forest acts inp f s h

theorem C04_execute (acts : List String) (inp : List Sym) (f : List TokTree)
    (h : CapturesInRange inp (postorderL f)) :
    execute acts inp (postorderL f) = some (actionTrace acts inp f ExecState.init).1 := by
  simp [execute, C04_execute_from acts inp f _ h]

/-- For a parse: one well-nested root that ends inside the input — no side condition left. -/
theorem C04_execute_root (acts : List String) (inp : List Sym) {root : TokTree}
    (h : WellNested root) (hlen : root.tok.e ≤ inp.length) :
    execute acts inp root.postorder = some (actionTraceT acts inp root ExecState.init).1 := by
  have hc : CapturesInRange inp (postorderL [root]) := by
    intro t ht _
    exact h.inRange hlen t (by simpa using ht)
  simpa using C04_execute acts inp [root] hc

/-! ## List formulation (independent of trees): event `k` belongs to the `k`-th action token and
    carries the span and text of the last `PegText` token before it -/

/-- `Execute` does not panic and produces the list-level trace. -/
theorem C04_execute_list (acts : List String) (inp : List Sym) (toks : List Token)
    (h : CapturesInRange inp toks) :
    execute acts inp toks = some (traceAfter acts inp [] toks) := by
  have := executeFrom_traceAfter acts inp toks [] h
  rw [lastCapture_nil] at this
  simp [execute, this]

/-- Exactly the action tokens, once each, in recording order. -/
theorem C04_once_each_in_order (acts : List String) (inp : List Sym) (toks : List Token)
    (h : CapturesInRange inp toks) :
    ∃ evs, execute acts inp toks = some evs ∧
      evs.map (·.action) = (toks.filter (isAction acts)).map (·.rule) ∧
      evs.length = (toks.filter (isAction acts)).length :=
  ⟨_, C04_execute_list acts inp toks h, traceAfter_actions acts inp toks [],
    traceAfter_length acts inp toks []⟩

/-- The event of an action token `t` standing after the tokens `pre`: it is event number
    `#action tokens in pre`, and its `begin`, `end`, `text` are those of the LAST `PegText` token of
    `pre` (`inp[b:e]` as runes), or `0, 0, ""` if `pre` has none. -/
theorem C04_event_kth (acts : List String) (inp : List Sym) (pre post : List Token) (t : Token)
    (h : CapturesInRange inp (pre ++ t :: post)) (ha : isAction acts t = true) :
    ∃ evs, execute acts inp (pre ++ t :: post) = some evs ∧
      evs[(pre.filter (isAction acts)).length]? =
        some (ActEvent.mk' t.rule (lastCapture inp pre)) := by
  refine ⟨_, C04_execute_list acts inp _ h, ?_⟩
  rw [traceAfter_append, List.getElem?_append_right (by rw [traceAfter_length]; exact Nat.le_refl _),
    traceAfter_length]
  simp [traceAfter, ha]

/-- A non-action, non-capture token changes nothing; a capture token produces no event. -/
theorem C04_only_actions (acts : List String) (inp : List Sym) (toks : List Token)
    (h : CapturesInRange inp toks) (hn : ∀ t ∈ toks, isAction acts t = false) :
    execute acts inp toks = some [] := by
  obtain ⟨evs, he, _, hl⟩ := C04_once_each_in_order acts inp toks h
  have : toks.filter (isAction acts) = [] := by
    apply List.filter_eq_nil_iff.mpr
    intro t ht; simp [hn t ht]
  rw [this] at hl
  rw [he]; simpa using hl

/-! ## The words of the property, on the forest -/

/-- Every action node of the derivation forest yields exactly one event, and the events come in
    the left-to-right (post-)order of the forest. -/
theorem C04_forest_once_each_in_order (acts : List String) (inp : List Sym) (f : List TokTree)
    (h : CapturesInRange inp (postorderL f)) :
    ((actionTrace acts inp f ExecState.init).1).map (·.action)
      = ((postorderL f).filter (isAction acts)).map (·.rule) := by
  obtain ⟨evs, he, hm, _⟩ := C04_once_each_in_order acts inp (postorderL f) h
  rw [C04_execute acts inp f h] at he
  rw [Option.some.inj he]; exact hm

/-- Forest walk and list walk agree: the capture an action sees in the derivation walk is the
    last `PegText` token recorded before it. -/
theorem C04_actionTrace_eq_list (acts : List String) (inp : List Sym) (f : List TokTree)
    (h : CapturesInRange inp (postorderL f)) :
    (actionTrace acts inp f ExecState.init).1 = traceAfter acts inp [] (postorderL f) := by
  have h1 := C04_execute acts inp f h
  rw [C04_execute_list acts inp _ h] at h1
  exact (Option.some.inj h1).symm

/-! ## Non-vacuity: depth 5, equal-span parent/child (`A`/`B`), a zero-width token between
    siblings (`Opt`), nested captures, two actions run twice each; input `"abc"`. -/

namespace C04Example

def inp : List Sym := [97, 98, 99]
def acts : List String := ["Action0", "Action1"]

def root : TokTree :=
  .node ⟨"S", 0, 3⟩ [
    .node ⟨"Action0", 0, 0⟩ [],                      -- before any capture
    .node ⟨"A", 0, 2⟩ [
      .node ⟨"B", 0, 2⟩ [
        .node ⟨"PegText", 0, 2⟩ [                    -- < 'a' <'b'> {Action1} >
          .node ⟨"C", 0, 1⟩ [],
          .node ⟨"PegText", 1, 2⟩ [],
          .node ⟨"Action1", 2, 2⟩ []],               -- outer capture not yet completed
        .node ⟨"Action0", 2, 2⟩ []]],                -- outer capture completed
    .node ⟨"Opt", 2, 2⟩ [],
    .node ⟨"E", 2, 3⟩ [],
    .node ⟨"Action1", 3, 3⟩ []]

example : WellNested root := by decide
example : CapturesInRange inp root.postorder := by decide
example : execute acts inp root.postorder = some
    [⟨"Action0", 0, 0, []⟩, ⟨"Action1", 1, 2, [98]⟩, ⟨"Action0", 0, 2, [97, 98]⟩,
     ⟨"Action1", 0, 2, [97, 98]⟩] := by decide
example : (actionTrace acts inp [root] ExecState.init).1 =
    [⟨"Action0", 0, 0, []⟩, ⟨"Action1", 1, 2, [98]⟩, ⟨"Action0", 0, 2, [97, 98]⟩,
     ⟨"Action1", 0, 2, [97, 98]⟩] := by decide
-- a capture that cannot be sliced is reported as a panic, not truncated
example : execute acts inp [⟨"PegText", 2, 5⟩, ⟨"Action0", 5, 5⟩] = none := by decide

#eval execute acts inp root.postorder

end C04Example

end PegVerif

#print axioms PegVerif.C04_execute_from
#print axioms PegVerif.C04_execute
#print axioms PegVerif.C04_execute_root
#print axioms PegVerif.C04_execute_list
#print axioms PegVerif.C04_once_each_in_order
#print axioms PegVerif.C04_event_kth
#print axioms PegVerif.C04_only_actions
#print axioms PegVerif.C04_forest_once_each_in_order
#print axioms PegVerif.C04_actionTrace_eq_list
