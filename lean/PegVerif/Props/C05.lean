import PegVerif.Props.C05Ast
import PegVerif.Props.C03
/-
  C05 — derivation-level statement: `AST()` of the published tokens is the derivation tree of the
  entry rule without its empty nodes; the printers list it in pre-order with the exact substrings.
-/
namespace PegVerif

variable {P : Program} {cfg : Cfg} {env : CEnv} {G : Grammar} {inp : List Sym}

/-- **C05** (tree): for every run of a successful parse of rule `n` that consumed a non-empty
    prefix, `AST()` is the node of `n` over the pruned forest of its body. -/
theorem C05_ast_of_parse (hW : World P cfg env G inp) {n e cr p' forest evs o s'}
    (hfind : P.find n = some cr) (hb : G.body n = some (.ipush e n))
    (hev : Eval G cfg.rho inp (.name n) 0 (.ok p' forest) evs) (hne : p' ≠ 0)
    (hrun : Exec P cfg inp cr 0 St.init Frame.empty (o, s')) :
    ∃ f, forest = [.node ⟨n, 0, p'⟩ f] ∧
      astOf (s'.tree.take s'.ti) = some (.node ⟨n, 0, p'⟩ (prune f)) := by
  obtain ⟨f, hf⟩ := Eval_rule_forest hb hev
  refine ⟨f, hf, ?_⟩
  rw [(C03_tokens hW hfind hev hrun).1, hf]
  have hwn := Eval_wellNested hev _ _ rfl
  rw [hf] at hwn
  simp only [WellNestedL, TokTree.tok] at hwn
  have := C05_ast_root (root := .node ⟨n, 0, p'⟩ f) hwn.2.1 (by simpa [TokTree.tok] using Ne.symm hne)
  simpa [postorderL, TokTree.tok, TokTree.kids] using this

/-- **C05** (empty parse): if nothing was consumed every token is empty and `AST()` is nil; the
    printers print nothing (no nil dereference). -/
theorem C05_ast_of_empty_parse (hW : World P cfg env G inp) {n cr forest evs o s'}
    (hfind : P.find n = some cr)
    (hev : Eval G cfg.rho inp (.name n) 0 (.ok 0 forest) evs)
    (hrun : Exec P cfg inp cr 0 St.init Frame.empty (o, s')) :
    astOf (s'.tree.take s'.ti) = none ∧
    ∀ quote pretty, sprintSyntaxTree quote pretty inp (s'.tree.take s'.ti) = some "" := by
  rw [(C03_tokens hW hfind hev hrun).1]
  have hwn := Eval_wellNested hev _ _ rfl
  have hall : ∀ t ∈ postorderL forest, t.b = t.e := by
    intro t ht
    have := WellNestedL.within forest 0 0 hwn t ht
    omega
  exact ⟨C05_ast_none hall, fun q pr => C05_print_empty_parse q pr inp hall⟩

/-- **C05** (printing): `SprintSyntaxTree` never panics after a successful parse and prints the
    pre-order listing of the pruned tree, each line with the exact input substring. -/
theorem C05_print_of_parse (hW : World P cfg env G inp) {n e cr p' forest evs o s'}
    (hfind : P.find n = some cr) (hb : G.body n = some (.ipush e n))
    (hev : Eval G cfg.rho inp (.name n) 0 (.ok p' forest) evs) (hne : p' ≠ 0)
    (hrun : Exec P cfg inp cr 0 St.init Frame.empty (o, s')) (quote : List Sym → String) (pretty : Bool) :
    ∃ f, forest = [.node ⟨n, 0, p'⟩ f] ∧
      sprintSyntaxTree quote pretty inp (s'.tree.take s'.ti) =
        some (String.join ((preorder 0 (pruneT (.node ⟨n, 0, p'⟩ f))).map (lineOf quote pretty inp))) := by
  obtain ⟨f, hf⟩ := Eval_rule_forest hb hev
  refine ⟨f, hf, ?_⟩
  rw [(C03_tokens hW hfind hev hrun).1, hf]
  have hwn := Eval_wellNested hev _ _ rfl
  have hbd := Eval_bound hev (Nat.zero_le _) _ _ rfl
  rw [hf] at hwn
  simp only [WellNestedL, TokTree.tok] at hwn
  have := C05_print (root := .node ⟨n, 0, p'⟩ f) quote pretty inp hwn.2.1
    (by simpa [TokTree.tok] using Ne.symm hne) (by simpa [TokTree.tok] using hbd.2)
  simpa [postorderL] using this

end PegVerif

#print axioms PegVerif.C05_ast_of_parse
#print axioms PegVerif.C05_ast_of_empty_parse
#print axioms PegVerif.C05_print_of_parse
