import PegVerif.Props.C05Ast
import PegVerif.Props.C01
/- C05 — derivation-level statements (on top of the token-list theorems of C05Ast). -/
namespace PegVerif
end PegVerif
