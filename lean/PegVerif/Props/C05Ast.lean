import PegVerif.Proofs.AstLemmas
/-
  C05 — `AST()` and the tree printers reproduce the derivation tree.

  Model: `Model/Ast.lean` (`astStack`, `astOf`, `printFunc`, `printTree`, `sprintSyntaxTree`,
  transcribed from `tree/peg.go.tmpl:50-130`); specification: `Model/AstSpec.lean` (`WellNested`,
  `prune`, `preorder`, `lineOf`).  The token list of a successful parse is `postorderL f` for the
  derivation forest `f` (proved elsewhere); all theorems below hold for every forest, without any
  bound on size or depth.
-/
namespace PegVerif

/-! ## The tree -/

/-- `AST()`'s loop on the tokens of a well-nested forest, started on any stack whose top is a
    non-empty node ending at or before the forest begins: the pruned forest is pushed (the last
    tree on top), the old stack is untouched.  In particular a parent pops exactly its non-empty
    children — also when parent and child span the same text (`>=` / `<=`) — and never an earlier
    sibling, and zero-width tokens between siblings disturb nothing. -/
theorem C05_ast_from {f st : List TokTree} {lo hi : Nat}
    (h : WellNestedL lo hi f) (hst : StackBelow lo st) :
    astStackFrom st (postorderL f) = (prune f).reverse ++ st :=
  astStackFrom_forest f st lo hi h hst

/-- The stack at the end of `AST()` is the pruned derivation forest (top = last tree). -/
theorem C05_ast {f : List TokTree} {lo hi : Nat} (h : WellNestedL lo hi f) :
    astStack (postorderL f) = (prune f).reverse := by
  simpa [astStack] using C05_ast_from h (StackBelow.nil lo)

/-- `AST()` returns the last non-empty top-level tree, pruned. -/
theorem C05_ast_last {f : List TokTree} {lo hi : Nat} (h : WellNestedL lo hi f) :
    astOf (postorderL f) = (prune f).getLast? := by
  simp [astOf, C05_ast h]

/-- A parse has one root (the token of the start rule): if it is non-empty, `AST()` returns it with
    exactly its non-empty descendants, each node's children being the non-empty tokens nested
    directly inside it, in input order. -/
theorem C05_ast_root {root : TokTree} (h : WellNested root) (hne : root.tok.b ≠ root.tok.e) :
    astOf root.postorder = some (.node root.tok (prune root.kids)) := by
  cases root with
  | node t kids =>
    simp only [tok_node] at hne
    have hf : WellNestedL t.b t.e [.node t kids] := by
      simp only [WellNestedL_cons, tok_node, WellNestedL_nil]
      exact ⟨Nat.le_refl _, h, Nat.le_refl _⟩
    have := C05_ast_last hf
    simpa [hne] using this

/-- If every token is empty, `AST()` returns nil (for ANY token list). -/
theorem C05_ast_none {toks : List Token} (h : ∀ t ∈ toks, t.b = t.e) : astOf toks = none := by
  have : ∀ (toks : List Token) (st : List TokTree), (∀ t ∈ toks, t.b = t.e) →
      astStackFrom st toks = st := by
    intro toks
    induction toks with
    | nil => intro st _; rfl
    | cons t ts ih =>
      intro st h
      rw [astStackFrom_cons]
      have : astStep st t = st := by simp [astStep, h t (by simp)]
      rw [this]
      exact ih st (fun x hx => h x (by simp [hx]))
  simp [astOf, astStack, this toks [] h]

/-- An empty root gives nil: everything below it is empty too. -/
theorem C05_ast_root_empty {root : TokTree} (h : WellNested root)
    (he : root.tok.b = root.tok.e) : astOf root.postorder = none := by
  cases root with
  | node t kids =>
    simp only [tok_node] at he
    apply C05_ast_none
    intro x hx
    simp only [TokTree.postorder_node, List.mem_append, List.mem_singleton] at hx
    rcases hx with hx | rfl
    · have := below_empty_all_empty h he x hx; omega
    · exact he

/-- "Contains exactly the non-empty tokens" — for ANY token list (no nesting assumption): the
    nodes of the final stack, bottom to top in post-order, are the non-empty tokens in recording
    order, each exactly once. -/
theorem C05_ast_tokens (toks : List Token) :
    postorderL (astStack toks).reverse = toks.filter (fun t => t.b != t.e) := by
  simpa [astStack] using astStackFrom_postorder toks []

/-- The pruned forest has exactly the non-empty tokens of the forest, in the same order
    (so dropping an empty node "with everything below it" drops nothing non-empty). -/
theorem C05_prune_tokens {f : List TokTree} {lo hi : Nat} (h : WellNestedL lo hi f) :
    postorderL (prune f) = (postorderL f).filter (fun t => t.b != t.e) := by
  have := C05_ast_tokens (postorderL f)
  rwa [C05_ast h, List.reverse_reverse] at this

/-! ## The printers -/

/-- `print` writes the pre-order listing of the tree it is given: per node `depth` spaces, the rule
    name, a space, `quote (inp[b:e])`, newline; children one level deeper, in order. -/
theorem C05_print_tree (quote : List Sym → String) (pretty : Bool) (inp : List Sym)
    (n : Option TokTree) (h : ∀ k ∈ n, ∀ x ∈ k.postorder, InRange inp x) :
    printTree quote pretty inp n
      = some (String.join ((preorder 0 n.toList).map (lineOf quote pretty inp))) := by
  have : ∀ x ∈ postorderL n.toList, InRange inp x := by
    cases n with
    | none => intro x hx; simp at hx
    | some k => intro x hx; exact h k rfl x (by simpa using hx)
  simp [printTree, printLines, printFunc_eq quote pretty inp n.toList 0 this]

/-- `SprintSyntaxTree` & co. on the tokens of a parse with non-empty root: the pre-order listing of
    the pruned derivation tree, every node with its rule name and the exact input substring. -/
theorem C05_print (quote : List Sym → String) (pretty : Bool) (inp : List Sym)
    {root : TokTree} (h : WellNested root) (hne : root.tok.b ≠ root.tok.e)
    (hlen : root.tok.e ≤ inp.length) :
    sprintSyntaxTree quote pretty inp root.postorder
      = some (String.join ((preorder 0 (pruneT root)).map (lineOf quote pretty inp))) := by
  have hr := h.inRange hlen
  have hp : pruneT root = [.node root.tok (prune root.kids)] := by
    cases root with
    | node t kids => simp only [tok_node] at hne; simp [hne]
  rw [sprintSyntaxTree, C05_ast_root h hne, hp]
  apply C05_print_tree
  intro k hk x hx
  have hk : k = .node root.tok (prune root.kids) := by simpa using hk.symm
  subst hk
  have hf : WellNestedL root.tok.b root.tok.e [root] := by
    simp only [WellNestedL_cons, WellNestedL_nil]
    exact ⟨Nat.le_refl _, h, Nat.le_refl _⟩
  have hx' : x ∈ postorderL (prune [root]) := by simpa [hp] using hx
  rw [C05_prune_tokens hf] at hx'
  exact hr x (by simpa using (List.mem_filter.mp hx').1)

/-- The same for an arbitrary forest (what `AST()` returns is its last non-empty tree). -/
theorem C05_print_forest (quote : List Sym → String) (pretty : Bool) (inp : List Sym)
    {f : List TokTree} {lo hi : Nat} (h : WellNestedL lo hi f)
    (hr : ∀ x ∈ postorderL f, InRange inp x) :
    sprintSyntaxTree quote pretty inp (postorderL f)
      = some (String.join
          ((preorder 0 (prune f).getLast?.toList).map (lineOf quote pretty inp))) := by
  rw [sprintSyntaxTree, C05_ast_last h]
  apply C05_print_tree
  intro k hk x hx
  have hk' : k ∈ prune f := List.mem_of_getLast? hk
  have hx' : x ∈ postorderL (prune f) := mem_postorderL hk' hx
  rw [C05_prune_tokens h] at hx'
  exact hr x (List.mem_filter.mp hx').1

/-- No nil dereference: printing the nil tree (empty parse) writes nothing. -/
theorem C05_print_nil (quote : List Sym → String) (pretty : Bool) (inp : List Sym) :
    printTree quote pretty inp none = some "" := by
  simp [printTree, printLines]

theorem C05_print_empty_parse (quote : List Sym → String) (pretty : Bool) (inp : List Sym)
    {toks : List Token} (h : ∀ t ∈ toks, t.b = t.e) :
    sprintSyntaxTree quote pretty inp toks = some "" := by
  rw [sprintSyntaxTree, C05_ast_none h, C05_print_nil]

/-- No panic, for ANY token list whose tokens can be sliced out of the input
    (`begin ≤ end ≤ len([]rune(buffer))`). -/
theorem C05_print_no_panic (quote : List Sym → String) (pretty : Bool) (inp : List Sym)
    {toks : List Token} (h : ∀ t ∈ toks, InRange inp t) :
    (sprintSyntaxTree quote pretty inp toks).isSome = true := by
  rw [sprintSyntaxTree, C05_print_tree]
  · rfl
  · intro k hk x hx
    have hk' : k ∈ (astStack toks).reverse := by
      have : k ∈ astStack toks := List.mem_of_mem_head? hk
      simpa using this
    have hx' := mem_postorderL hk' hx
    rw [C05_ast_tokens] at hx'
    exact h x (List.mem_filter.mp hx').1

/-! ## Non-vacuity: a forest of depth 5 with an equal-span parent/child pair (`A`/`B`), a
    zero-width token between siblings (`Opt`, with a zero-width action below it), two captures and
    three action tokens; input `"abc"`. -/

namespace C05Example

def inp : List Sym := [97, 98, 99]

def root : TokTree :=
  .node ⟨"S", 0, 3⟩ [
    .node ⟨"A", 0, 2⟩ [
      .node ⟨"B", 0, 2⟩ [
        .node ⟨"PegText", 0, 1⟩ [.node ⟨"C", 0, 1⟩ []],
        .node ⟨"Action0", 1, 1⟩ [],
        .node ⟨"D", 1, 2⟩ []]],
    .node ⟨"Opt", 2, 2⟩ [.node ⟨"Action1", 2, 2⟩ []],
    .node ⟨"E", 2, 3⟩ [.node ⟨"PegText", 2, 3⟩ []],
    .node ⟨"Action0", 3, 3⟩ []]

/-- What C05 promises for `root`. -/
def expected : TokTree :=
  .node ⟨"S", 0, 3⟩ [
    .node ⟨"A", 0, 2⟩ [
      .node ⟨"B", 0, 2⟩ [
        .node ⟨"PegText", 0, 1⟩ [.node ⟨"C", 0, 1⟩ []],
        .node ⟨"D", 1, 2⟩ []]],
    .node ⟨"E", 2, 3⟩ [.node ⟨"PegText", 2, 3⟩ []]]

/-- A stand-in for `strconv.Quote` (a parameter of the model). -/
def quote (s : List Sym) : String := "\"" ++ String.ofList (s.map Char.ofNat) ++ "\""

example : WellNested root := by decide
example : root.tok.b ≠ root.tok.e := by decide
example : ∀ x ∈ root.postorder, InRange inp x := by decide
example : root.postorder =
    [⟨"C", 0, 1⟩, ⟨"PegText", 0, 1⟩, ⟨"Action0", 1, 1⟩, ⟨"D", 1, 2⟩, ⟨"B", 0, 2⟩, ⟨"A", 0, 2⟩,
     ⟨"Action1", 2, 2⟩, ⟨"Opt", 2, 2⟩, ⟨"PegText", 2, 3⟩, ⟨"E", 2, 3⟩, ⟨"Action0", 3, 3⟩,
     ⟨"S", 0, 3⟩] := by decide
example : pruneT root = [expected] := by decide
example : sprintSyntaxTree quote false inp root.postorder
    = some "S \"abc\"\n A \"ab\"\n  B \"ab\"\n   PegText \"a\"\n    C \"a\"\n   D \"b\"\n E \"c\"\n  PegText \"c\"\n" := by
  decide
-- a token that cannot be sliced is reported, not truncated
example : sprintSyntaxTree quote false inp [⟨"S", 0, 4⟩] = none := by decide
-- the pop condition with `>` / `<` instead of `>=` / `<=` would leave `B` beside `A`:
-- the theorem is about the real condition
example : astStack [⟨"B", 0, 2⟩, ⟨"A", 0, 2⟩] = [.node ⟨"A", 0, 2⟩ [.node ⟨"B", 0, 2⟩ []]] := by
  decide

#eval astOf root.postorder
#eval sprintSyntaxTree quote false inp root.postorder

end C05Example

end PegVerif

#print axioms PegVerif.C05_ast_from
#print axioms PegVerif.C05_ast
#print axioms PegVerif.C05_ast_last
#print axioms PegVerif.C05_ast_root
#print axioms PegVerif.C05_ast_none
#print axioms PegVerif.C05_ast_root_empty
#print axioms PegVerif.C05_ast_tokens
#print axioms PegVerif.C05_prune_tokens
#print axioms PegVerif.C05_print_tree
#print axioms PegVerif.C05_print
#print axioms PegVerif.C05_print_forest
#print axioms PegVerif.C05_print_nil
#print axioms PegVerif.C05_print_empty_parse
#print axioms PegVerif.C05_print_no_panic
