import PegVerif.Props.C12
/-
  C06 — packrat memoisation is invisible except in speed.

  R is proved with the memo table present (invariant `MemoOK`: every entry agrees with the PEG
  semantics of its rule at its position, and every token attempted while it was computed ends at or
  before the current `maxToken.end`).  A memo hit therefore returns exactly what re-running the rule
  would: same verdict, same position, same live tokens, and — by the absorption lemma
  `foldl_updTok_absorb` — the same `maxToken`.
-/
namespace PegVerif

variable {P : Program} {cfg : Cfg} {env : CEnv} {G : Grammar} {inp : List Sym}

/-- `World` does not mention the memoisation switch. -/
theorem World.withMemo (hW : World P cfg env G inp) (b : Bool) :
    World P { cfg with memo := b } env G inp :=
  ⟨hW.ast, hW.envAst, hW.inpOK, hW.always, hW.rules, hW.idInj⟩

/-- **C06**: the same emitted parser run with memoisation and with `DisableMemoize` returns the
    same verdict, the same end position, on success the same token list and on failure the same
    error token — for every input on which the semantics is defined, from a fresh or reset parser. -/
theorem C06_memo_invisible (hW : World P cfg env G inp) {n cr res evs s1 s2 o1 o2 t1 t2}
    (h1 : AfterReset s1) (h2 : AfterReset s2) (hfind : P.find n = some cr)
    (hev : Eval G cfg.rho inp (.name n) 0 res evs)
    (r1 : Exec P { cfg with memo := true } inp cr 0 s1 Frame.empty (o1, t1))
    (r2 : Exec P { cfg with memo := false } inp cr 0 s2 Frame.empty (o2, t2)) :
    o1 = o2 ∧ t1.pos = t2.pos ∧ (o1 = .ret true → t1.tree.take t1.ti = t2.tree.take t2.ti) ∧
    t1.maxTok = t2.maxTok := by
  have a := R_rule_all (hW.withMemo true) hfind hev h1.1 (Nat.zero_le _)
    (by rw [h1.2.1]; exact Nat.zero_le _) (by rw [h1.2.2.2]; exact memoOK_nil) r1
  have b := R_rule_all (hW.withMemo false) hfind hev h2.1 (Nat.zero_le _)
    (by rw [h2.2.1]; exact Nat.zero_le _) (by rw [h2.2.2.2]; exact memoOK_nil) r2
  cases res with
  | ok p' forest =>
    obtain ⟨a1, a2, _, a4, _, a6, _⟩ := a
    obtain ⟨b1, b2, _, b4, _, b6, _⟩ := b
    refine ⟨by rw [a1, b1], by rw [a2, b2], ?_, by rw [a6, b6, h1.2.2.1, h2.2.2.1]⟩
    intro _
    rw [a4, b4, h1.2.1, h2.2.1]; simp
  | fail =>
    obtain ⟨a1, a2, _, _, _, a6, _⟩ := a
    obtain ⟨b1, b2, _, _, _, b6, _⟩ := b
    refine ⟨by rw [a1, b1], by rw [a2, b2], ?_, by rw [a6, b6, h1.2.2.1, h2.2.2.1]⟩
    intro h; rw [a1] at h; cases h

/-- **C06** (replay): from ANY state whose memo table satisfies the invariant — whether or not it
    already holds an entry for this rule and position — every run of the rule function restores
    position, `tokenIndex`, live tokens and `maxToken` exactly as the semantics (i.e. a re-run)
    prescribes, and the table still satisfies the invariant afterwards. -/
theorem C06_replay_exact (hW : World P cfg env G inp) {n cr p res evs s o s'}
    (hfind : P.find n = some cr) (hev : Eval G cfg.rho inp (.name n) p res evs)
    (hpos : s.pos = p) (hple : p ≤ inp.length) (hlen : s.ti ≤ s.tree.length)
    (hm : MemoOK P G cfg.rho inp s.memo s.maxTok.e)
    (hrun : Exec P cfg inp cr 0 s Frame.empty (o, s')) : RuleSpec P G cfg.rho inp s p res evs o s' :=
  R_rule_all hW hfind hev hpos hple hlen hm hrun

/-- A memoised success never has an empty token list (`m.Partial[len-1]` cannot panic): by the
    invariant its tokens are the post-order of the forest of a rule application, whose last
    element is the rule's own token. -/
theorem C06_partial_nonempty {ρ mtE} {m : MemoEntry} {n : String}
    (h : EntryOK P G ρ inp mtE m) (hn : (P.find n).isSome = true) (hid : G.idOf n = m.id)
    (hm : m.matched = true) : m.part ≠ [] := by
  obtain ⟨res, evs, _, _, _, hmatch⟩ := h n hn hid
  cases res with
  | ok p' forest =>
    obtain ⟨_, _, last, hl, _⟩ := hmatch
    intro e; rw [e] at hl; simp at hl
  | fail => rw [hmatch] at hm; cases hm

end PegVerif

#print axioms PegVerif.C06_memo_invisible
#print axioms PegVerif.C06_replay_exact
#print axioms PegVerif.C06_partial_nonempty
