import PegVerif.Props.C01
/-
  C06 — property theorems.  The refinement theorem R and its corollaries are added here as they are
  proved; until then this property rests on C01's semantic facts plus the ties named in MANIFEST.json.
-/
namespace PegVerif

theorem C06_semantics_deterministic {G ρ inp e p r1 ev1 r2 ev2}
    (h1 : Eval G ρ inp e p r1 ev1) (h2 : Eval G ρ inp e p r2 ev2) : r1 = r2 ∧ ev1 = ev2 :=
  Eval_det h1 h2

end PegVerif

#print axioms PegVerif.C06_semantics_deterministic
