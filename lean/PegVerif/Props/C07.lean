import PegVerif.Props.C01
import PegVerif.Proofs.RefineNoast
import PegVerif.Proofs.LinkNoast
/-
  C07 — parsers generated with `-noast` accept the same language as the default ones and run the
  actions inline.

  RN (`Proofs/RefineNoast*.lean`) is the refinement theorem for the `-noast` emission: for every
  derivation of the PEG semantics the emitted code does the same, and the machine's trace / `text`
  are the fold `reachTrace` over the *events* of the derivation — every completed token-producing
  node in completion order, including those inside alternatives that are backtracked over later
  and inside lookahead: a completed capture sets `text`, a completed action rule runs its code with
  the current `text`.

  State-change statements `!{…}` also append to the machine's trace but are not events of the
  semantics.  The general statements compare the part of the trace selected by `K.keep` (action
  codes kept, statement codes not: `Expr.okN`); for grammars without `!{…}` nodes (`Kall`, where
  `okN` forbids them) the whole trace is compared.
-/
namespace PegVerif
open Noast

theorem C07_semantics_deterministic {G ρ inp e p r1 ev1 r2 ev2}
    (h1 : Eval G ρ inp e p r1 ev1) (h2 : Eval G ρ inp e p r2 ev2) : r1 = r2 ∧ ev1 = ev2 :=
  Eval_det h1 h2

section
variable {K : NKit} {P PN : Program} {cfg cfgN : Cfg} {env envN : CEnv} {G : Grammar} {inp : List Sym}

/-! ### The properties -/

/-- **C07** (totality): from every state positioned inside the input on which the semantics is
    defined, the emitted `-noast` function of rule `n` has a run. -/
theorem C07_runs (hW : WorldN K PN cfgN envN G inp) {n cr p res evs s}
    (hfind : PN.find n = some cr) (hev : Eval G cfgN.rho inp (.name n) p res evs)
    (hpos : s.pos = p) (hple : p ≤ inp.length) :
    ∃ o s', Exec PN cfgN inp cr 0 s Frame.empty (o, s') :=
  let ⟨o, s', h, _⟩ := RN_rule hW hfind hev hpos hple
  ⟨o, s', h⟩

/-- **C07** (verdict): every run of the emitted `-noast` function of rule `n` returns true exactly
    when the PEG semantics succeeds, false exactly when it fails, never panics, and ends at the
    position the semantics prescribes (the entry position on failure). -/
theorem C07_verdict (hW : WorldN K PN cfgN envN G inp) {n cr p res evs s o s'}
    (hfind : PN.find n = some cr) (hev : Eval G cfgN.rho inp (.name n) p res evs)
    (hpos : s.pos = p) (hple : p ≤ inp.length)
    (hrun : Exec PN cfgN inp cr 0 s Frame.empty (o, s')) :
    o ≠ .panic ∧ (o = .ret true ↔ ∃ p' f, res = .ok p' f) ∧ (o = .ret false ↔ res = .fail) ∧
    (∀ p' f, res = .ok p' f → s'.pos = p') ∧ (res = .fail → s'.pos = p) := by
  have h := RN_rule_all hW hfind hev hpos hple hrun
  cases res with
  | ok p' f =>
    obtain ⟨h1, h2, _⟩ := h
    subst h1
    refine ⟨by simp, by simp, by simp, ?_, by simp⟩
    intro p'' f' e; cases e; exact h2
  | fail =>
    obtain ⟨h1, h2, _⟩ := h
    subst h1
    exact ⟨by simp, by simp, by simp, by simp, fun _ => h2⟩

/-- **C07** (inline actions, general form): after every run — successful or not — the compared
    part of the trace is the initial one followed by exactly the actions `reachTrace` prescribes
    for the events of the derivation, each with the text of the capture most recently completed
    when it was reached, whether or not the branch it sits in was backtracked over later; `text`
    is what `reachTrace` leaves; the token buffer and the memo table are untouched, and
    `maxToken` is folded over the events that are not captures. -/
theorem C07_inline_actions_filtered (hW : WorldN K PN cfgN envN G inp) {n cr p res evs s o s'}
    (hfind : PN.find n = some cr) (hev : Eval G cfgN.rho inp (.name n) p res evs)
    (hpos : s.pos = p) (hple : p ≤ inp.length)
    (hrun : Exec PN cfgN inp cr 0 s Frame.empty (o, s')) :
    s'.trace.filter (fun x => K.keep x.1) =
      s.trace.filter (fun x => K.keep x.1) ++ (reachTrace K.codeOf inp evs s.text).1 ∧
    s'.text = (reachTrace K.codeOf inp evs s.text).2 ∧
    s'.tree = s.tree ∧ s'.memo = s.memo ∧ s'.maxTok = (noCap evs).foldl updTok s.maxTok := by
  have h := RN_rule_all hW hfind hev hpos hple hrun
  have hE : StEffN K inp s s' evs := by
    cases res with
    | ok p' f => exact h.2.2
    | fail => exact h.2.2
  have hobs := hE.obs
  rw [obsN, obsN, foldl_inlineStep] at hobs
  have h1 := congrArg Prod.fst hobs
  have h2 := congrArg Prod.snd hobs
  exact ⟨h1, h2, hE.tree, hE.memo, hE.maxTok⟩

/-- **C07** (inline actions) for grammars without state-change statements `!{…}` (`Kall`: the
    fragment predicate `okN (Kall G)` forbids them): the whole trace. -/
theorem C07_inline_actions (hW : WorldN (Kall G) PN cfgN envN G inp) {n cr p res evs s o s'}
    (hfind : PN.find n = some cr) (hev : Eval G cfgN.rho inp (.name n) p res evs)
    (hpos : s.pos = p) (hple : p ≤ inp.length)
    (hrun : Exec PN cfgN inp cr 0 s Frame.empty (o, s')) :
    s'.trace = s.trace ++ (reachTrace (actionCodeOf G) inp evs s.text).1 ∧
    s'.text = (reachTrace (actionCodeOf G) inp evs s.text).2 := by
  have h := C07_inline_actions_filtered hW hfind hev hpos hple hrun
  have hf : ∀ l : List (String × List Sym), l.filter (fun x => (Kall G).keep x.1) = l := by
    intro l; induction l <;> simp_all [Kall]
  rw [hf, hf] at h
  exact ⟨h.1, h.2.1⟩

/-- **C07** (same language): a default (AST) parser and a `-noast` parser generated for the same
    grammar, run on the same entry rule, input and start position, give the same verdict and end
    at the same position — both are those of the PEG semantics. -/
theorem C07_same_language_as_default (hWA : World P cfg env G inp) (hWN : WorldN K PN cfgN envN G inp)
    (hrho : cfg.rho = cfgN.rho) {n crA crN p res evs sA sN oA oN sA' sN'}
    (hfindA : P.find n = some crA) (hfindN : PN.find n = some crN)
    (hev : Eval G cfg.rho inp (.name n) p res evs)
    (hposA : sA.pos = p) (hposN : sN.pos = p) (hple : p ≤ inp.length)
    (hlen : sA.ti ≤ sA.tree.length) (hm : MemoOK P G cfg.rho inp sA.memo sA.maxTok.e)
    (hrunA : Exec P cfg inp crA 0 sA Frame.empty (oA, sA'))
    (hrunN : Exec PN cfgN inp crN 0 sN Frame.empty (oN, sN')) :
    oA = oN ∧ sA'.pos = sN'.pos := by
  have a := R_rule_all hWA hfindA hev hposA hple hlen hm hrunA
  have b := RN_rule_all hWN hfindN (hrho ▸ hev) hposN hple hrunN
  cases res with
  | ok p' f =>
    obtain ⟨a1, a2, _⟩ := a
    obtain ⟨b1, b2, _⟩ := b
    exact ⟨by rw [a1, b1], by rw [a2, b2]⟩
  | fail =>
    obtain ⟨a1, a2, _⟩ := a
    obtain ⟨b1, b2, _⟩ := b
    exact ⟨by rw [a1, b1], by rw [a2, b2]⟩

/-- **C07 for the generator itself** (`-noast`, without `-inline`/`-switch`): `WorldN` is discharged
    for the program the MODEL GENERATOR emits (`compileAll_worldN`, `alwaysSucceeds_sound`) for every
    grammar that passes the decidable checks `GrammarOK`, `GrammarOKN` and is `plain`; the T-emit
    tie says the real generator emits this very program.  Every run from a fresh parser gives the
    verdict and end position of the semantics and the trace/`text` of `reachTrace`. -/
theorem C07_generated_parser (G : Grammar) (o : Opts) (cfg : Cfg) (inp : List Sym)
    (hinl : o.inline = false) (hsw : o.switch = false) (hast : o.ast = false) (hcfg : cfg.ast = false)
    (hinp : ∀ c ∈ inp, c ≠ END) (hG : GrammarOK G = true) (hN : GrammarOKN (Kall G) G = true)
    (hplain : G.plain)
    {n cr res evs out s'} (hfind : (compileAll o G).find n = some cr)
    (hev : Eval G cfg.rho inp (.name n) 0 res evs)
    (hrun : Exec (compileAll o G) cfg inp cr 0 St.init Frame.empty (out, s')) :
    (out = .ret true ↔ ∃ p' f, res = .ok p' f) ∧ (∀ p' f, res = .ok p' f → s'.pos = p') ∧
    (out = .ret false ↔ res = .fail) ∧ out ≠ .panic ∧
    s'.trace = (reachTrace (actionCodeOf G) inp evs []).1 ∧
    s'.text = (reachTrace (actionCodeOf G) inp evs []).2 := by
  have hW := compileAll_worldN (K := Kall G) hsw hinl hast hcfg hinp hG hN
    (fun _ h => alwaysSucceeds_sound hplain h)
  have hv := C07_verdict hW hfind hev rfl (Nat.zero_le _) hrun
  have ht := C07_inline_actions hW hfind hev rfl (Nat.zero_le _) hrun
  simp only [St.init, List.nil_append] at ht
  exact ⟨hv.2.1, hv.2.2.2.1, hv.2.2.1, hv.1, ht.1, ht.2⟩

end

/-! ### Non-vacuity

    `S <- <'a'> {A0} 'b' / 'a' 'c'` on "ac": the first alternative completes the capture and reaches
    the action, then fails at 'b' and is backtracked over — the action still shows in the spec,
    with the text "a"; and the `-noast` program the model generator emits for this grammar, run by
    the executable machine, leaves exactly that trace. -/

namespace C07Example

def G : Grammar := ⟨[
  ⟨"S", 0, .ipush (.alt [.seq [.push (.chr 97) "PegText", .name "Action0", .chr 98],
                          .seq [.chr 97, .chr 99]]) "S"⟩,
  ⟨"Action0", 1, .ipush (.act "A0") "Action0"⟩]⟩

def inp : List Sym := [97, 99]

def evs : List Token := [⟨"PegText", 0, 1⟩, ⟨"Action0", 1, 1⟩, ⟨"S", 0, 2⟩]

def ρ : String → Nat → Bool := fun _ _ => true

/-- The semantics: success at 2, with the capture and the action of the FAILED first alternative
    among the events. -/
example : (evalF G ρ inp 20 (.name "S") 0).map (fun x => (match x.1 with | .ok p _ => some p | .fail => none, x.2))
    = some (some 2, evs) := by decide

example : ∃ f, Eval G ρ inp (.name "S") 0 (.ok 2 f) evs := ⟨_, evalF_sound 20 _ _ _ _ (by rfl)⟩

example : actionCodeOf G "Action0" = some "A0" := by decide

/-- The spec: the action of the failed first alternative ran, with the text of the capture. -/
example : reachTrace (actionCodeOf G) inp evs [] = ([("A0", [97])], [97]) := by decide

/-- The hypotheses of `C07_generated_parser` are satisfiable. -/
example : GrammarOK G = true ∧ GrammarOKN (Kall G) G = true ∧ G.plain ∧
    ((compileAll { ast := false } G).find "S").isSome = true :=
  ⟨by decide, by decide, Grammar.plain_of_all (by decide), by decide⟩

/-- The emitted `-noast` program on the executable machine: returns true at position 2 with the
    trace and `text` of the spec (and an untouched token buffer). -/
example : (((compileAll { ast := false } G).find "S").bind
      (fun c => execF (compileAll { ast := false } G) ⟨false, true, ρ⟩ inp 100 c 0 St.init Frame.empty)).map
      (fun r => (r.1, r.2.pos, r.2.trace, r.2.text, r.2.tree)) =
    some (.ret true, 2, [("A0", [97])], [97], []) := by rfl

end C07Example

end PegVerif

#print axioms PegVerif.C07_semantics_deterministic
#print axioms PegVerif.C07_runs
#print axioms PegVerif.C07_verdict
#print axioms PegVerif.C07_inline_actions_filtered
#print axioms PegVerif.C07_inline_actions
#print axioms PegVerif.C07_same_language_as_default
#print axioms PegVerif.RN_all
#print axioms PegVerif.RN_rule_all
#print axioms PegVerif.C07_generated_parser
#print axioms PegVerif.compileAll_worldN
