import PegVerif.Props.C07Switch
import PegVerif.Proofs.LinkNoastInline
/-
  C07 for the option sets `-inline -noast` (`in`) and `-inline -noast -switch` (`isn`).

  In Go: link → (`-switch`: rewrite of the grammar, `optimise`, giving `G'`) → emission with
  `-inline` (a reference to a rule with exactly one reference compiles the rule's body in place and
  hands its `parentDetect` flags to it) and `-noast` (captures set `text`, action rules are the
  action's code, no token buffer, no memo).  In the model: `compileAll o G'` with `o.inline = true`,
  `o.ast = false` (`o.switch` is not read by the emission).

  Chain.  `WorldNS` for `compileAll o G'` holds with respect to the EXPANDED grammar `expandG o G'`
  (`compileAll_worldNS_inline'`, from the decidable `inlineNoastSafe`); RNS (`RNS_rule_all`) relates
  every run to the derivation in `expandG o G'`; and

      Eval (expandG o G') ρ inp e p res evs  ↔  Eval G' ρ inp e p res evs        (`Eval_expandG_iff`)

  with THE SAME attempted-token list `evs`: `-inline` changes neither the result, nor the forest, nor
  the events (an `inl n b` node has the events of `b`, which are those of `name n`).  Hence:

  * `in` (`G' = G`): verdict, end position, and the trace / `text` as `reachTrace` over the
    attempted-token list of the derivation IN THE ORIGINAL GRAMMAR `G` — literally the statements of
    `Props/C07.lean`; in particular the `-inline -noast` parser runs exactly the actions the plain
    `-noast` parser runs (`C07_inline_same_trace_as_noast`).
  * `isn`: verdict and end position of the SOURCE grammar `G` (`Eval_switch_iff`, from `swOK`), and
    the trace / `text` as `reachTrace` over the attempted-token list of the derivation in the
    REWRITTEN grammar `G'` (not expanded) — the statements of `Props/C07Switch.lean`; see the
    OBSERVATION there for why it cannot be the list of `G`.

  The theorems over `WorldNS` (`C07_switch_runs`, `C07_switch_verdict_world`,
  `C07_switch_inline_actions_filtered`) are reused from `Props/C07Switch.lean`.
-/
namespace PegVerif
open Noast

theorem filter_keep_Kall (G : Grammar) (l : List (String × List Sym)) :
    l.filter (fun x => (Kall G).keep x.1) = l := by
  induction l <;> simp_all [Kall]

/-! ### `-inline -noast` (option set `in`): against the original grammar -/

/-- **C07, `-inline -noast`, totality**: from every state positioned inside the input on which the
    semantics of `G` is defined, the emitted function of rule `n` has a run. -/
theorem C07_inline_runs (K : NKit) (G : Grammar) (o : Opts) (cfg : Cfg) (inp : List Sym)
    (hsafe : inlineNoastSafeK K G = true)
    (hinl : o.inline = true) (hast : o.ast = false) (hcfg : cfg.ast = false)
    (hinp : ∀ c ∈ inp, c ≠ END)
    {n cr p res evs s} (hfind : (compileAll o G).find n = some cr)
    (hev : Eval G cfg.rho inp (.name n) p res evs)
    (hpos : s.pos = p) (hple : p ≤ inp.length) :
    ∃ out s', Exec (compileAll o G) cfg inp cr 0 s Frame.empty (out, s') :=
  C07_switch_runs (inline_noast_world K G o cfg inp hsafe hinl hast hcfg hinp) hfind
    (Eval_expandG hev) hpos hple

/-- **C07, `-inline -noast`, verdict** (the statement of `C07_verdict`): every run of the function
    emitted with `-inline -noast` for rule `n` of `G` returns true exactly when the PEG semantics of
    the ORIGINAL grammar `G` succeeds, false exactly when it fails, never panics, and ends at the
    position the semantics prescribes (the entry position on failure). -/
theorem C07_inline_verdict (G : Grammar) (o : Opts) (cfg : Cfg) (inp : List Sym)
    (hsafe : inlineNoastSafe G = true)
    (hinl : o.inline = true) (hast : o.ast = false) (hcfg : cfg.ast = false)
    (hinp : ∀ c ∈ inp, c ≠ END)
    {n cr p res evs s out s'} (hfind : (compileAll o G).find n = some cr)
    (hev : Eval G cfg.rho inp (.name n) p res evs)
    (hpos : s.pos = p) (hple : p ≤ inp.length)
    (hrun : Exec (compileAll o G) cfg inp cr 0 s Frame.empty (out, s')) :
    out ≠ .panic ∧ (out = .ret true ↔ ∃ p' f, res = .ok p' f) ∧ (out = .ret false ↔ res = .fail) ∧
    (∀ p' f, res = .ok p' f → s'.pos = p') ∧ (res = .fail → s'.pos = p) :=
  C07_switch_verdict_world (inline_noast_world (Kall G) G o cfg inp hsafe hinl hast hcfg hinp) hfind
    (Eval_expandG hev) hpos hple hrun

/-- **C07, `-inline -noast`, inline actions, general form** (the statement of
    `C07_inline_actions_filtered`): `evs` is the attempted-token list of the derivation in the
    ORIGINAL grammar `G`. -/
theorem C07_inline_inline_actions_filtered (K : NKit) (G : Grammar) (o : Opts) (cfg : Cfg)
    (inp : List Sym) (hsafe : inlineNoastSafeK K G = true)
    (hinl : o.inline = true) (hast : o.ast = false) (hcfg : cfg.ast = false)
    (hinp : ∀ c ∈ inp, c ≠ END)
    {n cr p res evs s out s'} (hfind : (compileAll o G).find n = some cr)
    (hev : Eval G cfg.rho inp (.name n) p res evs)
    (hpos : s.pos = p) (hple : p ≤ inp.length)
    (hrun : Exec (compileAll o G) cfg inp cr 0 s Frame.empty (out, s')) :
    s'.trace.filter (fun x => K.keep x.1) =
      s.trace.filter (fun x => K.keep x.1) ++ (reachTrace K.codeOf inp evs s.text).1 ∧
    s'.text = (reachTrace K.codeOf inp evs s.text).2 ∧
    s'.tree = s.tree ∧ s'.memo = s.memo ∧ s'.maxTok = (noCap evs).foldl updTok s.maxTok :=
  C07_switch_inline_actions_filtered (inline_noast_world K G o cfg inp hsafe hinl hast hcfg hinp) hfind
    (Eval_expandG hev) hpos hple hrun

/-- **C07, `-inline -noast`, inline actions** (the statement of `C07_inline_actions`): after every
    run — successful or not — the trace is the initial one followed by exactly the actions
    `reachTrace` prescribes for the attempted-token list `evs` of the derivation in the ORIGINAL
    grammar `G`, each with the text of the capture most recently completed when it was reached,
    whether or not the branch it sits in was backtracked over later, and whether the action rule or
    the rule containing the capture was compiled in place or called; `text` is what `reachTrace`
    leaves. -/
theorem C07_inline_inline_actions (G : Grammar) (o : Opts) (cfg : Cfg) (inp : List Sym)
    (hsafe : inlineNoastSafe G = true)
    (hinl : o.inline = true) (hast : o.ast = false) (hcfg : cfg.ast = false)
    (hinp : ∀ c ∈ inp, c ≠ END)
    {n cr p res evs s out s'} (hfind : (compileAll o G).find n = some cr)
    (hev : Eval G cfg.rho inp (.name n) p res evs)
    (hpos : s.pos = p) (hple : p ≤ inp.length)
    (hrun : Exec (compileAll o G) cfg inp cr 0 s Frame.empty (out, s')) :
    s'.trace = s.trace ++ (reachTrace (actionCodeOf G) inp evs s.text).1 ∧
    s'.text = (reachTrace (actionCodeOf G) inp evs s.text).2 := by
  have h := C07_inline_inline_actions_filtered (Kall G) G o cfg inp hsafe hinl hast hcfg hinp hfind hev
    hpos hple hrun
  rw [filter_keep_Kall, filter_keep_Kall] at h
  exact ⟨h.1, h.2.1⟩

/-- **C07, `-inline -noast`, same language as the default parser** (the statement of
    `C07_same_language_as_default`): the default (AST) parser and the `-inline -noast` parser
    generated for the same grammar `G`, run on the same entry rule, input and start position, give
    the same verdict and end at the same position — both are those of the PEG semantics of `G`;
    neither panics. -/
theorem C07_inline_same_language_as_default (G : Grammar) (o o' : Opts) (cfg cfgN : Cfg)
    (inp : List Sym) (hsafe : inlineNoastSafe G = true)
    (hinl : o.inline = false) (hsw : o.switch = false) (hast : o.ast = true) (hcfg : cfg.ast = true)
    (hG : GrammarOK G = true) (hL : LinkedOK G = true) (hplain : G.plain)
    (hinl' : o'.inline = true) (hast' : o'.ast = false) (hcfgN : cfgN.ast = false)
    (hrho : cfg.rho = cfgN.rho) (hinp : ∀ c ∈ inp, c ≠ END)
    {n crA crN p res evs sA sN oA oN sA' sN'}
    (hfindA : (compileAll o G).find n = some crA) (hfindN : (compileAll o' G).find n = some crN)
    (hev : Eval G cfg.rho inp (.name n) p res evs)
    (hposA : sA.pos = p) (hposN : sN.pos = p) (hple : p ≤ inp.length)
    (hlen : sA.ti ≤ sA.tree.length) (hm : MemoOK (compileAll o G) G cfg.rho inp sA.memo sA.maxTok.e)
    (hrunA : Exec (compileAll o G) cfg inp crA 0 sA Frame.empty (oA, sA'))
    (hrunN : Exec (compileAll o' G) cfgN inp crN 0 sN Frame.empty (oN, sN')) :
    oA = oN ∧ oN ≠ .panic ∧ sA'.pos = sN'.pos := by
  have hWN := inline_noast_world (Kall G) G o' cfgN inp hsafe hinl' hast' hcfgN hinp
  have hWA := compileAll_world (cfg := cfg) (inp := inp) hsw hinl hast hcfg hinp hG hL
    (fun _ h => alwaysSucceeds_sound hplain h)
  have a := R_rule_all hWA hfindA hev hposA hple hlen hm hrunA
  have b := RNS_rule_all hWN hfindN (Eval_expandG (hrho ▸ hev)) hposN hple hrunN
  cases res with
  | ok p' f =>
    obtain ⟨a1, a2, _⟩ := a
    obtain ⟨b1, b2, _⟩ := b
    exact ⟨by rw [a1, b1], (by intro e; rw [b1] at e; cases e), by rw [a2, b2]⟩
  | fail =>
    obtain ⟨a1, a2, _⟩ := a
    obtain ⟨b1, b2, _⟩ := b
    exact ⟨by rw [a1, b1], (by intro e; rw [b1] at e; cases e), by rw [a2, b2]⟩

/-- **`-inline` does not change which actions run** (`-noast`): the plain `-noast` parser and the
    `-inline -noast` parser generated for the same grammar, started at the same position with the
    same trace and `text`, give the same verdict, end at the same position and leave the same trace
    and the same `text` — `reachTrace` over the one attempted-token list of `G`. -/
theorem C07_inline_same_trace_as_noast (G : Grammar) (o o' : Opts) (cfg : Cfg) (inp : List Sym)
    (hsafe : inlineNoastSafe G = true)
    (hinl : o.inline = false) (hsw : o.switch = false) (hast : o.ast = false)
    (hG : GrammarOK G = true) (hN : GrammarOKN (Kall G) G = true) (hplain : G.plain)
    (hinl' : o'.inline = true) (hast' : o'.ast = false) (hcfg : cfg.ast = false)
    (hinp : ∀ c ∈ inp, c ≠ END)
    {n cr cr' p res evs s t out out' s' t'}
    (hfind : (compileAll o G).find n = some cr) (hfind' : (compileAll o' G).find n = some cr')
    (hev : Eval G cfg.rho inp (.name n) p res evs)
    (hs : s.pos = p) (ht : t.pos = p) (hple : p ≤ inp.length)
    (htrace : s.trace = t.trace) (htext : s.text = t.text)
    (hrun : Exec (compileAll o G) cfg inp cr 0 s Frame.empty (out, s'))
    (hrun' : Exec (compileAll o' G) cfg inp cr' 0 t Frame.empty (out', t')) :
    out = out' ∧ s'.pos = t'.pos ∧ s'.trace = t'.trace ∧ s'.text = t'.text := by
  have hW := compileAll_worldN (K := Kall G) (cfg := cfg) (inp := inp) hsw hinl hast hcfg hinp hG hN
    (fun _ h => alwaysSucceeds_sound hplain h)
  have a := C07_inline_actions hW hfind hev hs hple hrun
  have b := C07_inline_inline_actions G o' cfg inp hsafe hinl' hast' hcfg hinp hfind' hev ht hple hrun'
  have va := RN_rule_all hW hfind hev hs hple hrun
  have vb := RNS_rule_all (inline_noast_world (Kall G) G o' cfg inp hsafe hinl' hast' hcfg hinp) hfind'
    (Eval_expandG hev) ht hple hrun'
  refine ⟨?_, ?_, by rw [a.1, b.1, htrace, htext], by rw [a.2, b.2, htext]⟩
  · cases res with
    | ok p' f => rw [va.1, vb.1]
    | fail => rw [va.1, vb.1]
  · cases res with
    | ok p' f => rw [va.2.1, vb.2.1]
    | fail => rw [va.2.1, vb.2.1]

/-- **C07 for the generator itself, `-inline -noast`** (the statement of `C07_generated_parser`):
    `WorldNS` is discharged for the program the MODEL GENERATOR emits with `-inline -noast`
    (`compileAll_worldNS_inline'`) for every grammar that passes the decidable check
    `inlineNoastSafe`.  Every run from a fresh parser gives the verdict and end position of the
    semantics of `G` and the trace/`text` of `reachTrace` over the attempted-token list of `G`. -/
theorem C07_inline_generated_parser (G : Grammar) (o : Opts) (cfg : Cfg) (inp : List Sym)
    (hinl : o.inline = true) (hast : o.ast = false) (hcfg : cfg.ast = false)
    (hinp : ∀ c ∈ inp, c ≠ END) (hsafe : inlineNoastSafe G = true)
    {n cr res evs out s'} (hfind : (compileAll o G).find n = some cr)
    (hev : Eval G cfg.rho inp (.name n) 0 res evs)
    (hrun : Exec (compileAll o G) cfg inp cr 0 St.init Frame.empty (out, s')) :
    (out = .ret true ↔ ∃ p' f, res = .ok p' f) ∧ (∀ p' f, res = .ok p' f → s'.pos = p') ∧
    (out = .ret false ↔ res = .fail) ∧ out ≠ .panic ∧
    s'.trace = (reachTrace (actionCodeOf G) inp evs []).1 ∧
    s'.text = (reachTrace (actionCodeOf G) inp evs []).2 := by
  have hv := C07_inline_verdict G o cfg inp hsafe hinl hast hcfg hinp hfind hev rfl (Nat.zero_le _) hrun
  have ht := C07_inline_inline_actions G o cfg inp hsafe hinl hast hcfg hinp hfind hev rfl
    (Nat.zero_le _) hrun
  simp only [St.init, List.nil_append] at ht
  exact ⟨hv.2.1, hv.2.2.2.1, hv.2.2.1, hv.1, ht.1, ht.2⟩

/-- … with the derivation supplied by totality (`WFB G`): a run exists and every run is as above. -/
theorem C07_inline_generated_parser_total (G : Grammar) (o : Opts) (cfg : Cfg) (inp : List Sym)
    (hwf : WFB G = true) (hsafe : inlineNoastSafe G = true)
    (hinl : o.inline = true) (hast : o.ast = false) (hcfg : cfg.ast = false)
    (hinp : ∀ c ∈ inp, c ≠ END)
    {n cr} (hfind : (compileAll o G).find n = some cr) :
    ∃ res evs, Eval G cfg.rho inp (.name n) 0 res evs ∧
      (∃ out s', Exec (compileAll o G) cfg inp cr 0 St.init Frame.empty (out, s')) ∧
      ∀ out s', Exec (compileAll o G) cfg inp cr 0 St.init Frame.empty (out, s') →
        (out = .ret true ↔ ∃ p' f, res = .ok p' f) ∧ (∀ p' f, res = .ok p' f → s'.pos = p') ∧
        (out = .ret false ↔ res = .fail) ∧ out ≠ .panic ∧
        s'.trace = (reachTrace (actionCodeOf G) inp evs []).1 ∧
        s'.text = (reachTrace (actionCodeOf G) inp evs []).2 := by
  have hW := inline_noast_world (Kall G) G o cfg inp hsafe hinl hast hcfg hinp
  obtain ⟨_, b, _, _, hb, _⟩ := hW.rules n cr hfind
  obtain ⟨b0, hb0⟩ : ∃ b0, G.body n = some b0 := by
    rw [expandG_body] at hb
    cases hf : G.find n with
    | none => rw [hf] at hb; cases hb
    | some r => exact ⟨r.body, by simp [Grammar.body, hf]⟩
  obtain ⟨res, evs, hev⟩ := Eval_total (ρ := cfg.rho) hwf inp n b0 hb0 0 (Nat.zero_le _)
  refine ⟨res, evs, hev,
    C07_inline_runs (Kall G) G o cfg inp hsafe hinl hast hcfg hinp hfind hev rfl (Nat.zero_le _), ?_⟩
  intro out s' hrun
  exact C07_inline_generated_parser G o cfg inp hinl hast hcfg hinp hsafe hfind hev hrun

/-! ### `-inline -noast -switch` (option set `isn`): against the source grammar -/

/-- `WorldNS` for the program the model generator emits with `-inline -noast` for a rewritten grammar
    that passes the decidable check. -/
theorem inline_noast_switch_world (K : NKit) (G G' : Grammar) (o : Opts) (cfg : Cfg) (inp : List Sym)
    (hsafe : inlineNoastSwitchSafeK K G G' = true)
    (hinl : o.inline = true) (hast : o.ast = false) (hcfg : cfg.ast = false)
    (hinp : ∀ c ∈ inp, c ≠ END) :
    WorldNS K (compileAll o G') cfg (realEnv o G') (expandG o G') inp := by
  simp only [inlineNoastSwitchSafeK, Bool.and_eq_true] at hsafe
  exact inline_noast_world K G' o cfg inp hsafe.2 hinl hast hcfg hinp

/-- The outcome of the source grammar `G` at `p`, together with a derivation of the same outcome in
    the rewritten grammar `G'` — whose attempted-token list `evs'` is also that of the expanded
    grammar `expandG o G'`, i.e. what the `-inline -noast -switch` parser executes. -/
theorem inline_noast_switch_outcome {K : NKit} {G G' : Grammar} {o : Opts} {cfg : Cfg} {inp : List Sym}
    (hwf : WFB G = true) (hsafe : inlineNoastSwitchSafeK K G G' = true)
    (hW : WorldNS K (compileAll o G') cfg (realEnv o G') (expandG o G') inp)
    {n cr} (hfind : (compileAll o G').find n = some cr) {p : Nat} (hple : p ≤ inp.length) :
    ∃ res evs evs', Eval G cfg.rho inp (.name n) p res evs ∧ Eval G' cfg.rho inp (.name n) p res evs' ∧
      Eval (expandG o G') cfg.rho inp (.name n) p res evs' := by
  simp only [inlineNoastSwitchSafeK, Bool.and_eq_true] at hsafe
  obtain ⟨hsw, _⟩ := hsafe
  have hwf' : WFB G' = true := by
    simp only [swOK, Bool.and_eq_true] at hsw; exact hsw.1
  obtain ⟨_, b, _, _, hb, _⟩ := hW.rules n cr hfind
  obtain ⟨b0, hb0⟩ : ∃ b0, G'.body n = some b0 := by
    rw [expandG_body] at hb
    cases hf : G'.find n with
    | none => rw [hf] at hb; cases hb
    | some r => exact ⟨r.body, by simp [Grammar.body, hf]⟩
  obtain ⟨res, evs', hev'⟩ := Eval_total (ρ := cfg.rho) hwf' inp n b0 hb0 p hple
  obtain ⟨evs, hev⟩ := (Eval_switch_iff hwf hsw).2 ⟨evs', hev'⟩
  exact ⟨res, evs, evs', hev, hev', Eval_expandG hev'⟩

/-- **C07, `-inline -noast -switch`, verdict** (shape of `C07_switch_verdict`).  For a well-formed
    grammar `G` and ANY rewritten grammar `G'` (in particular `optimise G`) that passes the decidable
    check `inlineNoastSwitchSafe`, the parser emitted with `-inline -noast` from `G'` — entered at any
    rule `n` that has a function, from any state positioned at any `p` inside the input —
    terminates, never panics, returns true exactly when the PEG semantics of the ORIGINAL grammar
    `G` matches a prefix at `p`, false exactly when it does not, and stops at the end of exactly
    that prefix (at `p` on failure). -/
theorem C07_inline_switch_verdict (G G' : Grammar) (o : Opts) (cfg : Cfg) (inp : List Sym)
    (hwf : WFB G = true) (hsafe : inlineNoastSwitchSafe G G' = true)
    (hinl : o.inline = true) (hast : o.ast = false) (hcfg : cfg.ast = false)
    (hinp : ∀ c ∈ inp, c ≠ END)
    {n cr} (hfind : (compileAll o G').find n = some cr) {p : Nat} (hple : p ≤ inp.length) :
    ∃ res evs, Eval G cfg.rho inp (.name n) p res evs ∧
      (∀ s, s.pos = p → ∃ out s', Exec (compileAll o G') cfg inp cr 0 s Frame.empty (out, s')) ∧
      ∀ s out s', s.pos = p → Exec (compileAll o G') cfg inp cr 0 s Frame.empty (out, s') →
        out ≠ .panic ∧ (out = .ret true ↔ ∃ p' f, res = .ok p' f) ∧ (out = .ret false ↔ res = .fail) ∧
        (∀ p' f, res = .ok p' f → s'.pos = p') ∧ (res = .fail → s'.pos = p) := by
  have hW := inline_noast_switch_world (Kall G') G G' o cfg inp hsafe hinl hast hcfg hinp
  obtain ⟨res, evs, evs', hev, _, hevX⟩ := inline_noast_switch_outcome hwf hsafe hW hfind hple
  refine ⟨res, evs, hev, ?_, ?_⟩
  · intro s hs; exact C07_switch_runs hW hfind hevX hs hple
  · intro s out s' hs hrun; exact C07_switch_verdict_world hW hfind hevX hs hple hrun

/-- **C07, `-inline -noast -switch`, inline actions** (shape of `C07_switch_inline_actions`): after
    every run — successful or not — the trace is the initial one followed by exactly the actions
    `reachTrace` prescribes for the attempted-token list `evs'` of the derivation in the REWRITTEN
    grammar `G'` (as rewritten by `-switch`, NOT expanded: `-inline` does not change the events);
    `text` is what `reachTrace` leaves; token buffer and memo table are untouched and `maxToken` is
    folded over the events that are not captures. -/
theorem C07_inline_switch_inline_actions (G G' : Grammar) (o : Opts) (cfg : Cfg) (inp : List Sym)
    (hsafe : inlineNoastSwitchSafe G G' = true)
    (hinl : o.inline = true) (hast : o.ast = false) (hcfg : cfg.ast = false)
    (hinp : ∀ c ∈ inp, c ≠ END)
    {n cr p res evs' s out s'} (hfind : (compileAll o G').find n = some cr)
    (hev' : Eval G' cfg.rho inp (.name n) p res evs')
    (hpos : s.pos = p) (hple : p ≤ inp.length)
    (hrun : Exec (compileAll o G') cfg inp cr 0 s Frame.empty (out, s')) :
    s'.trace = s.trace ++ (reachTrace (actionCodeOf G') inp evs' s.text).1 ∧
    s'.text = (reachTrace (actionCodeOf G') inp evs' s.text).2 ∧
    s'.tree = s.tree ∧ s'.memo = s.memo ∧ s'.maxTok = (noCap evs').foldl updTok s.maxTok := by
  have hW := inline_noast_switch_world (Kall G') G G' o cfg inp hsafe hinl hast hcfg hinp
  have h := C07_switch_inline_actions_filtered hW hfind (Eval_expandG hev') hpos hple hrun
  rw [filter_keep_Kall, filter_keep_Kall] at h
  exact h

/-- **C07, `-inline -noast -switch`, same language as the default parser** (shape of
    `C07_switch_same_language_as_default`). -/
theorem C07_inline_switch_same_language_as_default (G G' : Grammar) (o o' : Opts) (cfg cfgN : Cfg)
    (inp : List Sym) (hwf : WFB G = true) (hsafe : inlineNoastSwitchSafe G G' = true)
    (hinl : o.inline = false) (hsw : o.switch = false) (hast : o.ast = true) (hcfg : cfg.ast = true)
    (hG : GrammarOK G = true) (hL : LinkedOK G = true) (hplain : G.plain)
    (hinl' : o'.inline = true) (hast' : o'.ast = false) (hcfgN : cfgN.ast = false)
    (hrho : cfg.rho = cfgN.rho) (hinp : ∀ c ∈ inp, c ≠ END)
    {n crA crN} (hfindA : (compileAll o G).find n = some crA)
    (hfindN : (compileAll o' G').find n = some crN)
    {p sA sN oA oN sA' sN'} (hposA : sA.pos = p) (hposN : sN.pos = p) (hple : p ≤ inp.length)
    (hlen : sA.ti ≤ sA.tree.length) (hm : MemoOK (compileAll o G) G cfg.rho inp sA.memo sA.maxTok.e)
    (hrunA : Exec (compileAll o G) cfg inp crA 0 sA Frame.empty (oA, sA'))
    (hrunN : Exec (compileAll o' G') cfgN inp crN 0 sN Frame.empty (oN, sN')) :
    oA = oN ∧ oN ≠ .panic ∧ sA'.pos = sN'.pos := by
  have hWN := inline_noast_switch_world (Kall G') G G' o' cfgN inp hsafe hinl' hast' hcfgN hinp
  obtain ⟨res, evs, evs', hev, _, hevX⟩ := inline_noast_switch_outcome hwf hsafe hWN hfindN hple
  have hWA := compileAll_world (cfg := cfg) (inp := inp) hsw hinl hast hcfg hinp hG hL
    (fun _ h => alwaysSucceeds_sound hplain h)
  have a := R_rule_all hWA hfindA (hrho ▸ hev) hposA hple hlen hm hrunA
  have b := RNS_rule_all hWN hfindN hevX hposN hple hrunN
  cases res with
  | ok p' f =>
    obtain ⟨a1, a2, _⟩ := a
    obtain ⟨b1, b2, _⟩ := b
    exact ⟨by rw [a1, b1], (by intro e; rw [b1] at e; cases e), by rw [a2, b2]⟩
  | fail =>
    obtain ⟨a1, a2, _⟩ := a
    obtain ⟨b1, b2, _⟩ := b
    exact ⟨by rw [a1, b1], (by intro e; rw [b1] at e; cases e), by rw [a2, b2]⟩

/-- **C07 for the generator itself, `-inline -noast -switch`** (shape of
    `C07_switch_generated_parser`): from a fresh parser, a run of the function emitted for rule `n`
    from `G'` exists, and every run gives the verdict and end position of the semantics of the
    SOURCE grammar `G`, never panics, and leaves the trace and `text` of `reachTrace` over the
    attempted-token list of the derivation in the rewritten grammar `G'`. -/
theorem C07_inline_switch_generated_parser (G G' : Grammar) (o : Opts) (cfg : Cfg) (inp : List Sym)
    (hwf : WFB G = true) (hsafe : inlineNoastSwitchSafe G G' = true)
    (hinl : o.inline = true) (hast : o.ast = false) (hcfg : cfg.ast = false)
    (hinp : ∀ c ∈ inp, c ≠ END)
    {n cr} (hfind : (compileAll o G').find n = some cr) :
    ∃ res evs evs', Eval G cfg.rho inp (.name n) 0 res evs ∧ Eval G' cfg.rho inp (.name n) 0 res evs' ∧
      (∃ out s', Exec (compileAll o G') cfg inp cr 0 St.init Frame.empty (out, s')) ∧
      ∀ out s', Exec (compileAll o G') cfg inp cr 0 St.init Frame.empty (out, s') →
        (out = .ret true ↔ ∃ p' f, res = .ok p' f) ∧ (∀ p' f, res = .ok p' f → s'.pos = p') ∧
        (out = .ret false ↔ res = .fail) ∧ out ≠ .panic ∧
        s'.trace = (reachTrace (actionCodeOf G') inp evs' []).1 ∧
        s'.text = (reachTrace (actionCodeOf G') inp evs' []).2 := by
  have hW := inline_noast_switch_world (Kall G') G G' o cfg inp hsafe hinl hast hcfg hinp
  obtain ⟨res, evs, evs', hev, hev', hevX⟩ := inline_noast_switch_outcome hwf hsafe hW hfind (Nat.zero_le _)
  refine ⟨res, evs, evs', hev, hev', C07_switch_runs hW hfind hevX rfl (Nat.zero_le _), ?_⟩
  intro out s' hrun
  have hv := C07_switch_verdict_world hW hfind hevX rfl (Nat.zero_le _) hrun
  have ht := C07_inline_switch_inline_actions G G' o cfg inp hsafe hinl hast hcfg hinp hfind hev' rfl
    (Nat.zero_le _) hrun
  simp only [St.init, List.nil_append] at ht
  exact ⟨hv.2.1, hv.2.2.2.1, hv.2.2.1, hv.1, ht.1, ht.2.1⟩

/-- `in` is the special case `G' = G` of `isn` whenever the identity rewrite is validated. -/
theorem inlineNoastSwitchSafe_self {G : Grammar} (hsw : swOK G G = true)
    (h : inlineNoastSafe G = true) : inlineNoastSwitchSafe G G = true := by
  simp only [inlineNoastSwitchSafe, inlineNoastSwitchSafeK, Bool.and_eq_true]
  exact ⟨hsw, h⟩

/-! ### Non-vacuity and TESTS, option set `in` (`-inline -noast`)

  Grammar (after `link`):

      S       <- (A Action0 'b' / 'a' B / B) !.
      A       <- <'a'>
      B       <- 'c'
      Action0 <- { A0 }

  `A` and `Action0` have exactly one reference: `-inline` compiles the capture and the action's
  code in place, inside the first alternative of `S`; `B` has two references and keeps its function;
  `S` is emitted with label 0 and keeps its function.  On "ac" the first alternative completes the
  capture and reaches the action (both compiled in place), then fails at 'b' and is backtracked
  over: the action still ran, with the text "a". -/
namespace C07InlineExample

def G : Grammar := ⟨[
  ⟨"S", 0, .ipush (.seq [
      .alt [.seq [.name "A", .name "Action0", .chr 98], .seq [.chr 97, .name "B"], .name "B"],
      .peekNot .dot]) "S"⟩,
  ⟨"A", 1, .ipush (.push (.chr 97) "PegText") "A"⟩,
  ⟨"B", 2, .ipush (.chr 99) "B"⟩,
  ⟨"Action0", 3, .ipush (.act "A0") "Action0"⟩]⟩

def ρ : String → Nat → Bool := fun _ _ => true
def inOpts : Opts := { inline := true, switch := false, ast := false }
def cfgN : Cfg := ⟨false, true, ρ⟩

/-- The hypotheses of `C07_inline_verdict` / `C07_inline_generated_parser(_total)` are satisfiable
    (and `S` gets a function). -/
example : WFB G = true ∧ inlineNoastSafe G = true ∧ ((compileAll inOpts G).find "S").isSome = true :=
  ⟨by decide, by decide, by decide⟩

/-- … so are those of `C07_inline_same_language_as_default` and `C07_inline_same_trace_as_noast`
    about the default / plain `-noast` parser. -/
example : GrammarOK G = true ∧ LinkedOK G = true ∧ GrammarOKN (Kall G) G = true ∧ G.plain ∧
    ((compileAll {} G).find "S").isSome = true ∧ ((compileAll { ast := false } G).find "S").isSome = true :=
  ⟨by decide, by decide, by decide, Grammar.plain_of_all (by decide), by decide, by decide⟩

/-- Which rules keep a function: `S` (label 0) and `B` (two references); `A` and `Action0` are
    compiled in place.  Without `-inline` all four have one. -/
example : (compileAll inOpts G).map (fun r => (r.name, r.code.isSome)) =
    [("S", true), ("A", false), ("B", true), ("Action0", false)] := by decide
example : (compileAll { ast := false } G).map (fun r => (r.name, r.code.isSome)) =
    [("S", true), ("A", true), ("B", true), ("Action0", true)] := by decide

/-- The body compiled for `S`: the capture and the action sit in place. -/
example : (expandG inOpts G).body "S" = some (.ipush (.seq [
    .alt [.seq [.inl "A" (.ipush (.push (.chr 97) "PegText") "A"),
                .inl "Action0" (.ipush (.act "A0") "Action0"), .chr 98],
          .seq [.chr 97, .name "B"], .name "B"],
    .peekNot .dot]) "S") := by rfl

/-- The emitted function of `S` contains the capture (`cap`), the action's code as a statement and
    the (useless under `-noast`) `add "A"` of the inlined rule; it calls `B` only; no memo. -/
example : ((compileAll inOpts G).find "S").map (fun c =>
      (c.any (fun i => match i with | .cap _ => true | _ => false),
       c.contains (.stmt "A0"),
       c.any (fun i => match i with | .add "A" _ => true | _ => false),
       c.any (fun i => match i with | .callIf "B" _ => true | _ => false),
       c.any (fun i => match i with | .callIf "A" _ | .call "A" | .callIf "Action0" _ | .call "Action0" => true
                                     | _ => false),
       c.any (fun i => match i with | .memoCheck _ => true | _ => false))) =
    some (true, true, true, true, false, false) := by decide

/-- The spec on "ac": success at 2; the capture and the action of the FAILED first alternative are
    among the events of the derivation in the ORIGINAL grammar … -/
def evs : List Token :=
  [⟨"PegText", 0, 1⟩, ⟨"A", 0, 1⟩, ⟨"Action0", 1, 1⟩, ⟨"B", 1, 2⟩, ⟨"S", 0, 2⟩]

example : (evalF G ρ [97, 99] 30 (.name "S") 0).map
    (fun x => (match x.1 with | .ok p _ => some p | .fail => none, x.2)) = some (some 2, evs) := by decide
/-- … and the expanded grammar has literally the same attempted-token list (`Eval_expandG_iff`). -/
example : (evalF (expandG inOpts G) ρ [97, 99] 30 (.name "S") 0).map
    (fun x => (match x.1 with | .ok p _ => some p | .fail => none, x.2)) = some (some 2, evs) := by decide
example : ∃ f, Eval G ρ [97, 99] (.name "S") 0 (.ok 2 f) evs := ⟨_, evalF_sound 30 _ _ _ _ (by rfl)⟩
example : reachTrace (actionCodeOf G) [97, 99] evs [] = ([("A0", [97])], [97]) := by decide

/-- The emitted `-inline -noast` program on the executable machine: returns true at position 2 with
    the trace and `text` of the spec and an untouched token buffer. -/
example : (((compileAll inOpts G).find "S").bind
      (fun c => execF (compileAll inOpts G) cfgN [97, 99] 200 c 0 St.init Frame.empty)).map
      (fun r => (r.1, r.2.pos, r.2.trace, r.2.text, r.2.tree)) =
    some (.ret true, 2, [("A0", [97])], [97], []) := by rfl

/-- TEST harness: the reference interpreter of the ORIGINAL grammar `g` against the code emitted
    with the options `o` (`-inline -noast`) for the (possibly rewritten) grammar `g'`, run by the
    machine model from a fresh parser.  `full = true` additionally compares trace, `text` and
    `maxToken` with `reachTrace` over the events of `g` (what `C07_inline_generated_parser` states for
    `g' = g`); verdict and end position are always compared, token buffer untouched. -/
def agreeWith (o : Opts) (full : Bool) (g g' : Grammar) (inp : List Sym) : Bool :=
  let P := compileAll o g'
  match P.find "S" with
  | none => false
  | some cr =>
    match evalF g ρ inp 60 (.name "S") 0, execF P cfgN inp 600 cr 0 St.init Frame.empty with
    | some (res, evs), some (out, s') =>
      (match res, out with
        | .ok p' _, .ret true => s'.pos == p'
        | .fail, .ret false => s'.pos == 0
        | _, _ => false) &&
      (!full ||
        (s'.trace == (reachTrace (actionCodeOf g) inp evs []).1 &&
         s'.text == (reachTrace (actionCodeOf g) inp evs []).2 &&
         s'.maxTok == (noCap evs).foldl updTok zeroTok)) && s'.tree == []
    | _, _ => false

def inAgree (g : Grammar) (inp : List Sym) : Bool := agreeWith inOpts true g g inp

/-- TESTS (not theorems about all inputs), labelled `in`: `execF` on the `-inline -noast` code and
    `evalF` on the original grammar agree on accepted and rejected inputs. -/
example : inAgree G [97, 98] = true := by decide        -- in: "ab"  accepted, inlined capture + action
example : inAgree G [97, 99] = true := by decide        -- in: "ac"  accepted by alt 2 after the action ran
example : inAgree G [99] = true := by decide            -- in: "c"   accepted by alt 3 (call of B)
example : inAgree G [97] = true := by decide            -- in: "a"   rejected, action ran
example : inAgree G [98] = true := by decide            -- in: "b"   rejected, no action
example : inAgree G [] = true := by decide              -- in: ""    rejected
example : inAgree G [97, 98, 98] = true := by decide    -- in: "abb" rejected by `!.`
example : inAgree G [97, 99, 99] = true := by decide    -- in: "acc" rejected by `!.`

/-- TEST, labelled `in`: the plain `-noast` parser leaves the same trace (what
    `C07_inline_same_trace_as_noast` states). -/
example : [[97, 98], [97, 99], [99], [97], [98], [], [97, 98, 98]].all (fun i =>
    agreeWith { ast := false } true G G i && agreeWith inOpts true G G i) = true := by decide

/-- The side condition is not vacuous.  (1) A capture that is not named "PegText" inside a rule
    compiled in place is rejected (the expanded body is what is checked), while the AST-mode
    `-inline` condition accepts the grammar; (2) a once-referenced rule that refers to a stub is
    rejected although it gets no function itself: it is checked where it is compiled. -/
def Gbad1 : Grammar := ⟨[
  ⟨"S", 0, .ipush (.seq [.name "A", .chr 98]) "S"⟩,
  ⟨"A", 1, .ipush (.push (.chr 97) "Other") "A"⟩]⟩
def Gbad2 : Grammar := ⟨[
  ⟨"S", 0, .ipush (.seq [.name "A", .chr 98]) "S"⟩,
  ⟨"A", 1, .ipush (.seq [.name "U", .name "U"]) "A"⟩,
  ⟨"U", 2, .nil⟩]⟩

example : (GrammarOKNIS (Kall Gbad1) Gbad1, GrammarOKIS Gbad1) = (false, true) := by decide
example : (GrammarOKNIS (Kall Gbad2) Gbad2, ((compileAll inOpts Gbad2).find "A").isSome) =
    (false, false) := by decide

end C07InlineExample

/-! ### Non-vacuity and TESTS, option set `isn` (`-inline -noast -switch`)

  Source grammar (after `link`):

      S       <- (A 'b' / B 'y' / 'd' / [g-k] 'z') !.
      A       <- 'a' <'x'> Action0
      B       <- [b-c]
      Action0 <- { A0 }

  and its `-switch` rewrite, as `optimise` produces it:

      S <- switch { case 'd': 'd'; case 'a': A 'b'; case 'b','c': B 'y'; default: [g-k] 'z' } !.

  `A`, `B`, `Action0` are referenced once, so `-inline` compiles their bodies in place, directly
  behind the `case`: inside the inlined body of `A` the test of `'a'` is elided (`parentDetect`, one
  key), inside the inlined body of `B` the test of `[b-c]` is kept (two keys).  On "axc" the case of
  'a' completes the capture and reaches the action (both in place), then fails at 'b': the action
  still ran, with the text "x". -/
namespace C07InlineSwitchExample
open C07InlineExample (ρ cfgN agreeWith)

def srcG : Grammar := ⟨[
  ⟨"S", 0, .ipush (.seq [
      .alt [.seq [.name "A", .chr 98], .seq [.name "B", .chr 121], .chr 100, .seq [.rng 103 107, .chr 122]],
      .peekNot .dot]) "S"⟩,
  ⟨"A", 1, .ipush (.seq [.chr 97, .push (.chr 120) "PegText", .name "Action0"]) "A"⟩,
  ⟨"B", 2, .ipush (.rng 98 99) "B"⟩,
  ⟨"Action0", 3, .ipush (.act "A0") "Action0"⟩]⟩

def swG : Grammar := ⟨[
  ⟨"S", 0, .ipush (.seq [
      .ualt [[(100, 100)], [(97, 97)], [(98, 99)], [(103, 107)]]
        [.chr 100, .seq [.name "A", .chr 98], .seq [.name "B", .chr 121], .seq [.rng 103 107, .chr 122]],
      .peekNot .dot]) "S"⟩,
  ⟨"A", 1, .ipush (.seq [.chr 97, .push (.chr 120) "PegText", .name "Action0"]) "A"⟩,
  ⟨"B", 2, .ipush (.rng 98 99) "B"⟩,
  ⟨"Action0", 3, .ipush (.act "A0") "Action0"⟩]⟩

def isnOpts : Opts := { inline := true, switch := true, ast := false }

/-- The hypotheses of `C07_inline_switch_verdict` / `C07_inline_switch_generated_parser` are
    satisfiable (and `S` gets a function) … -/
example : WFB srcG = true ∧ inlineNoastSwitchSafe srcG swG = true ∧
    ((compileAll isnOpts swG).find "S").isSome = true := ⟨by decide, by decide, by decide⟩

/-- … so are those of `C07_inline_switch_same_language_as_default` about the source grammar. -/
example : GrammarOK srcG = true ∧ LinkedOK srcG = true ∧ srcG.plain ∧
    ((compileAll {} srcG).find "S").isSome = true :=
  ⟨by decide, by decide, Grammar.plain_of_all (by decide), by decide⟩

/-- `swG` is literally what the modelled optimiser makes of `srcG` … -/
example : (optimise srcG).toOption.map (fun G' =>
    swMatchL (fun _ => none) (G'.rules.map (·.body)) (swG.rules.map (·.body)) &&
    G'.rules.map (fun r => (r.name, r.id)) == swG.rules.map (fun r => (r.name, r.id))) = some true := by
  decide
-- … and the side condition evaluated directly on the optimiser's output (interpreter).
#guard (optimise srcG).toOption.map (inlineNoastSwitchSafe srcG) == some true

/-- Only `S` keeps a function. -/
example : (compileAll isnOpts swG).map (fun r => (r.name, r.code.isSome)) =
    [("S", true), ("A", false), ("B", false), ("Action0", false)] := by decide

/-- The elision really happens INSIDE the inlined body, in `-noast` code: no test of `'a'` is
    printed, the range test of the two-key case is kept, there is a `switchOn`, the capture (`cap`)
    and the action's code sit in place, no call is left and there is no memo. -/
example : ((compileAll isnOpts swG).find "S").map (fun c =>
      (c.any (fun i => match i with | .ifNeChr 97 _ => true | _ => false),
       c.any (fun i => match i with | .ifNotRng 98 99 _ => true | _ => false),
       c.any (fun i => match i with | .switchOn .. => true | _ => false),
       c.any (fun i => match i with | .cap _ => true | _ => false),
       c.contains (.stmt "A0"),
       c.any (fun i => match i with | .call _ | .callIf _ _ | .memoCheck _ => true | _ => false))) =
    some (false, true, true, true, true, false) := by decide

/-- The spec on "axc": both grammars fail; the derivation in `swG` has the capture and the action of
    the abandoned case among its events; the action ran with the text "x". -/
def evs' : List Token := [⟨"PegText", 1, 2⟩, ⟨"Action0", 2, 2⟩, ⟨"A", 0, 2⟩]

example : (evalF srcG ρ [97, 120, 99] 30 (.name "S") 0).map
    (fun x => (match x.1 with | .ok p _ => some p | .fail => none, x.2)) = some (none, evs') := by decide
example : (evalF swG ρ [97, 120, 99] 30 (.name "S") 0).map
    (fun x => (match x.1 with | .ok p _ => some p | .fail => none, x.2)) = some (none, evs') := by decide
example : Eval swG ρ [97, 120, 99] (.name "S") 0 .fail evs' := evalF_sound 30 _ _ _ _ (by rfl)
example : reachTrace (actionCodeOf swG) [97, 120, 99] evs' [] = ([("A0", [120])], [120]) := by decide

/-- The emitted `-inline -noast -switch` program on the executable machine: returns false at
    position 0 with the trace and `text` of the spec and an untouched token buffer. -/
example : (((compileAll isnOpts swG).find "S").bind
      (fun c => execF (compileAll isnOpts swG) cfgN [97, 120, 99] 300 c 0 St.init Frame.empty)).map
      (fun r => (r.1, r.2.pos, r.2.trace, r.2.text, r.2.tree)) =
    some (.ret false, 0, [("A0", [120])], [120], []) := by rfl

/-- `isn` harness: trace / `text` / `maxToken` against the events of the REWRITTEN grammar `g'`
    (`C07_inline_switch_generated_parser`, second half) … -/
def isnAgree (g' : Grammar) (inp : List Sym) : Bool := agreeWith isnOpts true g' g' inp
/-- … and verdict / end position against the SOURCE grammar (`C07_inline_switch_verdict`). -/
def isnVerdict (g g' : Grammar) (inp : List Sym) : Bool := agreeWith isnOpts false g g' inp

/-- TESTS (not theorems about all inputs), labelled `isn`. -/
example : isnAgree swG [97, 120, 98] = true := by decide    -- isn: "axb" accepted, inlined A, action ran
example : isnAgree swG [97, 120, 99] = true := by decide    -- isn: "axc" rejected after the action ran
example : isnAgree swG [97, 121] = true := by decide        -- isn: "ay"  rejected inside the inlined capture
example : isnAgree swG [97] = true := by decide             -- isn: "a"   rejected inside inlined A
example : isnAgree swG [98, 121] = true := by decide        -- isn: "by"  accepted, inlined B
example : isnAgree swG [99, 121] = true := by decide        -- isn: "cy"  accepted, inlined B
example : isnAgree swG [98, 120] = true := by decide        -- isn: "bx"  rejected after inlined B
example : isnAgree swG [100] = true := by decide            -- isn: "d"   accepted, case 'd'
example : isnAgree swG [104, 122] = true := by decide       -- isn: "hz"  accepted, default
example : isnAgree swG [101] = true := by decide            -- isn: "e"   rejected in the default
example : isnAgree swG [] = true := by decide               -- isn: ""    rejected (end symbol → default)
example : isnAgree swG [100, 100] = true := by decide       -- isn: "dd"  rejected by `!.`
example : [[97, 120, 98], [97, 120, 99], [97, 121], [97], [98, 121], [99, 121], [98, 120], [100], [104, 122],
    [101], [], [100, 100]].all (isnVerdict srcG swG) = true := by decide

/-- TEST, labelled `isn`: the same on the output of the MODELLED `-switch` rewrite. -/
example : (optimise srcG).toOption.map (fun g =>
    [[97, 120, 98], [97, 120, 99], [97, 121], [98, 121], [99, 121], [100], [104, 122], [101], [], [100, 100]].all
      (fun i => isnAgree g i && isnVerdict srcG g i)) = some true := by decide

/-- The side condition is not vacuous: if the key of the case does not imply the character the
    inlined body of `A` starts with, the elision is not justified — rejected, while the same grammar
    passes the `-noast -switch` check without `-inline` (`GrammarOKNS`, where `A` is a call) … -/
def swGbad : Grammar := ⟨[
  ⟨"S", 0, .ipush (.seq [
      .ualt [[(98, 98)], [(99, 99)]] [.seq [.name "A", .chr 98], .seq [.name "B", .chr 121], .chr 100],
      .peekNot .dot]) "S"⟩,
  ⟨"A", 1, .ipush (.seq [.chr 97, .push (.chr 120) "PegText", .name "Action0"]) "A"⟩,
  ⟨"B", 2, .ipush (.rng 98 99) "B"⟩,
  ⟨"Action0", 3, .ipush (.act "A0") "Action0"⟩]⟩

example : (GrammarOKNIS (Kall swGbad) swGbad, GrammarOKNS (Kall swGbad) swGbad) = (false, true) := by decide

/-- … and TEST: the rejected grammar is really wrong under `-inline -noast`: "bxb" is accepted by the
    emitted code (the test of `'a'` is elided inside the inlined body of `A`) although the semantics
    of `swGbad` rejects it. -/
example : (agreeWith isnOpts false swGbad swGbad [98, 120, 98],
    (evalF swGbad ρ [98, 120, 98] 30 (.name "S") 0).map (fun x => match x.1 with | .ok _ _ => true | .fail => false),
    (((compileAll isnOpts swGbad).find "S").bind
      (fun c => execF (compileAll isnOpts swGbad) cfgN [98, 120, 98] 300 c 0 St.init Frame.empty)).map (·.1)) =
    (false, some false, some (.ret true)) := by decide

end C07InlineSwitchExample

-- The bootstrap grammar (`peg.peg` after `link`, `SwitchTests.pegG`), interpreter: both side
-- conditions hold — for `pegG` itself (`in`) and for the optimiser's output (`isn`).
#guard inlineNoastSafe SwitchTests.pegG
#guard (optimise SwitchTests.pegG).toOption.map (inlineNoastSwitchSafe SwitchTests.pegG) == some true

end PegVerif

#print axioms PegVerif.compileAll_worldNS_inline
#print axioms PegVerif.compileAll_worldNS_inline'
#print axioms PegVerif.C07_inline_runs
#print axioms PegVerif.C07_inline_verdict
#print axioms PegVerif.C07_inline_inline_actions_filtered
#print axioms PegVerif.C07_inline_inline_actions
#print axioms PegVerif.C07_inline_same_language_as_default
#print axioms PegVerif.C07_inline_same_trace_as_noast
#print axioms PegVerif.C07_inline_generated_parser
#print axioms PegVerif.C07_inline_generated_parser_total
#print axioms PegVerif.inline_noast_switch_world
#print axioms PegVerif.C07_inline_switch_verdict
#print axioms PegVerif.C07_inline_switch_inline_actions
#print axioms PegVerif.C07_inline_switch_same_language_as_default
#print axioms PegVerif.C07_inline_switch_generated_parser
