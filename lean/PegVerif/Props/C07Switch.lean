import PegVerif.Props.C07
import PegVerif.Props.C02Switch
import PegVerif.Proofs.NoastSwitchSafeDef
/-
  C07 (`-noast -switch`) — a parser generated with `-noast -switch` accepts the language of the
  source grammar, like the default parser, and runs the actions inline.

  `G` is the linked source grammar, `G'` any rewritten grammar (in particular `optimise G`, the
  model of `optimizeAlternates`) with `noastSwitchSafe G G' = true`:

      swOK G G'                     the rewrite is validated (C02, Proofs/SwitchLemmas.lean):
                                    every rule has in `G'` the outcome it has in `G`;
      GrammarOKNS (Kall G') G'      `compileAll_worldNS` : `WorldNS` for the emitted program;
      plainS G'                     `CheckAlwaysSucceeds` is sound.

  RNS (`Proofs/RefineNoastS*.lean`, `RefineNoastSwitch.lean`) is the refinement theorem for the
  `-noast` emission of a grammar with `-switch` nodes: verdict, end position, `maxToken`, and the
  machine's trace / `text` as the fold `reachTrace` over the events of the derivation IN `G'` (a
  switch does not attempt the cases it skips, so the attempted-token list of `G'` is in general a
  sub-list of the one of `G`: an action inside an alternative that `G` tries and abandons, and that
  the switch of `G'` never enters, does not run).

  First the statements over `WorldNS` (the shapes of `Props/C07.lean`), then the end-to-end theorems
  for the generator, then non-vacuity examples and TESTS.
-/
namespace PegVerif
open Noast

section
variable {K : NKit} {P PN : Program} {cfg cfgN : Cfg} {env envN : CEnv} {G : Grammar} {inp : List Sym}

/-! ### Over `WorldNS` -/

/-- Totality: from every state positioned inside the input on which the semantics is defined, the
    emitted `-noast` function of rule `n` has a run. -/
theorem C07_switch_runs (hW : WorldNS K PN cfgN envN G inp) {n cr p res evs s}
    (hfind : PN.find n = some cr) (hev : Eval G cfgN.rho inp (.name n) p res evs)
    (hpos : s.pos = p) (hple : p ≤ inp.length) :
    ∃ o s', Exec PN cfgN inp cr 0 s Frame.empty (o, s') :=
  let ⟨o, s', h, _⟩ := RNS_rule hW hfind hev hpos hple
  ⟨o, s', h⟩

/-- Verdict: every run of the emitted `-noast` function of rule `n` of a program with `-switch`
    nodes returns true exactly when the PEG semantics succeeds, false exactly when it fails, never
    panics, and ends at the position the semantics prescribes (the entry position on failure). -/
theorem C07_switch_verdict_world (hW : WorldNS K PN cfgN envN G inp) {n cr p res evs s o s'}
    (hfind : PN.find n = some cr) (hev : Eval G cfgN.rho inp (.name n) p res evs)
    (hpos : s.pos = p) (hple : p ≤ inp.length)
    (hrun : Exec PN cfgN inp cr 0 s Frame.empty (o, s')) :
    o ≠ .panic ∧ (o = .ret true ↔ ∃ p' f, res = .ok p' f) ∧ (o = .ret false ↔ res = .fail) ∧
    (∀ p' f, res = .ok p' f → s'.pos = p') ∧ (res = .fail → s'.pos = p) := by
  have h := RNS_rule_all hW hfind hev hpos hple hrun
  cases res with
  | ok p' f =>
    obtain ⟨h1, h2, _⟩ := h
    subst h1
    refine ⟨by simp, by simp, by simp, ?_, by simp⟩
    intro p'' f' e; cases e; exact h2
  | fail =>
    obtain ⟨h1, h2, _⟩ := h
    subst h1
    exact ⟨by simp, by simp, by simp, by simp, fun _ => h2⟩

/-- Inline actions, general form (the statement of `C07_inline_actions_filtered`, for a program with
    `-switch` nodes): the compared part of the trace is the initial one followed by exactly the
    actions `reachTrace` prescribes for the events of the derivation, `text` is what `reachTrace`
    leaves, token buffer and memo table are untouched, `maxToken` is folded over the events that
    are not captures. -/
theorem C07_switch_inline_actions_filtered (hW : WorldNS K PN cfgN envN G inp) {n cr p res evs s o s'}
    (hfind : PN.find n = some cr) (hev : Eval G cfgN.rho inp (.name n) p res evs)
    (hpos : s.pos = p) (hple : p ≤ inp.length)
    (hrun : Exec PN cfgN inp cr 0 s Frame.empty (o, s')) :
    s'.trace.filter (fun x => K.keep x.1) =
      s.trace.filter (fun x => K.keep x.1) ++ (reachTrace K.codeOf inp evs s.text).1 ∧
    s'.text = (reachTrace K.codeOf inp evs s.text).2 ∧
    s'.tree = s.tree ∧ s'.memo = s.memo ∧ s'.maxTok = (noCap evs).foldl updTok s.maxTok := by
  have h := RNS_rule_all hW hfind hev hpos hple hrun
  have hE : StEffN K inp s s' evs := by
    cases res with
    | ok p' f => exact h.2.2
    | fail => exact h.2.2
  have hobs := hE.obs
  rw [obsN, obsN, foldl_inlineStep] at hobs
  have h1 := congrArg Prod.fst hobs
  have h2 := congrArg Prod.snd hobs
  exact ⟨h1, h2, hE.tree, hE.memo, hE.maxTok⟩

/-- Inline actions (the statement of `C07_inline_actions`, for a program with `-switch` nodes): for
    grammars without state-change statements `!{…}` (`Kall`), the whole trace. -/
theorem C07_switch_inline_actions_world (hW : WorldNS (Kall G) PN cfgN envN G inp) {n cr p res evs s o s'}
    (hfind : PN.find n = some cr) (hev : Eval G cfgN.rho inp (.name n) p res evs)
    (hpos : s.pos = p) (hple : p ≤ inp.length)
    (hrun : Exec PN cfgN inp cr 0 s Frame.empty (o, s')) :
    s'.trace = s.trace ++ (reachTrace (actionCodeOf G) inp evs s.text).1 ∧
    s'.text = (reachTrace (actionCodeOf G) inp evs s.text).2 := by
  have h := C07_switch_inline_actions_filtered hW hfind hev hpos hple hrun
  have hf : ∀ l : List (String × List Sym), l.filter (fun x => (Kall G).keep x.1) = l := by
    intro l; induction l <;> simp_all [Kall]
  rw [hf, hf] at h
  exact ⟨h.1, h.2.1⟩

end

/-! ### For the generator -/

/-- `WorldNS` for the program the model generator emits with `-noast` for a rewritten grammar that
    passes the decidable check. -/
theorem noast_switch_world (K : NKit) (G G' : Grammar) (o : Opts) (cfg : Cfg) (inp : List Sym)
    (hsafe : noastSwitchSafeK K G G' = true)
    (hinl : o.inline = false) (hast : o.ast = false) (hcfg : cfg.ast = false)
    (hinp : ∀ c ∈ inp, c ≠ END) :
    WorldNS K (compileAll o G') cfg (realEnv o G') G' inp := by
  simp only [noastSwitchSafeK, Bool.and_eq_true] at hsafe
  obtain ⟨⟨_, hG⟩, hp⟩ := hsafe
  exact compileAll_worldNS hinl hast hcfg hinp hG
    (fun _ h => alwaysSucceeds_soundS (Grammar.plainS_of_all hp) h)

/-- The outcome of the source grammar `G` at `p`, together with a derivation of the same outcome in
    the rewritten grammar `G'` (whose events are what the `-noast -switch` parser executes). -/
theorem noast_switch_outcome {K : NKit} {G G' : Grammar} {o : Opts} {cfg : Cfg} {inp : List Sym}
    (hwf : WFB G = true) (hsafe : noastSwitchSafeK K G G' = true)
    (hW : WorldNS K (compileAll o G') cfg (realEnv o G') G' inp)
    {n cr} (hfind : (compileAll o G').find n = some cr) {p : Nat} (hple : p ≤ inp.length) :
    ∃ res evs evs', Eval G cfg.rho inp (.name n) p res evs ∧ Eval G' cfg.rho inp (.name n) p res evs' := by
  simp only [noastSwitchSafeK, Bool.and_eq_true] at hsafe
  obtain ⟨⟨hsw, _⟩, _⟩ := hsafe
  have hwf' : WFB G' = true := by
    simp only [swOK, Bool.and_eq_true] at hsw; exact hsw.1
  obtain ⟨_, b, _, _, hb, _⟩ := hW.rules n cr hfind
  obtain ⟨res, evs', hev'⟩ := Eval_total (ρ := cfg.rho) hwf' inp n b hb p hple
  obtain ⟨evs, hev⟩ := (Eval_switch_iff hwf hsw).2 ⟨evs', hev'⟩
  exact ⟨res, evs, evs', hev, hev'⟩

/-- **C07, `-noast -switch`, verdict.**  For a well-formed grammar `G` and ANY rewritten grammar `G'`
    (in particular `optimise G`) that passes the decidable check `noastSwitchSafe`, the parser
    emitted with `-noast` from `G'` — entered at any rule `n` that has a function, from any state
    positioned at any `p` inside the input — terminates, never panics, returns true exactly when the
    PEG semantics of the ORIGINAL grammar `G` matches a prefix at `p`, false exactly when it does
    not, and stops at the end of exactly that prefix (at `p` on failure).
    So it accepts exactly the inputs the PEG semantics of `G` accepts. -/
theorem C07_switch_verdict (G G' : Grammar) (o : Opts) (cfg : Cfg) (inp : List Sym)
    (hwf : WFB G = true) (hsafe : noastSwitchSafe G G' = true)
    (hinl : o.inline = false) (hast : o.ast = false) (hcfg : cfg.ast = false)
    (hinp : ∀ c ∈ inp, c ≠ END)
    {n cr} (hfind : (compileAll o G').find n = some cr) {p : Nat} (hple : p ≤ inp.length) :
    ∃ res evs, Eval G cfg.rho inp (.name n) p res evs ∧
      (∀ s, s.pos = p → ∃ out s', Exec (compileAll o G') cfg inp cr 0 s Frame.empty (out, s')) ∧
      ∀ s out s', s.pos = p → Exec (compileAll o G') cfg inp cr 0 s Frame.empty (out, s') →
        out ≠ .panic ∧ (out = .ret true ↔ ∃ p' f, res = .ok p' f) ∧ (out = .ret false ↔ res = .fail) ∧
        (∀ p' f, res = .ok p' f → s'.pos = p') ∧ (res = .fail → s'.pos = p) := by
  have hW := noast_switch_world (Kall G') G G' o cfg inp hsafe hinl hast hcfg hinp
  obtain ⟨res, evs, evs', hev, hev'⟩ := noast_switch_outcome hwf hsafe hW hfind hple
  refine ⟨res, evs, hev, ?_, ?_⟩
  · intro s hs; exact C07_switch_runs hW hfind hev' hs hple
  · intro s out s' hs hrun; exact C07_switch_verdict_world hW hfind hev' hs hple hrun

/-- **C07, `-noast -switch`, inline actions** (what `C07_inline_actions` states, for `G'`): after
    every run — successful or not — of the parser emitted with `-noast` from `G'`, the trace is the
    initial one followed by exactly the actions `reachTrace` prescribes for the attempted-token list
    `evs'` of the derivation in `G'`, each with the text of the capture most recently completed when
    it was reached, whether or not the branch it sits in was backtracked over later; `text` is what
    `reachTrace` leaves.  Moreover the token buffer and the memo table are untouched and `maxToken`
    is folded over the events that are not captures. -/
theorem C07_switch_inline_actions (G G' : Grammar) (o : Opts) (cfg : Cfg) (inp : List Sym)
    (hsafe : noastSwitchSafe G G' = true)
    (hinl : o.inline = false) (hast : o.ast = false) (hcfg : cfg.ast = false)
    (hinp : ∀ c ∈ inp, c ≠ END)
    {n cr p res evs' s out s'} (hfind : (compileAll o G').find n = some cr)
    (hev' : Eval G' cfg.rho inp (.name n) p res evs')
    (hpos : s.pos = p) (hple : p ≤ inp.length)
    (hrun : Exec (compileAll o G') cfg inp cr 0 s Frame.empty (out, s')) :
    s'.trace = s.trace ++ (reachTrace (actionCodeOf G') inp evs' s.text).1 ∧
    s'.text = (reachTrace (actionCodeOf G') inp evs' s.text).2 ∧
    s'.tree = s.tree ∧ s'.memo = s.memo ∧ s'.maxTok = (noCap evs').foldl updTok s.maxTok := by
  have hW := noast_switch_world (Kall G') G G' o cfg inp hsafe hinl hast hcfg hinp
  have h1 := C07_switch_inline_actions_world hW hfind hev' hpos hple hrun
  have h2 := C07_switch_inline_actions_filtered hW hfind hev' hpos hple hrun
  exact ⟨h1.1, h1.2, h2.2.2.1, h2.2.2.2.1, h2.2.2.2.2⟩

/-- **C07, `-noast -switch`, same language as the default parser.**  The default (AST) parser
    generated from `G` (its own side conditions `GrammarOK`, `LinkedOK`, `plain` on `G`) and the
    `-noast -switch` parser generated from a rewritten grammar `G'` with `noastSwitchSafe G G'`,
    run on the same entry rule, input and start position, give the same verdict and end at the same
    position — both are those of the PEG semantics of `G`; neither panics. -/
theorem C07_switch_same_language_as_default (G G' : Grammar) (o o' : Opts) (cfg cfgN : Cfg)
    (inp : List Sym) (hwf : WFB G = true) (hsafe : noastSwitchSafe G G' = true)
    (hinl : o.inline = false) (hsw : o.switch = false) (hast : o.ast = true) (hcfg : cfg.ast = true)
    (hG : GrammarOK G = true) (hL : LinkedOK G = true) (hplain : G.plain)
    (hinl' : o'.inline = false) (hast' : o'.ast = false) (hcfgN : cfgN.ast = false)
    (hrho : cfg.rho = cfgN.rho) (hinp : ∀ c ∈ inp, c ≠ END)
    {n crA crN} (hfindA : (compileAll o G).find n = some crA)
    (hfindN : (compileAll o' G').find n = some crN)
    {p sA sN oA oN sA' sN'} (hposA : sA.pos = p) (hposN : sN.pos = p) (hple : p ≤ inp.length)
    (hlen : sA.ti ≤ sA.tree.length) (hm : MemoOK (compileAll o G) G cfg.rho inp sA.memo sA.maxTok.e)
    (hrunA : Exec (compileAll o G) cfg inp crA 0 sA Frame.empty (oA, sA'))
    (hrunN : Exec (compileAll o' G') cfgN inp crN 0 sN Frame.empty (oN, sN')) :
    oA = oN ∧ oN ≠ .panic ∧ sA'.pos = sN'.pos := by
  have hWN := noast_switch_world (Kall G') G G' o' cfgN inp hsafe hinl' hast' hcfgN hinp
  obtain ⟨res, evs, evs', hev, hev'⟩ := noast_switch_outcome hwf hsafe hWN hfindN hple
  have hWA := compileAll_world (cfg := cfg) (inp := inp) hsw hinl hast hcfg hinp hG hL
    (fun _ h => alwaysSucceeds_sound hplain h)
  have a := R_rule_all hWA hfindA (hrho ▸ hev) hposA hple hlen hm hrunA
  have b := RNS_rule_all hWN hfindN hev' hposN hple hrunN
  cases res with
  | ok p' f =>
    obtain ⟨a1, a2, _⟩ := a
    obtain ⟨b1, b2, _⟩ := b
    exact ⟨by rw [a1, b1], (by intro e; rw [b1] at e; cases e), by rw [a2, b2]⟩
  | fail =>
    obtain ⟨a1, a2, _⟩ := a
    obtain ⟨b1, b2, _⟩ := b
    exact ⟨by rw [a1, b1], (by intro e; rw [b1] at e; cases e), by rw [a2, b2]⟩

/-- **C07 for the generator itself, `-noast -switch`** (shape of `C07_generated_parser`): from a
    fresh parser, every run of the function emitted for rule `n` from `G'` gives the verdict and end
    position of the semantics of the SOURCE grammar `G`, never panics, and leaves the trace and
    `text` of `reachTrace` over the events of the derivation in `G'`. -/
theorem C07_switch_generated_parser (G G' : Grammar) (o : Opts) (cfg : Cfg) (inp : List Sym)
    (hwf : WFB G = true) (hsafe : noastSwitchSafe G G' = true)
    (hinl : o.inline = false) (hast : o.ast = false) (hcfg : cfg.ast = false)
    (hinp : ∀ c ∈ inp, c ≠ END)
    {n cr} (hfind : (compileAll o G').find n = some cr) :
    ∃ res evs evs', Eval G cfg.rho inp (.name n) 0 res evs ∧ Eval G' cfg.rho inp (.name n) 0 res evs' ∧
      (∃ out s', Exec (compileAll o G') cfg inp cr 0 St.init Frame.empty (out, s')) ∧
      ∀ out s', Exec (compileAll o G') cfg inp cr 0 St.init Frame.empty (out, s') →
        (out = .ret true ↔ ∃ p' f, res = .ok p' f) ∧ (∀ p' f, res = .ok p' f → s'.pos = p') ∧
        (out = .ret false ↔ res = .fail) ∧ out ≠ .panic ∧
        s'.trace = (reachTrace (actionCodeOf G') inp evs' []).1 ∧
        s'.text = (reachTrace (actionCodeOf G') inp evs' []).2 := by
  have hW := noast_switch_world (Kall G') G G' o cfg inp hsafe hinl hast hcfg hinp
  obtain ⟨res, evs, evs', hev, hev'⟩ := noast_switch_outcome hwf hsafe hW hfind (Nat.zero_le _)
  refine ⟨res, evs, evs', hev, hev', C07_switch_runs hW hfind hev' rfl (Nat.zero_le _), ?_⟩
  intro out s' hrun
  have hv := C07_switch_verdict_world hW hfind hev' rfl (Nat.zero_le _) hrun
  have ht := C07_switch_inline_actions_world hW hfind hev' rfl (Nat.zero_le _) hrun
  simp only [St.init, List.nil_append] at ht
  exact ⟨hv.2.1, hv.2.2.2.1, hv.2.2.1, hv.1, ht.1, ht.2⟩

/-! ### Non-vacuity and TESTS

  Source grammar (after `link`):

      S       <- ('a' <'x'> Action0 'b' / [b-c] 'y' / 'd') !.
      Action0 <- { A0 }

  and its `-switch` rewrite, written by hand:

      switch { case 'a': 'a' <'x'> Action0 'b'; case 'b','c': [b-c] 'y'; default: 'd' } !.

  In the emitted `-noast` code the test of `'a'` is elided (one key), the test of `[b-c]` is kept
  (two keys).  On "axc" the first case completes the capture and reaches the action, then fails at
  'b': the action still ran, with the text "x". -/
namespace C07SwitchExample

def G : Grammar := ⟨[
  ⟨"S", 0, .ipush (.seq [
      .alt [.seq [.chr 97, .push (.chr 120) "PegText", .name "Action0", .chr 98],
            .seq [.rng 98 99, .chr 121], .chr 100],
      .peekNot .dot]) "S"⟩,
  ⟨"Action0", 1, .ipush (.act "A0") "Action0"⟩]⟩

def G' : Grammar := ⟨[
  ⟨"S", 0, .ipush (.seq [
      .ualt [[(97, 97)], [(98, 99)]]
        [.seq [.chr 97, .push (.chr 120) "PegText", .name "Action0", .chr 98],
         .seq [.rng 98 99, .chr 121], .chr 100],
      .peekNot .dot]) "S"⟩,
  ⟨"Action0", 1, .ipush (.act "A0") "Action0"⟩]⟩

def ρ : String → Nat → Bool := fun _ _ => true
def noastOpts : Opts := { ast := false, switch := true }
def cfgN : Cfg := ⟨false, true, ρ⟩

/-- The hypotheses of `C07_switch_verdict` / `C07_switch_generated_parser` are satisfiable (and `S`
    gets a function). -/
example : WFB G = true ∧ noastSwitchSafe G G' = true ∧
    ((compileAll noastOpts G').find "S").isSome = true := ⟨by decide, by decide, by decide⟩

/-- … so are those of `C07_switch_same_language_as_default` about the source grammar. -/
example : GrammarOK G = true ∧ LinkedOK G = true ∧ G.plain ∧
    ((compileAll {} G).find "S").isSome = true :=
  ⟨by decide, by decide, Grammar.plain_of_all (by decide), by decide⟩

/-- The `-switch`-free `-noast` check rejects `G'` (it has a `-switch` node): this is not
    `C07_generated_parser` again. -/
example : GrammarOK G' = false := by decide

/-- The elision really happens in `-noast` code: `ifNeChr 97` is gone, the range test of the two-key
    case is printed, the default keeps its test, there is a `switchOn`, a `cap` and the inlined
    action statement — and neither `add`-with-buffer nor memo instructions matter (`-noast`). -/
example : ((compileAll noastOpts G').find "S").map (fun c =>
      (c.contains (.ifNeChr 97 0), c.contains (.ifNotRng 98 99 0), c.contains (.ifNeChr 100 0),
        c.any (fun i => match i with | .switchOn .. => true | _ => false),
        c.any (fun i => match i with | .cap _ => true | _ => false),
        c.any (fun i => match i with | .memoCheck _ => true | _ => false))) =
    some (false, true, true, true, true, false) := by decide
example : ((compileAll noastOpts G').find "Action0") = some [.bb, .stmt "A0", .be, .retT] := by decide

/-- The spec on "axc": both grammars fail; the derivation in `G'` has the capture and the action of
    the abandoned case among its events; the action ran with the text "x". -/
def evs' : List Token := [⟨"PegText", 1, 2⟩, ⟨"Action0", 2, 2⟩]

example : (evalF G ρ [97, 120, 99] 30 (.name "S") 0).map
    (fun x => (match x.1 with | .ok p _ => some p | .fail => none, x.2)) = some (none, evs') := by decide
example : (evalF G' ρ [97, 120, 99] 30 (.name "S") 0).map
    (fun x => (match x.1 with | .ok p _ => some p | .fail => none, x.2)) = some (none, evs') := by decide
example : Eval G' ρ [97, 120, 99] (.name "S") 0 .fail evs' := evalF_sound 30 _ _ _ _ (by rfl)
example : reachTrace (actionCodeOf G') [97, 120, 99] evs' [] = ([("A0", [120])], [120]) := by decide

/-- The emitted `-noast -switch` program on the executable machine: returns false at position 0 with
    the trace and `text` of the spec and an untouched token buffer. -/
example : (((compileAll noastOpts G').find "S").bind
      (fun c => execF (compileAll noastOpts G') cfgN [97, 120, 99] 200 c 0 St.init Frame.empty)).map
      (fun r => (r.1, r.2.pos, r.2.trace, r.2.text, r.2.tree)) =
    some (.ret false, 0, [("A0", [120])], [120], []) := by rfl

/-- TEST harness: the reference interpreter of `G'` against the `-noast` code emitted for `G'`, run
    by the machine model from a fresh parser: verdict, end position, trace, `text`, `maxToken`
    (over the non-capture events), token buffer untouched. -/
def nsAgree (G' : Grammar) (inp : List Sym) : Bool :=
  let P := compileAll noastOpts G'
  match P.find "S" with
  | none => false
  | some cr =>
    match evalF G' ρ inp 60 (.name "S") 0, execF P cfgN inp 600 cr 0 St.init Frame.empty with
    | some (res, evs), some (out, s') =>
      (match res, out with
        | .ok p' _, .ret true => s'.pos == p'
        | .fail, .ret false => s'.pos == 0
        | _, _ => false) &&
      s'.trace == (reachTrace (actionCodeOf G') inp evs []).1 &&
      s'.text == (reachTrace (actionCodeOf G') inp evs []).2 &&
      s'.maxTok == (noCap evs).foldl updTok zeroTok && s'.tree == []
    | _, _ => false

/-- … and the source grammar's verdict against the same run (what `C07_switch_verdict` states). -/
def nsVerdict (G G' : Grammar) (inp : List Sym) : Bool :=
  let P := compileAll noastOpts G'
  match P.find "S" with
  | none => false
  | some cr =>
    match evalF G ρ inp 60 (.name "S") 0, execF P cfgN inp 600 cr 0 St.init Frame.empty with
    | some (.ok p' _, _), some (.ret true, s') => s'.pos == p'
    | some (.fail, _), some (.ret false, s') => s'.pos == 0
    | _, _ => false

/-- TESTS (not theorems about all inputs): code and semantics agree on accepted and rejected inputs. -/
example : nsAgree G' [97, 120, 98] = true := by decide      -- "axb" accepted, case 0, action ran
example : nsAgree G' [97, 120, 99] = true := by decide      -- "axc" rejected after the action ran
example : nsAgree G' [97, 121] = true := by decide          -- "ay"  rejected inside the capture
example : nsAgree G' [98, 121] = true := by decide          -- "by"  accepted, case 1
example : nsAgree G' [99, 121] = true := by decide          -- "cy"  accepted, case 1
example : nsAgree G' [100] = true := by decide              -- "d"   accepted, default
example : nsAgree G' [101] = true := by decide              -- "e"   rejected in the default
example : nsAgree G' [] = true := by decide                 -- ""    rejected (end symbol → default)
example : nsAgree G' [100, 100] = true := by decide         -- "dd"  rejected by `!.`
example : [[97, 120, 98], [97, 120, 99], [97, 121], [98, 121], [99, 121], [100], [101], [], [100, 100]].all
    (nsVerdict G G') = true := by decide

/-- The output of the MODELLED `-switch` rewrite (`optimise`) on the source grammar passes the
    end-to-end side condition, IS rewritten, and its emitted code agrees with the semantics. -/
example : (optimise G).toOption.map (noastSwitchSafe G) = some true := by decide
example : (optimise G).toOption.map (fun g => g.rules.any (fun r => SwitchTests.hasSwitch r.body)) =
    some true := by decide
example : (optimise G).toOption.map (fun g =>
    [[97, 120, 98], [97, 120, 99], [97, 121], [98, 121], [99, 121], [100], [101], [], [100, 100]].all
      (fun i => nsAgree g i && nsVerdict G g i)) = some true := by decide

/-- The side condition is not vacuous: keys that do not imply an elided character test are rejected,
    and so is a rewritten grammar whose capture is not named "PegText" (`okN`). -/
example : noastSwitchSafe G ⟨[
  ⟨"S", 0, .ipush (.seq [
      .ualt [[(97, 98)], [(98, 99)]]
        [.seq [.chr 97, .push (.chr 120) "PegText", .name "Action0", .chr 98],
         .seq [.rng 98 99, .chr 121], .chr 100],
      .peekNot .dot]) "S"⟩,
  ⟨"Action0", 1, .ipush (.act "A0") "Action0"⟩]⟩ = false := by decide
example : GrammarOKNS (Kall G') ⟨[
  ⟨"S", 0, .ipush (.ualt [[(97, 97)]] [.seq [.chr 97, .push (.chr 120) "Other"], .chr 100]) "S"⟩]⟩ = false := by
  decide

/-- A case body that starts with `.` (`position++` under `parentDetect`), with a capture around it,
    and a nested switch inside a case: still in the fragment, code and semantics agree. -/
def Gdot : Grammar := ⟨[
  ⟨"S", 0, .ipush (.seq [
      .ualt [[(97, 97)], [(98, 99)]]
        [.seq [.push .dot "PegText", .name "Action0", .chr 120],
         .seq [.ualt [[(98, 98)]] [.seq [.chr 98, .name "Action0"], .chr 99], .chr 121],
         .chr 100],
      .peekNot .dot]) "S"⟩,
  ⟨"Action0", 1, .ipush (.act "A0") "Action0"⟩]⟩

example : GrammarOKNS (Kall Gdot) Gdot = true := by decide
example : [[97, 120], [97, 121], [97], [98, 121], [98, 120], [99, 121], [100], [], [101]].all (nsAgree Gdot) =
    true := by decide

/-! OBSERVATION (why the trace is stated over the derivation in `G'`, not in `G`): under `-noast`
    an action runs when it is reached, also inside an alternative that is abandoned later.  The
    ordered choice of `G` enters such an alternative, the switch of `G'` does not when the next
    symbol is not one of its keys.  `S <- (Action0 'a' 'x' / 'b' 'y' / 'c' 'z') !.` on "by": the
    plain `-noast` parser runs `A0` (first alternative, abandoned at 'a'), the `-noast -switch`
    parser goes straight to `case 'b'` and does not.  Verdict and end position are the same
    (`C07_switch_verdict`); the inline-action traces differ — each is `reachTrace` of its own
    grammar's events (`C07_inline_actions` for `G`, `C07_switch_inline_actions` for `G'`). -/

def Gd : Grammar := ⟨[
  ⟨"S", 0, .ipush (.seq [
      .alt [.seq [.name "Action0", .chr 97, .chr 120], .seq [.chr 98, .chr 121], .seq [.chr 99, .chr 122]],
      .peekNot .dot]) "S"⟩,
  ⟨"Action0", 1, .ipush (.act "A0") "Action0"⟩]⟩

/-- What the machine leaves after running the `-noast` code emitted for `g` on `inp`. -/
def runTrace (g : Grammar) (inp : List Sym) : Option (Outcome × Nat × List (String × List Sym)) :=
  (((compileAll noastOpts g).find "S").bind
    (fun c => execF (compileAll noastOpts g) cfgN inp 200 c 0 St.init Frame.empty)).map
    (fun r => (r.1, r.2.pos, r.2.trace))

/-- TEST: the optimiser rewrites the choice of `Gd`, the result passes `noastSwitchSafe` … -/
example : (optimise Gd).toOption.map (fun g =>
    (noastSwitchSafe Gd g, g.rules.any (fun r => SwitchTests.hasSwitch r.body))) = some (true, true) := by
  decide
/-- … the attempted-token lists on "by" differ (`Action0` is attempted by `G` only) … -/
example : ((evalF Gd ρ [98, 121] 30 (.name "S") 0).map (·.2),
    (optimise Gd).toOption.map (fun g => (evalF g ρ [98, 121] 30 (.name "S") 0).map (·.2))) =
    (some [⟨"Action0", 0, 0⟩, ⟨"S", 0, 2⟩], some (some [⟨"S", 0, 2⟩])) := by decide
/-- … and so do the traces of the two emitted `-noast` parsers, with the same verdict and position. -/
example : runTrace Gd [98, 121] = some (.ret true, 2, [("A0", [])]) := by rfl
example : (optimise Gd).toOption.map (fun g => runTrace g [98, 121]) =
    some (some (.ret true, 2, [])) := by rfl
example : (optimise Gd).toOption.map (fun g =>
    [[98, 121], [97, 120], [99, 122], [97], [98], []].all (fun i => nsAgree g i && nsVerdict Gd g i)) =
    some true := by decide

end C07SwitchExample

/-- The `-noast -switch` side condition is the AST-mode one (`switchSafe`, without its `LinkedOK`
    part) plus the `-noast` fragment check on the rewritten grammar. -/
theorem noastSwitchSafe_of_switchSafe {G G' : Grammar} (h : switchSafe G G' = true)
    (hN : GrammarOKN (Kall G') G' = true) : noastSwitchSafe G G' = true := by
  simp only [switchSafe, Bool.and_eq_true] at h
  simp only [noastSwitchSafe, noastSwitchSafeK, GrammarOKNS, Bool.and_eq_true]
  exact ⟨⟨h.1.1.1, h.1.1.2, hN⟩, h.2⟩

-- The bootstrap grammar (`peg.peg` after `link`, `SwitchTests.pegG`): the optimiser's output passes
-- `switchSafe` (`#guard safeOpt pegG == some true` in C02Switch.lean) and the `-noast` fragment
-- check, hence (`noastSwitchSafe_of_switchSafe`) the `-noast -switch` end-to-end check.
#guard (optimise SwitchTests.pegG).toOption.map (fun g => GrammarOKN (Kall g) g) == some true

end PegVerif

#print axioms PegVerif.C07_switch_runs
#print axioms PegVerif.C07_switch_verdict_world
#print axioms PegVerif.C07_switch_inline_actions_filtered
#print axioms PegVerif.C07_switch_inline_actions_world
#print axioms PegVerif.noast_switch_world
#print axioms PegVerif.C07_switch_verdict
#print axioms PegVerif.C07_switch_inline_actions
#print axioms PegVerif.C07_switch_same_language_as_default
#print axioms PegVerif.C07_switch_generated_parser
#print axioms PegVerif.noastSwitchSafe_of_switchSafe
#print axioms PegVerif.RNS_all
#print axioms PegVerif.RNS_rule_all
#print axioms PegVerif.goodNS_ualt
#print axioms PegVerif.compileAll_worldNS
