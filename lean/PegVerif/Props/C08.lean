import PegVerif.Proofs.LinkLemmas
import PegVerif.Proofs.LinkSwitch
/-
  C08 — every accepted grammar yields valid Go.  The proof carries the generator's *hygiene logic*
  (Go's type checker, `go/parser` and `go/printer` are oracles in the tie, they are not modelled):
  labels are defined at most once and lie in the range the rule allocated, so no `goto` can be
  ambiguous; the dry pass and the real pass number labels identically and print the same jumps
  (with `-switch` nodes too, since the dry pass sets the parentDetect flags like the real pass —
  fix 'label defined and not used'), so every printed label is used and every jump target is printed.
-/
namespace PegVerif

/-- Labels of one emitted rule function are pairwise distinct (no "label lN already defined"). -/
theorem C08_labels_unique (env : CEnv) (r : Rule) (b : Expr) (ko : Nat) (st : CSt) (h : ko < st.label) :
    Uniq (ruleFunc env r b ko st).1 :=
  ruleFunc_uniq env r b ko st h

/-- The label counter after compiling an expression does not depend on which labels are printed,
    on the failure label or on the parent-detect flags: the dry pass and the real pass agree on
    every label number. -/
theorem C08_dry_real_same_numbering (env env' : CEnv) (e : Expr) (ko ko' : Nat) (pd pmk pd' pmk' : Bool)
    (st : CSt) : (compile env e ko pd pmk st).st = (compile env' e ko' pd' pmk' st).st :=
  compile_st_indep env env' e ko ko' pd pmk pd' pmk' st

/-- Without `-switch` nodes the two passes print the same jumps, so `labels[n]` recorded by the dry
    pass is exactly "some jump to ln is printed": no "label defined and not used", no jump to a
    missing label. -/
theorem C08_dry_real_same_jumps (env env' : CEnv) (ha : env.always = env'.always) (e : Expr) (ko : Nat)
    (pd pmk : Bool) (st : CSt) (h : e.noUalt = true) :
    jumps (compile env e ko pd pmk st).code = jumps (compile env' e ko pd pmk st).code :=
  compile_jumps_indep env env' ha e ko pd pmk st h

/-- With `-switch` nodes as well (any expression): a label is jumped to in the real pass exactly
    when it is in the dry pass, so `printLabel` prints exactly the labels that are used.  (Before
    the fix of F-C08-2 the dry pass compiled case bodies without the parentDetect flags and only
    the inclusion real ⊆ dry held: "label lN defined and not used".) -/
theorem C08_dry_real_same_jumps_switch (env env' : CEnv) (ha : env.always = env'.always) (e : Expr)
    (ko : Nat) (pd pmk : Bool) (st : CSt) (l : Nat) :
    l ∈ jumps (compile env e ko pd pmk st).code ↔ l ∈ jumps (compile env' e ko pd pmk st).code :=
  ⟨fun h => compile_jumps_sub env env' ha e ko pd pmk st h,
   fun h => compile_jumps_sub env' env ha.symm e ko pd pmk st h⟩

/-- Switch labels (`case` entry points and the end of the `switch`) are unique per function. -/
theorem C08_switch_labels_unique (env : CEnv) (r : Rule) (b : Expr) (ko : Nat) (st : CSt) :
    SUniq (ruleFunc env r b ko st).1 :=
  ruleFunc_suniq env r b ko st

end PegVerif

#print axioms PegVerif.C08_dry_real_same_jumps_switch
#print axioms PegVerif.C08_switch_labels_unique
#print axioms PegVerif.C08_labels_unique
#print axioms PegVerif.C08_dry_real_same_numbering
#print axioms PegVerif.C08_dry_real_same_jumps
