/-
  C09 — generation is deterministic and race-free (logic core + facts regenerated from the source).

  `Generated/Footprints.lean` is rewritten by `harness/cmd/facts` from the CURRENT `tree/peg.go`
  on every run.  The theorems below are stated about those lists; when the source changes so that
  the two `wg.Go` closures of `(*Tree).Compile` share a written location, a map is iterated, a
  package-level variable is assigned or the extractor meets something it cannot classify, the
  `decide` proofs stop elaborating and the build fails.

  What is proved here
  * the extracted footprints satisfy Bernstein's conditions (`C09_analyses_disjoint`), so for ANY two
    deterministic threads that respect these footprints EVERY complete interleaving ends in the same
    state, namely that of running the first analysis to completion and then the second
    (`C09_analyses_schedule_independent`, `C09_analyses_sequential`), and no two steps of the two
    threads touch a common location with a write involved (`C09_analyses_race_free`);
  * nothing reachable from `Compile` iterates over a map, calls a clock/random/environment source
    or writes a package-level variable (`C09_no_map_iteration`, `C09_no_nondet_calls`,
    `C09_no_pkg_state`), so concurrent generations on independent trees are a product of confined
    components (`C09_independent_generations`).

  What is ASSUMED (not provable with what is installed)
  1. Go's memory model: a data-race-free program behaves sequentially consistently (DRF-SC), i.e. as
     some interleaving of atomic steps (`Sched.run`); `sync.WaitGroup.Go/Wait` order the closures
     after the code before `wg.Go` and before the code after `wg.Wait`.
  2. Soundness of the extractor: the real closures respect the extracted footprints (`Respects`),
     with locations abstracted as documented in `harness/cmd/facts` (type-based struct fields, one
     location per captured local, thread-local allocations excluded) and the external functions
     listed in `Generated.gCalledExternals` touching only their arguments.  Supported dynamically by
     `harness/cmd/racex` (race detector, GOMAXPROCS 1/2/16, byte-identical outputs).
  3. The rest of `Compile` is sequential and deterministic: covered by the deterministic Lean model
     of `Compile` (a function of grammar, options, args) — a separate part of the project; the
     extractor checks that the main goroutine does nothing between the first `wg.Go` and `wg.Wait`
     and that no other goroutine is started (else `unknownConstructs ≠ []`).
-/
import PegVerif.Proofs.SchedLemmas
import PegVerif.Generated.Footprints

namespace PegVerif
open Sched Generated

/-- The extractor classified every construct inside the two closures (it fails closed). -/
theorem C09_extractor_closed : unknownConstructs = [] := by decide

/-- Bernstein's conditions hold for the footprints extracted from the current source:
    `W₁ ∩ (R₂ ∪ W₂) = ∅` and `W₂ ∩ (R₁ ∪ W₁) = ∅`. -/
theorem C09_analyses_disjoint : Bernstein2 g1Reads g1Writes g2Reads g2Writes := by decide

/-- Every complete interleaving of the two analyses yields the same state. -/
theorem C09_analyses_schedule_independent {V : Type} {t₁ t₂ : Thread V}
    (h₁ : Respects t₁ g1Reads g1Writes) (h₂ : Respects t₂ g2Reads g2Writes)
    {s s' : List Bool} {σ : State V}
    (hc : Complete (two t₁ t₂) s σ) (hc' : Complete (two t₁ t₂) s' σ) :
    run (two t₁ t₂) s σ = run (two t₁ t₂) s' σ :=
  interleave_indep2 h₁ h₂ C09_analyses_disjoint hc hc'

/-- ... and that state is the one of the sequential program "first analysis, then second". -/
theorem C09_analyses_sequential {V : Type} {t₁ t₂ : Thread V}
    (h₁ : Respects t₁ g1Reads g1Writes) (h₂ : Respects t₂ g2Reads g2Writes)
    {s : List Bool} {σ : State V} (hc : Complete (two t₁ t₂) s σ) :
    ∃ k₁ k₂, t₁.Done (solo t₁ k₁ σ) ∧ t₂.Done (solo t₂ k₂ (solo t₁ k₁ σ)) ∧
      run (two t₁ t₂) s σ = solo t₂ k₂ (solo t₁ k₁ σ) :=
  interleave_seq2 h₁ h₂ C09_analyses_disjoint hc

/-- No data race between the analyses at the level of abstract locations. -/
theorem C09_analyses_race_free :
    ¬ ∃ i j l, Conflict (twoL g1Reads g2Reads) (twoL g1Writes g2Writes) i j l :=
  no_conflict (bernstein_two C09_analyses_disjoint)

/-- Semantic form: whatever one analysis really changes, the other neither reads nor writes. -/
theorem C09_analyses_race_free_sem {V : Type} {t₁ t₂ : Thread V}
    (h₁ : Respects t₁ g1Reads g1Writes) (h₂ : Respects t₂ g2Reads g2Writes)
    {σ : State V} {l : Loc} :
    (WritesAt t₁ σ l → Ignores t₂ g2Writes l) ∧ (WritesAt t₂ σ l → Ignores t₁ g1Writes l) :=
  ⟨fun hw => no_conflict_sem (T := two t₁ t₂) (respects_two h₁ h₂)
      (bernstein_two C09_analyses_disjoint) (i := false) (j := true) (by decide) hw,
   fun hw => no_conflict_sem (T := two t₁ t₂) (respects_two h₁ h₂)
      (bernstein_two C09_analyses_disjoint) (i := true) (j := false) (by decide) hw⟩

/-- Nothing reachable from `Compile` iterates over a map (Go randomises that order). -/
theorem C09_no_map_iteration : compileMapRanges = [] := by decide

/-- Nothing reachable from `Compile` asks a clock, a random source, the environment, ... -/
theorem C09_no_nondet_calls : compileNondetCalls = [] := by decide

/-- No package-level variable of the generator is written outside initialisation. -/
theorem C09_no_pkg_state : treePkgVarWrites = [] := by decide

/-- Concurrent generations of independent trees: given that (as extracted) `Compile` keeps no
    package-level state, the generations form a product of confined components, and what each one
    produces does not depend on the others or on the interleaving. -/
theorem C09_independent_generations {ι S : Type} [DecidableEq ι] {g : PSys ι S}
    (sound : treePkgVarWrites = [] → Confined g) (i : ι) (s : List ι) (σ τ : ι → S)
    (h : σ i = τ i) : prun g s σ i = prun g (s.filter (· = i)) τ i :=
  product_noninterference (sound C09_no_pkg_state) i s σ τ h

/-! ### Non-vacuity: a concrete system with the generated footprints -/

namespace C09Example

def upd (σ : State Nat) (l : Loc) (v : Nat) : State Nat := fun l' => if l' = l then v else σ l'

/-- "count": reads `Tree.Rules`, writes `local:usage` once. -/
def t₁ : Thread Nat :=
  ⟨fun σ => if σ "local:usage" = 0 then some (upd σ "local:usage" (σ "Tree.Rules" + 1)) else none⟩

/-- "check": reads `Tree.Rules`, appends to `Tree.werr` once. -/
def t₂ : Thread Nat :=
  ⟨fun σ => if σ "Tree.werr" = 0 then some (upd σ "Tree.werr" (σ "Tree.Rules" + 7)) else none⟩

theorem respects₁ : Respects t₁ g1Reads g1Writes := by
  constructor
  · intro σ σ' hs l hl
    have hne : l ≠ "local:usage" := fun h => hl (h ▸ by decide)
    simp only [t₁] at hs
    split at hs
    · cases hs; simp [upd, hne]
    · cases hs
  · intro σ τ hA
    have hu : σ "local:usage" = τ "local:usage" := hA _ (by decide)
    have hr : σ "Tree.Rules" = τ "Tree.Rules" := hA _ (by decide)
    simp only [t₁, hu, hr]
    by_cases h : τ "local:usage" = 0
    · simp only [h, if_true]
      intro l hl
      have := hA l (List.mem_append_right _ hl)
      simp [upd, this]
    · simp [h]

theorem respects₂ : Respects t₂ g2Reads g2Writes := by
  constructor
  · intro σ σ' hs l hl
    have hne : l ≠ "Tree.werr" := fun h => hl (h ▸ by decide)
    simp only [t₂] at hs
    split at hs
    · cases hs; simp [upd, hne]
    · cases hs
  · intro σ τ hA
    have hu : σ "Tree.werr" = τ "Tree.werr" := hA _ (by decide)
    have hr : σ "Tree.Rules" = τ "Tree.Rules" := hA _ (by decide)
    simp only [t₂, hu, hr]
    by_cases h : τ "Tree.werr" = 0
    · simp only [h, if_true]
      intro l hl
      have := hA l (List.mem_append_right _ hl)
      simp [upd, this]
    · simp [h]

def σ₀ : State Nat := fun l => if l = "Tree.Rules" then 4 else 0

theorem complete_ab : Complete (two t₁ t₂) [false, true] σ₀ := by
  intro i; cases i <;> simp [Thread.Done, run, two, Thread.stepT, t₁, t₂, upd, σ₀]

theorem complete_ba : Complete (two t₁ t₂) [true, false, true] σ₀ := by
  intro i; cases i <;> simp [Thread.Done, run, two, Thread.stepT, t₁, t₂, upd, σ₀]

/-- The hypotheses of the C09 theorems are satisfiable with the generated footprints, and the
    common result is the expected one. -/
example : run (two t₁ t₂) [false, true] σ₀ = run (two t₁ t₂) [true, false, true] σ₀ :=
  C09_analyses_schedule_independent respects₁ respects₂ complete_ab complete_ba

example : run (two t₁ t₂) [true, false, true] σ₀ "local:usage" = 5 ∧
    run (two t₁ t₂) [true, false, true] σ₀ "Tree.werr" = 11 := by
  simp [run, two, Thread.stepT, t₁, t₂, upd, σ₀]

/-- Teeth: when the footprints overlap (the second thread reads what the first writes), Bernstein's
    conditions are refuted by `decide` and the two orders really differ. -/
def bad₂ : Thread Nat :=
  ⟨fun σ => if σ "Tree.werr" = 0 then some (upd σ "Tree.werr" (σ "local:usage" + 7)) else none⟩

example : ¬ Bernstein2 g1Reads g1Writes ("local:usage" :: g2Reads) g2Writes := by decide
example : ¬ Bernstein2 g1Reads g1Writes g2Reads ("local:usage" :: g2Writes) := by decide

example : run (two t₁ bad₂) [false, true] σ₀ "Tree.werr" ≠
    run (two t₁ bad₂) [true, false] σ₀ "Tree.werr" := by
  simp [run, two, Thread.stepT, t₁, bad₂, upd, σ₀]

end C09Example

end PegVerif

#print axioms PegVerif.C09_extractor_closed
#print axioms PegVerif.C09_analyses_disjoint
#print axioms PegVerif.C09_analyses_schedule_independent
#print axioms PegVerif.C09_analyses_sequential
#print axioms PegVerif.C09_analyses_race_free
#print axioms PegVerif.C09_analyses_race_free_sem
#print axioms PegVerif.C09_no_map_iteration
#print axioms PegVerif.C09_no_nondet_calls
#print axioms PegVerif.C09_no_pkg_state
#print axioms PegVerif.C09_independent_generations
#print axioms PegVerif.Sched.interleave_indep
#print axioms PegVerif.Sched.no_conflict
