import PegVerif.Proofs.FrontLemmas
import PegVerif.Proofs.FrontHex
import PegVerif.Proofs.FrontFold
import PegVerif.Props.C10Escapes
/-
  C10 — the front end (reader of `.peg` texts).

  Every theorem below is about `frontModel` / `frontChar`, i.e. about
      PEG semantics (`evalF`) of `pegFrontRules`  +  runtime `Execute()`  +  builder model,
  where `pegFrontRules` is REGENERATED from /repo/peg.peg by bin/genpeggrammar.py before every
  build.  So the statements are re-checked against the current grammar of the .peg language on
  every run; T-front (bin/tfront.py) ties `frontModel` to the real front end text by text.

  Three kinds of statements:
   (E) evaluations certified by the kernel (`kernel_rfl`: `Eq.refl`, the kernel normalises both
       sides — no `native_decide`): the whole finite escape table, and one representative text per
       documented construct.  These are TESTS with a kernel certificate, not universally
       quantified round-trip theorems.
   (U) universal theorems about the builder (all stacks, all digit strings, case folding of every
       rune) and about the model front end (soundness w.r.t. the relational PEG semantics, fuel
       irrelevance); `DoubleChar` on every raw character.
   (S) structural facts about the regenerated rules (precedence chain), by inspection.

  NOT proved: `frontModel (render a sp) = denote a` for all abstract grammars `a` and spellings
  `sp` (the universally quantified round trip), and that every derivation of `Grammar` yields a
  balanced builder call sequence.  Both are only tested (T-front).
-/
namespace PegVerif

/-! ## vocabulary for expected trees -/

def chrN (c : Char) : Node := .leaf .character [c.toNat]
def cpN (c : Sym) : Node := .leaf .character [c]
def seqN (ks : List Node) : Node := .mk .sequence [] 0 ks
def altN (ks : List Node) : Node := .mk .alternate [] 0 ks
def rangeN (lo hi : Char) : Node := .mk .range [] 0 [chrN lo, chrN hi]
def dotN : Node := .leaf .dot [46]
def nilN : Node := .leaf .nil (symsOf "<nil>")
def nameN (s : String) : Node := .leaf .name (symsOf s)
def peekForN (k : Node) : Node := .mk .peekFor [] 0 [k]
def peekNotN (k : Node) : Node := .mk .peekNot [] 0 [k]
def queryN (k : Node) : Node := .mk .query [] 0 [k]
def starN (k : Node) : Node := .mk .star [] 0 [k]
def plusN (k : Node) : Node := .mk .plus [] 0 [k]
def pushN (k : Node) : Node := .mk .push [] 0 [k]
def actionN (s : String) : Node := .leaf .action (symsOf s)
def predicateN (s : String) : Node := .leaf .predicate (symsOf s)
def stateChangeN (s : String) : Node := .leaf .stateChange (symsOf s)
def ruleN (name : String) (id : Nat) (body : Node) : Node := .mk .rule (symsOf name) id [body]

/-- The bodies of the rules in a front-end result (`none`: not accepted). -/
def bodies : FrontResult → Option (List Node)
  | .ok top => some ((top.filter (fun n => n.t == .rule)).flatMap (·.kids))
  | _ => none

/-- Rule bodies the front end builds for a text (fuel 4000 is ample for the short texts below;
    by `frontCore_fuel_irrelevant` the answer does not depend on it). -/
def front (text : String) : Option (List Node) := bodies (frontModel (symsOf text) 4000)
noncomputable def frontK (text : String) : Option (List Node) :=
  bodies (frontCore pegLinked.G pegActs pegTable pegEntry (symsOf text) 4000)
theorem front_eq (text : String) : front text = frontK text := by
  unfold front frontK; rw [frontModel_eq]

/-- The whole result (header, package, imports, Peg, rules). -/
def frontAll (text : String) : FrontResult := frontModel (symsOf text) 4000
noncomputable def frontAllK (text : String) : FrontResult :=
  frontCore pegLinked.G pegActs pegTable pegEntry (symsOf text) 4000
theorem frontAll_eq (text : String) : frontAll text = frontAllK text := by
  unfold frontAll frontAllK; rw [frontModel_eq]

def isSyntaxError : FrontResult → Bool
  | .syntaxError => true
  | _ => false

/-! ## (E) the escape table (defined and evaluated in Props/C10Escapes.lean) -/

/-- C10, escapes: EVERY named escape spelling, EVERY octal spelling (1, 2 and 3 digits, 0–0377)
    and the representative hex spellings denote the stated code point, and the hex spellings whose
    value is no code point (`hexRows_errors`: 44 rows) are reported with the error naming them
    (`hexDen`).  Evaluated by the kernel
    on rule `Escape` of the regenerated grammar (within the full linked grammar, with the real
    action code of peg.peg interpreted against the builder model). -/
theorem C10_escape_table : ∀ row ∈ escTable, frontChar row.1 = some row.2 := by
  intro row hrow
  rw [frontChar_eq]
  exact eq_of_beq (List.all_eq_true.mp escTable_checked row hrow)

theorem C10_non_escapes : ∀ sp ∈ nonEscapes, frontChar sp = none := by
  intro sp hsp
  rw [frontChar_eq]
  exact eq_of_beq (List.all_eq_true.mp nonEscapes_checked sp hsp)

/-- C10, escapes in a CASE-INSENSITIVE position (one character of a double-quoted literal or of a
    `[[…]]` class, rule `DoubleChar`): EVERY spelling of the escape table that denotes a code point
    `c` becomes `foldNode c` — the choice lower / upper when `c` is a letter (`\101`, `\0x61`,
    `\0X3B1`, …), the plain character when it has no case; a spelling that is reported is reported
    here too (no node).  Evaluated by the kernel on rule `DoubleChar` of the regenerated grammar. -/
theorem C10_caseFold_escapes : ∀ row ∈ escTable,
    (∀ c, row.2 = .cp c → frontFold row.1 = some (foldNode c)) ∧
    (∀ msgs, row.2 = .err msgs → frontFold row.1 = none) := by
  intro row hrow
  rw [frontFold_eq]
  have h := List.all_eq_true.mp escTable_fold_checked row hrow
  refine ⟨fun c hc => ?_, fun msgs hm => ?_⟩
  · rw [hc] at h
    simp only at h
    split at h
    · next n hn => rw [hn, Node.eq_of_beq _ _ h]
    · cases h
  · rw [hm] at h
    simp only at h
    cases hf : frontFoldCore pegLinked.G pegActs pegTable row.1 with
    | none => rfl
    | some n => rw [hf] at h; cases h

/-! ## (E) one representative text per documented construct -/

/-- Single-quoted literals are case-sensitive: one Character per rune, exactly as written. -/
theorem C10_literal_case :
    front "package p\ntype T Peg {}\nr <- 'aB' 'c'\n" =
      some [seqN [chrN 'a', chrN 'B', chrN 'c']] := by
  rw [front_eq]; kernel_rfl

/-- Double-quoted literals are case-insensitive: EVERY character that has two cases becomes the
    choice lower/upper — a raw ASCII letter, a letter outside ASCII (`é`, `Ω`), a letter written as
    an escape (`\0x61`, `\102`); a title case letter (`ǅ`) keeps itself as a third form; a character
    without case (digit, punctuation, `汉`, `ß`, the escape `\n`) stays the plain character. -/
theorem C10_dquote_ci :
    front "package p\ntype T Peg {}\nr <- \"aB1\"\ns <- \"é\\0x61\\102Ω\"\nt <- \"ǅ-汉ß\\n\"\n" =
      some [seqN [altN [chrN 'a', chrN 'A'], altN [chrN 'b', chrN 'B'], chrN '1'],
            seqN [altN [chrN 'é', chrN 'É'], altN [chrN 'a', chrN 'A'], altN [chrN 'b', chrN 'B'],
                  altN [chrN 'ω', chrN 'Ω']],
            seqN [altN [chrN 'ǆ', chrN 'Ǆ', chrN 'ǅ'], chrN '-', chrN '汉', chrN 'ß', chrN '\n']] := by
  rw [front_eq]; kernel_rfl

/-- Classes: `[a-c]` is a range, `[ab]` an alternation of characters, mixed classes alternate
    their items in order; escapes work as items and as range bounds. -/
theorem C10_class :
    front "package p\ntype T Peg {}\nr <- [a-c]\ns <- [ab]\nt <- [x0-9\\n\\-\\]]\nu <- [\\101-\\0x43]\n" =
      some [rangeN 'a' 'c', altN [chrN 'a', chrN 'b'],
            altN [chrN 'x', rangeN '0' '9', chrN '\n', chrN '-', chrN ']'], rangeN 'A' 'C'] := by
  rw [front_eq]; kernel_rfl

/-- `[^…]` negates: not-followed-by the class, then any character. -/
theorem C10_negclass :
    front "package p\ntype T Peg {}\nr <- [^ab]\ns <- [^a-z]\n" =
      some [seqN [peekNotN (altN [chrN 'a', chrN 'b']), dotN], seqN [peekNotN (rangeN 'a' 'z'), dotN]] := by
  rw [front_eq]; kernel_rfl

/-- `[[…]]` classes are case-insensitive (letters and ranges in both cases), `[[^…]]` negates; the
    letters may be outside ASCII or written as escapes, as items (`[[é\141]]`) and as range bounds
    (`[[à-þ]]`, `[[\0x61-\172]]`). -/
theorem C10_ci_class :
    front "package p\ntype T Peg {}\nr <- [[a-c]]\ns <- [[x1]]\nt <- [[^A-Z]]\nu <- [[é\\141]]\nv <- [[à-þ]]\nw <- [[\\0x61-\\172]]\n" =
      some [altN [rangeN 'a' 'c', rangeN 'A' 'C'], altN [chrN 'x', chrN 'X', chrN '1'],
            seqN [peekNotN (altN [rangeN 'a' 'z', rangeN 'A' 'Z']), dotN],
            altN [chrN 'é', chrN 'É', altN [chrN 'a', chrN 'A']],
            altN [rangeN 'à' 'þ', rangeN 'À' 'Þ'], altN [rangeN 'a' 'z', rangeN 'A' 'Z']] := by
  rw [front_eq]; kernel_rfl

/-- Both arrow spellings (`<-` and U+2190) give the same rule. -/
theorem C10_arrows :
    front "package p\ntype T Peg {}\nr <- a\n" = some [nameN "a"] ∧
    front "package p\ntype T Peg {}\nr \u2190 a\n" = some [nameN "a"] ∧
    front "package p\ntype T Peg {}\nr<-a s\u2190b\n" = some [nameN "a", nameN "b"] := by
  refine ⟨?_, ?_, ?_⟩ <;> (rw [front_eq]; kernel_rfl)

/-- `#` and `//` comments are equivalent, between tokens, on their own line and with any line end;
    comments and blank lines before `package` are kept as Comment / Space nodes. -/
theorem C10_comments :
    front "package p # c\ntype T // c\r\n Peg {}\nr <- a # x\r b // y\n# z\n" = some [seqN [nameN "a", nameN "b"]] ∧
    front "package p // c\ntype T # c\r\n Peg {}\nr <- a // x\r b # y\n// z\n" = some [seqN [nameN "a", nameN "b"]] ∧
    frontAll "# one\n//two\r\n\n package p\ntype T Peg {}\nr <- a\n" =
      .ok [.leaf .comment (symsOf " one"), .leaf .comment (symsOf "two"), .leaf .space (symsOf "\n "),
           .leaf .package (symsOf "p"), .mk .peg (symsOf "T") 0 [.leaf .state []],
           ruleN "r" 0 (nameN "a")] := by
  refine ⟨?_, ?_, ?_⟩
  · rw [front_eq]; kernel_rfl
  · rw [front_eq]; kernel_rfl
  · rw [frontAll_eq]; kernel_rfl

/-- Imports keep path and alias (an alias is the node `=alias` in front of its path), single and
    grouped; the parser state keeps its text including nested braces. -/
theorem C10_imports :
    frontAll "package p\nimport \"fmt\"\nimport t \"a/b-c.d\"\nimport (\n\"os\"\n x \"y\"\n)\ntype T Peg { m map[int]struct{} }\nr <- a\n" =
      .ok [.leaf .package (symsOf "p"), .leaf .import_ (symsOf "fmt"), .leaf .import_ (symsOf "=t"),
           .leaf .import_ (symsOf "a/b-c.d"), .leaf .import_ (symsOf "os"), .leaf .import_ (symsOf "=x"),
           .leaf .import_ (symsOf "y"),
           .mk .peg (symsOf "T") 0 [.leaf .state (symsOf " m map[int]struct{} ")],
           ruleN "r" 0 (nameN "a")] := by
  rw [frontAll_eq]; kernel_rfl

/-- Actions keep their text; nested braces are balanced; `&{}` is a predicate, `!{}` a state
    change, `<…>` a capture. -/
theorem C10_actions :
    front "package p\ntype T Peg {}\nr <- <a> { if x { y() } } &{ ok() } !{ n++ }\n" =
      some [seqN [pushN (nameN "a"), actionN " if x { y() } ", predicateN " ok() ",
                  stateChangeN " n++ "]] := by
  rw [front_eq]; kernel_rfl

/-- Precedence: alternation < sequence < prefix < suffix; parentheses group; a trailing `/` adds
    the empty alternative; an empty body is the empty expression. -/
theorem C10_precedence :
    front "package p\ntype T Peg {}\nr <- a b / !c* d+ / &(e / f)? .\ns <- a /\nt <-\nu <- (a b) c (d e)\n" =
      some [altN [seqN [nameN "a", nameN "b"],
                  seqN [peekNotN (starN (nameN "c")), plusN (nameN "d")],
                  seqN [peekForN (queryN (altN [nameN "e", nameN "f"])), dotN]],
            altN [nameN "a", nilN], nilN,
            seqN [nameN "a", nameN "b", nameN "c", seqN [nameN "d", nameN "e"]]] := by
  rw [front_eq]; kernel_rfl

/-- A hex escape without a code point (surrogate, above U+10FFFF, beyond int32 / uint64) anywhere a
    character can stand — literal, class item, range bound, case-insensitive forms — makes the front
    end report the text: `Compile` returns one error per such escape, in text order, naming it as
    written (`\0X…` is named `\0x…`); the neighbouring valid escapes (`\0xd7ff`, `\0x10FFFF`,
    `\377`) are not reported. -/
theorem C10_hex_no_codepoint_reported :
    frontAll "package p\ntype T Peg {}\nr <- '\\0xd800'\n" = .invalid [hexErrMsg (symsOf "d800")] ∧
    frontAll "package p\ntype T Peg {}\nr <- 'a\\0x110000' \"\\0XDFFF\" [\\0xd7ff-\\0xffffffff] [[x\\0x0080000000]] '\\0x10FFFF\\377'\ns <- [^\\0xffffffffffffffffffff]\n" =
      .invalid [hexErrMsg (symsOf "110000"), hexErrMsg (symsOf "DFFF"), hexErrMsg (symsOf "ffffffff"),
                hexErrMsg (symsOf "0080000000"), hexErrMsg (symsOf "ffffffffffffffffffff")] ∧
    front "package p\ntype T Peg {}\nr <- '\\0xd7ff' [\\0xe000-\\0x10FFFF] '\\377'\n" =
      some [seqN [cpN 0xd7ff, .mk .range [] 0 [cpN 0xe000, cpN 0x10ffff], cpN 255]] := by
  refine ⟨?_, ?_, ?_⟩
  · rw [frontAll_eq]; kernel_rfl
  · rw [frontAll_eq]; kernel_rfl
  · rw [front_eq]; kernel_rfl

/-- Text that is not a grammar is a syntax error: representative malformed texts, including the
    empty literal / class shapes that used to yield an empty parser. -/
theorem C10_rejects :
    ([ "", "package p\n", "package p\ntype T Peg {}\n", "package p\ntype T Peg {}\nr <- ''\n",
       "package p\ntype T Peg {}\nr <- \"\"\n", "package p\ntype T Peg {}\nr <- []\n",
       "package p\ntype T Peg {}\nr <- [[]]\n", "package p\ntype T Peg {}\nr <- (a\n",
       "package p\ntype T Peg {}\nr <- 'a\n", "package p\ntype T Peg {}\nr a\n",
       "package p\ntype T Peg {}\nr <- a**\n", "package p\ntype T Peg {}\nr <- {\n",
       "package p\ntype T Peg {}\nr <- '\\q'\n", "package p\ntype T Peg {\nr <- a\n" ].all
      (fun t => isSyntaxError (frontAll t))) = true := by
  have h : ([ "", "package p\n", "package p\ntype T Peg {}\n", "package p\ntype T Peg {}\nr <- ''\n",
       "package p\ntype T Peg {}\nr <- \"\"\n", "package p\ntype T Peg {}\nr <- []\n",
       "package p\ntype T Peg {}\nr <- [[]]\n", "package p\ntype T Peg {}\nr <- (a\n",
       "package p\ntype T Peg {}\nr <- 'a\n", "package p\ntype T Peg {}\nr a\n",
       "package p\ntype T Peg {}\nr <- a**\n", "package p\ntype T Peg {}\nr <- {\n",
       "package p\ntype T Peg {}\nr <- '\\q'\n", "package p\ntype T Peg {\nr <- a\n" ].all
      (fun t => isSyntaxError (frontAllK t))) = true := by kernel_rfl
  simpa only [frontAll_eq] using h

/-! ## (S) precedence as a property of the regenerated rules -/

mutual
  /-- Rule names an expression refers to, in order. -/
  def Expr.refs : Expr → List String
    | .name n => [n]
    | .inl _ e => e.refs
    | .seq es => Expr.refsL es
    | .alt es => Expr.refsL es
    | .ualt _ es => Expr.refsL es
    | .peekFor e => e.refs
    | .peekNot e => e.refs
    | .query e => e.refs
    | .star e => e.refs
    | .plus e => e.refs
    | .push e _ => e.refs
    | .ipush e _ => e.refs
    | _ => []
  def Expr.refsL : List Expr → List String
    | [] => []
    | e :: es => e.refs ++ Expr.refsL es
end

def refsOf (rule : String) : Option (List String) :=
  ((Grammar.mk pegFrontRules).body rule).map Expr.refs

/-- The precedence chain of the grammar of the .peg language, read off the regenerated rules:
    `Expression` is built from `Sequence`s separated by `Slash`; `Sequence` from `Prefix`es;
    `Prefix` is `And`/`Not` applied to an `Action` or ONE `Suffix`; `Suffix` is ONE `Primary` with
    at most one of `Question`/`Star`/`Plus`; `Primary` re-enters `Expression` only between
    `Open … Close` and `Begin … End`.  Hence alternation < sequence < prefix < suffix < primary. -/
theorem C10_precedence_chain :
    refsOf "Expression" = some ["Sequence", "Slash", "Sequence", "Slash"] ∧
    refsOf "Sequence" = some ["Prefix", "Prefix"] ∧
    refsOf "Prefix" = some ["And", "Action", "Not", "Action", "And", "Suffix", "Not", "Suffix", "Suffix"] ∧
    refsOf "Suffix" = some ["Primary", "Question", "Star", "Plus"] ∧
    refsOf "Primary" = some ["Identifier", "LeftArrow", "Open", "Expression", "Close", "Literal",
      "Class", "Dot", "Action", "Begin", "Expression", "End"] := by
  refine ⟨?_, ?_, ?_, ?_, ?_⟩ <;> kernel_rfl

/-- The exact bodies of the two list-building rules (which builder call follows which operand). -/
theorem C10_list_rules :
    (Grammar.mk pegFrontRules).body "Expression" = some (.alt [.seq [.name "Sequence",
        .star (.seq [.name "Slash", .name "Sequence", .act " p.AddAlternate() "]),
        .query (.seq [.name "Slash", .act " p.AddNil(); p.AddAlternate() "])], .act " p.AddNil() "]) ∧
    (Grammar.mk pegFrontRules).body "Sequence" = some (.seq [.name "Prefix",
        .star (.seq [.name "Prefix", .act " p.AddSequence() "])]) := by
  refine ⟨?_, ?_⟩ <;> kernel_rfl

/-! ## (U) universal theorems (proved in Proofs/FrontLemmas.lean), restated -/

/-- What `AddAlternate` / `AddSequence` / `AddRange` build, for ANY stack with two entries. -/
theorem C10_builder_addList_flatten (ty : NType) (a b : Node) (rest : List Node) (n : Nat)
    (es : List (List Sym)) :
    addList ty ⟨a :: b :: rest, n, es⟩ =
      .ok ⟨(if b.t = ty then b.pushBack a else Node.mk ty [] 0 [b, a]) :: rest, n, es⟩ :=
  builder_addList_flatten ty a b rest n es

/-- `PopFront` never hits the empty deque on a balanced call sequence: the sequence COMPLETES (so it
    neither panics nor leaves the modelled fragment — every builder call is modelled on every string,
    `strings.ToLower` / `ToUpper` included); and an unbalanced one PANICS with "tree is empty". -/
theorem C10_builder_never_panics_on_balanced (ops : List Op) (st : BState) :
    (balanced ops st.items.length = true → ∃ st', applyOps ops st = .ok st') ∧
    (balanced ops st.items.length = false → applyOps ops st = .panic "tree is empty") :=
  ⟨builder_balanced_completes ops st, builder_unbalanced_panics ops st⟩

/-- `AddCaseFold()` for ANY node `c` on top of ANY deque: `c` stays when `strings.ToLower` and
    `strings.ToUpper` of its string agree; otherwise it becomes the choice of the two strings, followed
    by `c` itself when its string is neither of them. -/
theorem C10_builder_caseFold (c : Node) (rest : List Node) (n : Nat) (es : List (List Sym)) :
    (Op.addCaseFold).apply ⟨c :: rest, n, es⟩ =
      .ok ⟨(if toLowerS c.s = toUpperS c.s then c
            else if c.s ≠ toLowerS c.s ∧ c.s ≠ toUpperS c.s then
              Node.mk .alternate [] 0
                [.leaf .character (toLowerS c.s), .leaf .character (toUpperS c.s), c]
            else Node.mk .alternate [] 0
                [.leaf .character (toLowerS c.s), .leaf .character (toUpperS c.s)]) :: rest, n, es⟩ :=
  builder_addCaseFold c rest n es

/-- … in particular after `Char` has pushed ONE character `r`, for EVERY rune `r` (raw or the value of
    an escape): `foldNode r` = the plain character when `r` has no case (`unicode.ToLower r =
    unicode.ToUpper r`), else `lower / upper`, and `lower / upper / r` for a title case `r`. -/
theorem C10_caseFold_char (r : Sym) (rest : List Node) (n : Nat) (es : List (List Sym)) :
    (Op.addCaseFold).apply ⟨cpN r :: rest, n, es⟩ = .ok ⟨foldNode r :: rest, n, es⟩ :=
  builder_addCaseFold_char r rest n es

/-- ASCII: a letter becomes lower/upper — exactly the tree `<[a-zA-Z]> { p.AddDoubleCharacter(text) }`
    used to build, so grammars written with raw ASCII letters generate the parsers they did — and
    every other ASCII character (digit, punctuation, control) stays ONE plain character. -/
theorem C10_caseFold_ascii (c : Sym) (h : c ≤ 127) :
    foldNode c =
      if 97 ≤ c ∧ c ≤ 122 then altN [cpN c, cpN (c - 32)]
      else if 65 ≤ c ∧ c ≤ 90 then altN [cpN (c + 32), cpN c]
      else cpN c :=
  foldNode_ascii c h

/-- Case-insensitivity for EVERY raw character, at the level of the regenerated grammar (relational
    PEG semantics, so no fuel): rule `DoubleChar` — one character of a double-quoted literal or of a
    `[[…]]` class — consumes any character `c` other than the backslash (whatever follows), and
    `Execute()` on the resulting tokens, with the action code of peg.peg run against the builder
    model, ends with exactly the node `foldNode c` and no error: the plain character when `c` has no
    case, `lower / upper` when it has one, `lower / upper / c` for a title case letter.  By
    `Eval_det` this derivation is the only one.  (Characters written as escapes:
    `C10_caseFold_escapes`.) -/
theorem C10_caseFold_raw_all (c : Sym) (hc : c ≠ 92) (tl : List Sym) :
    ∃ forest evs,
      Eval pegLinked.G (fun _ _ => false) (c :: tl) (.name "DoubleChar") 0 (.ok 1 forest) evs ∧
      (execute pegActs (c :: tl) (postorderL forest)).map
          (fun e => runEvents pegTable e BState.init) = some (.ok ⟨[foldNode c], 0, []⟩) := by
  obtain ⟨evs, he⟩ := doubleChar_raw_eval c hc tl
  exact ⟨_, evs, he, doubleChar_raw_actions c tl⟩

/-- The case table the model searches (`unicode.CaseRanges`, regenerated from the Go library) is
    sorted with disjoint non-empty ranges, so at most one range holds a rune and the model's search
    finds exactly the range any search of the table (Go's is a binary search) returns. -/
theorem C10_case_table (r : Nat) (cr : CaseRange) (hc : cr ∈ goCaseRanges) (hh : cr.holds r = true) :
    caseRangesSorted goCaseRanges = true ∧ lookupCaseRange r goCaseRanges = some cr :=
  ⟨goCaseRanges_sorted, goCaseRanges_lookup r cr hc hh⟩

/-- `AddHexaCharacter` / `AddOctalCharacter` for ALL non-empty digit strings: a hex string whose
    value is a code point pushes that character and records nothing; any other hex string (surrogate,
    above U+10FFFF, however large) records the error naming the escape (and pushes a U+FFFD
    placeholder that keeps the deque balanced; the tree is never compiled, `BState.finish`). -/
theorem C10_escape_hex_spec (ds : List Sym) (v : Nat) (st : BState) (hne : ds ≠ [])
    (hv : digitsVal 16 ds 0 = some v) :
    (Op.addHexaCharacter ds).apply st =
      .ok (if isCodePoint v = true then st.pushFront (.leaf .character [v])
           else (st.addErr (hexErrMsg ds)).pushFront (.leaf .character [0xFFFD])) :=
  escape_hex_spec ds v st hne hv

theorem C10_escape_octal_spec (ds : List Sym) (v : Nat) (st : BState) (hne : ds ≠ [])
    (hlen : ds.length ≤ 3) (hv : digitsVal 8 ds 0 = some v) :
    (Op.addOctalCharacter ds).apply st = .ok (st.pushFront (.leaf .character [v])) :=
  escape_octal_small ds v st hne hlen hv

/-- The hex escape for ALL digit strings, at the level of the regenerated grammar (relational PEG
    semantics, so no fuel): `\0x` / `\0X` followed by any non-empty string of hex digits is consumed
    entirely by rule `Escape`, and `Execute()` on the resulting tokens, with the action code of
    peg.peg run against the builder model, ends in a state that `Compile` accepts as exactly
    `Character value` when the value IS a Unicode code point, and that `Compile` refuses with
    exactly the error naming the escape when it is NOT (surrogates and values above U+10FFFF,
    however large).  By `Eval_det` this derivation is the only one. -/
theorem C10_escape_hex_all (x : Sym) (hx : x = 120 ∨ x = 88) (ds : List Sym) (hne : ds ≠ [])
    (hall : ∀ c ∈ ds, isHexSym c = true) :
    ∃ v forest evs, digitsVal 16 ds 0 = some v ∧
      Eval pegLinked.G (fun _ _ => false) (92 :: 48 :: x :: ds) (.name "Escape") 0
        (.ok (3 + ds.length) forest) evs ∧
      ∃ st, (execute pegActs (92 :: 48 :: x :: ds) (postorderL forest)).map
          (fun e => runEvents pegTable e BState.init) = some (.ok st) ∧
        st = (if isCodePoint v = true then ⟨[.leaf .character [v]], 0, []⟩
              else ⟨[.leaf .character [0xFFFD]], 0, [hexErrMsg ds]⟩) ∧
        st.finish = (if isCodePoint v = true then .ok [.leaf .character [v]]
                     else .invalid [hexErrMsg ds]) := by
  obtain ⟨v, hv⟩ := digitsVal_hex ds 0 hall
  obtain ⟨evs, he⟩ := escape_hex_eval x hx ds hne hall
  refine ⟨v, _, evs, hv, he, _, escape_hex_actions x ds v hne hv, rfl, ?_⟩
  cases isCodePoint v <;> rfl

/-- The model front end accepts only texts of the PEG language of the regenerated grammar, rejects
    as syntax errors only texts outside it, reports builder errors (`.invalid`) only for texts inside
    it, and its verdict does not depend on the fuel. -/
theorem C10_model_sound (text : List Sym) (fuel : Nat) :
    (∀ top, frontModel text fuel = .ok top →
      ∃ p forest evs, Eval pegLinked.G (fun _ _ => false) text (.name pegEntry) 0 (.ok p forest) evs) ∧
    (frontModel text fuel = .syntaxError →
      ∃ evs, Eval pegLinked.G (fun _ _ => false) text (.name pegEntry) 0 .fail evs) ∧
    (∀ errs, frontModel text fuel = .invalid errs →
      ∃ p forest evs, Eval pegLinked.G (fun _ _ => false) text (.name pegEntry) 0 (.ok p forest) evs) := by
  rw [frontModel_eq]
  exact ⟨fun top h => frontCore_ok_sound _ _ _ _ _ _ top h, frontCore_syntaxError_sound _ _ _ _ _ _,
    fun errs h => frontCore_invalid_sound _ _ _ _ _ _ errs h⟩

theorem C10_fuel_irrelevant (text : List Sym) (f1 f2 : Nat)
    (h1 : frontModel text f1 ≠ .unsupported "out of fuel")
    (h2 : frontModel text f2 ≠ .unsupported "out of fuel") :
    frontModel text f1 = frontModel text f2 := by
  rw [frontModel_eq] at h1 h2
  rw [frontModel_eq, frontModel_eq]
  exact frontCore_fuel_irrelevant _ _ _ _ _ _ _ h1 h2

#print axioms C10_escape_table
#print axioms C10_non_escapes
#print axioms C10_caseFold_escapes
#print axioms C10_literal_case
#print axioms C10_dquote_ci
#print axioms C10_class
#print axioms C10_negclass
#print axioms C10_ci_class
#print axioms C10_arrows
#print axioms C10_comments
#print axioms C10_imports
#print axioms C10_actions
#print axioms C10_precedence
#print axioms C10_hex_no_codepoint_reported
#print axioms C10_rejects
#print axioms C10_precedence_chain
#print axioms C10_list_rules
#print axioms C10_builder_addList_flatten
#print axioms C10_builder_never_panics_on_balanced
#print axioms C10_builder_caseFold
#print axioms C10_caseFold_char
#print axioms C10_caseFold_ascii
#print axioms C10_caseFold_raw_all
#print axioms C10_case_table
#print axioms C10_escape_hex_spec
#print axioms C10_escape_octal_spec
#print axioms C10_escape_hex_all
#print axioms C10_model_sound
#print axioms C10_fuel_irrelevant

end PegVerif
