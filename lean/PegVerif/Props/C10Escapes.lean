import PegVerif.Proofs.FrontLemmas
import PegVerif.Proofs.FrontFold
/-
  C10 — the escape table (definitions and the kernel evaluation), split from Props/C10.lean only to
  keep each file's checking time low.  The theorems are stated in Props/C10.lean.
-/
namespace PegVerif

/-! ## (E) the escape table -/

/-- A row: spelling (runes, starting with the backslash) and what it must mean: the code point it
    denotes, or the errors it is reported with. -/
abbrev EscRow := List Sym × EscDen

/-- `\a \b \e \f \n \r \t \v` and their upper-case forms (the escapes are double-quoted in
    peg.peg, hence case-insensitive), `\' \" \[ \] \- \\`. -/
def namedRows : List EscRow := List.map (fun r => (r.1, EscDen.cp r.2))
  [ ([92, 97], 7), ([92, 98], 8), ([92, 101], 27), ([92, 102], 12), ([92, 110], 10), ([92, 114], 13),
    ([92, 116], 9), ([92, 118], 11),
    ([92, 65], 7), ([92, 66], 8), ([92, 69], 27), ([92, 70], 12), ([92, 78], 10), ([92, 82], 13),
    ([92, 84], 9), ([92, 86], 11),
    ([92, 39], 39), ([92, 34], 34), ([92, 91], 91), ([92, 93], 93), ([92, 45], 45), ([92, 92], 92) ]

def oct1 (v : Nat) : List Sym := [92, 48 + v]
def oct2 (v : Nat) : List Sym := [92, 48 + v / 8, 48 + v % 8]
def oct3 (v : Nat) : List Sym := [92, 48 + v / 64, 48 + v / 8 % 8, 48 + v % 8]

/-- Every octal spelling: `\0`…`\7`, `\00`…`\77`, `\000`…`\377`. -/
def octalRows : List EscRow :=
  (List.range 8).map (fun v => (oct1 v, .cp v)) ++ (List.range 64).map (fun v => (oct2 v, .cp v)) ++
  (List.range 256).map (fun v => (oct3 v, .cp v))

def hexDigitSym (d : Nat) (upper : Bool) : Sym :=
  if d < 10 then 48 + d else (if upper then 55 else 87) + d
/-- Hex digits of `v`, most significant first (`fuel` bounds the number of digits). -/
def hexDigits (upper : Bool) : Nat → Nat → List Sym → List Sym
  | 0, _, acc => acc
  | f + 1, v, acc =>
    if v < 16 then hexDigitSym v upper :: acc
    else hexDigits upper f (v / 16) (hexDigitSym (v % 16) upper :: acc)
/-- The digits of a hex spelling of `v`: `zeros` leading zeros, then the digits of `v`. -/
def hexDs (dUpper : Bool) (zeros : Nat) (v : Nat) : List Sym :=
  List.replicate zeros 48 ++ hexDigits dUpper 40 v []
def hexSp (xUpper dUpper : Bool) (zeros : Nat) (v : Nat) : List Sym :=
  [92, 48, if xUpper then 88 else 120] ++ hexDs dUpper zeros v

/-- What a hex escape with digits `ds` of value `v` must mean: the code point `v` if `v` is one,
    else the error that names the escape as written. -/
def hexDen (ds : List Sym) (v : Nat) : EscDen :=
  if isCodePoint v = true then .cp v else .err [hexErrMsg ds]
def hexRow (xUpper dUpper : Bool) (zeros : Nat) (v : Nat) : EscRow :=
  (hexSp xUpper dUpper zeros v, hexDen (hexDs dUpper zeros v) v)

/-- Representative hex values: boundaries of ASCII, Latin-1, the BMP, the surrogate block, the
    code space, int32, uint32, uint64. -/
def hexValues : List Nat :=
  [0x0, 0x7, 0x9, 0xa, 0x1b, 0x41, 0x61, 0x7f, 0x80, 0xff, 0x100, 0x3b1, 0x4e2d, 0xd7ff, 0xd800,
   0xdbff, 0xdfff, 0xe000, 0xfffd, 0xffff, 0x10000, 0x1f600, 0x10ffff, 0x110000, 0x7fffffff,
   0x80000000, 0xffffffff, 0x100000000, 0xffffffffffffffff, 0x10000000000000000,
   0xffffffffffffffffffff]

/-- `\0x…`, `\0X…`, upper-case digits, leading zeros.  Expected: the code point; when the value is
    none (surrogates, above U+10FFFF), the error naming the escape. -/
def hexRows : List EscRow :=
  hexValues.flatMap (fun v =>
    [ hexRow false false 0 v, hexRow true false 0 v, hexRow false true 0 v, hexRow false false 3 v ])

/-- The rows of the table that are errors: 4 spellings each of 0xd800, 0xdbff, 0xdfff, 0x110000,
    0x7fffffff, 0x80000000, 0xffffffff, 0x100000000, 2^64-1, 2^64, 2^80-1. -/
theorem hexRows_errors :
    (hexRows.filter (fun row => match row.2 with | .err _ => true | .cp _ => false)).length = 44 := by
  kernel_rfl

def escTable : List EscRow := namedRows ++ octalRows ++ hexRows

/-- Spellings that are NOT escapes (rule `Escape` does not consume exactly them). -/
def nonEscapes : List (List Sym) :=
  [ [92], [92, 113], [92, 120, 52, 49], [92, 56], [92, 52, 48, 48], [92, 48, 120], [92, 94],
    [92, 32], [92, 10], [92, 117, 48, 48, 52, 49], [92, 40], [92, 47], [92, 35] ]

theorem escTable_size : escTable.length = 22 + 328 + 124 := by kernel_rfl


/-- Kernel evaluation of the whole table (rule `Escape` within the full linked grammar, the action
    code of peg.peg interpreted against the builder model). -/
theorem escTable_checked :
    escTable.all (fun row => frontCharCore pegLinked.G pegActs pegTable row.1 == some row.2) = true := by
  kernel_rfl

theorem nonEscapes_checked :
    nonEscapes.all (fun sp => frontCharCore pegLinked.G pegActs pegTable sp == none) = true := by
  kernel_rfl

/-- Kernel evaluation of the whole table once more, this time in a CASE-INSENSITIVE position (rule
    `DoubleChar`: one character of a double-quoted literal or of a `[[…]]` class): every escape
    spelling that denotes a code point `c` becomes `foldNode c` — `lower / upper` when `c` is a letter
    (`\101`, `\0x61`, `\0x3b1`, …), the plain character otherwise. -/
theorem escTable_fold_checked :
    escTable.all (fun row => match row.2 with
      | .cp c => match frontFoldCore pegLinked.G pegActs pegTable row.1 with
        | some n => Node.beq n (foldNode c)
        | none => false
      | .err _ => (frontFoldCore pegLinked.G pegActs pegTable row.1).isNone) = true := by
  kernel_rfl

end PegVerif
