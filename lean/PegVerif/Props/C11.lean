import PegVerif.Props.C11Err
import PegVerif.Props.C01
/- C11 — derivation-level statements (on top of the message theorems of C11Err). -/
namespace PegVerif
end PegVerif
