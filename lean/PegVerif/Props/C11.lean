import PegVerif.Props.C11Err
import PegVerif.Props.C01
import PegVerif.Proofs.EventLemmas
/-
  C11 — derivation-level statements: when does `Parse` return an error, which token does it
  carry, and why producing the message cannot panic.  (The message itself — line/column of begin
  and end, the quoted text — is `error_spec` / `translate_spec` in C11Err.)
-/
namespace PegVerif

variable {P : Program} {cfg : Cfg} {env : CEnv} {G : Grammar} {inp : List Sym}

/-- **C11** (nil iff matched, and which token): every run of a failing parse returns false with
    `maxToken` = the fold of `add`'s update over every attempted token, in attempt order. -/
theorem C11_maxTok (hW : World P cfg env G inp) {n cr evs o s'}
    (hfind : P.find n = some cr) (hev : Eval G cfg.rho inp (.name n) 0 .fail evs)
    (hrun : Exec P cfg inp cr 0 St.init Frame.empty (o, s')) :
    o = .ret false ∧ s'.maxTok = evs.foldl updTok zeroTok := by
  have h := R_rule_all hW hfind hev rfl (Nat.zero_le _) (by simp [St.init]) memoOK_init hrun
  exact ⟨h.1, by simpa [St.init] using h.2.2.2.2.2.1⟩

/-- What that fold is: the zero token if no non-empty token was attempted, otherwise an attempted
    non-empty token beyond whose end no attempted non-empty token reaches. -/
theorem C11_maxTok_furthest (evs : List Token) :
    let r := evs.foldl updTok zeroTok
    (r = zeroTok ∨ (r ∈ evs ∧ r.b ≠ r.e)) ∧ (∀ t ∈ evs, t.b ≠ t.e → t.e ≤ r.e) := by
  have := foldl_updTok_spec evs zeroTok
  exact ⟨this.1, this.2.2⟩

/-- … and it is the FIRST such token in attempt order. -/
theorem C11_maxTok_first (pre post : List Token) (t : Token)
    (h : (pre ++ t :: post).foldl updTok zeroTok = t) (hne : t.b ≠ t.e) (hnew : t ∉ pre) (hp : t ∉ post) :
    ∀ x ∈ pre, x.b ≠ x.e → x.e < t.e := by
  have hmt : t ≠ zeroTok := by intro e; rw [e] at hne; simp [zeroTok] at hne
  rcases foldl_updTok_first pre post t zeroTok h hne hnew hmt with h1 | h1
  · exact h1.1
  · exact absurd h1 hp

/-- The error token lies within the input, so `Error()` cannot panic and quotes exactly
    `inp[b:e]` (`error_no_panic`, `error_spec`, `error_quote_input` apply). -/
theorem C11_token_in_input {n evs} (hev : Eval G cfg.rho inp (.name n) 0 .fail evs) :
    let r := evs.foldl updTok zeroTok
    r.b ≤ r.e ∧ r.e < (bufOf inp).length := by
  have hb := Eval_events_bound hev (Nat.zero_le _)
  rcases (foldl_updTok_spec evs zeroTok).1 with h | h
  · simp only [h]; simp [zeroTok, bufOf]
  · have := hb _ h.1
    simp only [bufOf, List.length_append, List.length_singleton]
    omega

/-- Consequently the message is produced without panic, with the lines/columns of `lineCol`. -/
theorem C11_error_message {n evs} (hev : Eval G cfg.rho inp (.name n) 0 .fail evs)
    (pretty : Bool) (quote : List Sym → String) :
    (errorString (evs.foldl updTok zeroTok).rule (bufOf inp) (evs.foldl updTok zeroTok).b
      (evs.foldl updTok zeroTok).e pretty quote).isSome :=
  have h := C11_token_in_input (G := G) (cfg := cfg) hev
  error_no_panic _ _ _ _ pretty quote h.1 h.2

end PegVerif

#print axioms PegVerif.C11_maxTok
#print axioms PegVerif.C11_maxTok_furthest
#print axioms PegVerif.C11_maxTok_first
#print axioms PegVerif.C11_token_in_input
#print axioms PegVerif.C11_error_message
