/-
  C11, second sentence: "Its message reports the correct 1-based line and column for both the
  begin and the end of that token and quotes exactly the input text between them, and producing
  the message never panics, for any input including empty input and failures at offset zero or
  at end of input."

  Subject: `translatePositions` and `(*parseError[U]).Error()` of `tree/peg.go.tmpl`, transcribed
  in `PegVerif/Model/Error.lean`; specification `lineCol` (same file, independent of the loop).
  All theorems are unbounded (all buffers, all offsets) and stated at full strength: with the two
  template fixes 4b35db9 and 88ac174 no `_partial` variant is needed.

  The buffer is the runtime's rune buffer: `[]rune(p.Buffer)` plus the sentinel `END`, so it is
  never empty and the valid offsets are `0 … buffer.length - 1` (the last = end of input).
-/
import PegVerif.Proofs.ErrorLemmas

namespace PegVerif

/-! ## translatePositions -/

/-- Every requested position inside the buffer is translated to its 1-based line and column;
    the list may be unsorted and may contain duplicates; no panic. -/
theorem translate_spec : ∀ (buffer : List Sym) (positions : List Nat),
    positions ≠ [] → (∀ p ∈ positions, p < buffer.length) →
    ∃ m, translatePositions buffer positions = some m ∧
      ∀ p ∈ positions, lookupD m p = lineCol buffer p :=
  translate_spec_aux

/-- hypotheses satisfiable non-trivially: unsorted, with duplicates, multi-line, a position on a
    newline and one on the sentinel. -/
example : ∃ (buffer : List Sym) (positions : List Nat),
    positions ≠ [] ∧ (∀ p ∈ positions, p < buffer.length) ∧
    ¬ positions.Pairwise (· ≤ ·) ∧ ¬ positions.Nodup ∧
    buffer[1]? = some NL ∧ 1 ∈ positions ∧ buffer.length - 1 ∈ positions :=
  ⟨[97, NL, 98, END], [3, 1, 1, 0], by decide⟩

/-- … and the conclusion on that witness, spelled out. -/
example : ∃ m, translatePositions [97, NL, 98, END] [3, 1, 1, 0] = some m ∧
    lookupD m 0 = (1, 1) ∧ lookupD m 1 = (1, 2) ∧ lookupD m 3 = (2, 2) := by
  obtain ⟨m, h, hm⟩ := translate_spec [97, NL, 98, END] [3, 1, 1, 0] (by decide) (by decide)
  exact ⟨m, h, by rw [hm 0 (by decide)]; decide, by rw [hm 1 (by decide)]; decide,
    by rw [hm 3 (by decide)]; decide⟩

/-! ## Error(): no panic -/

theorem error_no_panic (ruleName : String) (buffer : List Sym) (b e : Nat) (pretty : Bool)
    (quote : List Sym → String) :
    b ≤ e → e < buffer.length → (errorString ruleName buffer b e pretty quote).isSome := by
  intro hbe he
  obtain ⟨m, hm, _⟩ := translate_spec buffer [b, e] (by simp)
    (by intro p hp; simp at hp; omega)
  simp [errorString, hm, goSlice_some hbe (Nat.le_of_lt he)]

example : ∃ (buffer : List Sym) (b e : Nat), b ≤ e ∧ e < buffer.length ∧ b ≠ e :=
  ⟨[97, NL, 98, END], 1, 3, by decide⟩

/-! ## Error(): the message -/

/-- The message, plain variant: exact text, with (L1,C1) = `lineCol buffer b`,
    (L2,C2) = `lineCol buffer e` and the quoted slice `buffer[b:e]`. -/
theorem error_spec (ruleName : String) (buffer : List Sym) (b e : Nat)
    (quote : List Sym → String) (hbe : b ≤ e) (he : e < buffer.length) :
    errorString ruleName buffer b e false quote =
      some ("\nparse error near " ++ ruleName ++
        " (line " ++ toString (lineCol buffer b).1 ++ " symbol " ++ toString (lineCol buffer b).2 ++
        " - line " ++ toString (lineCol buffer e).1 ++ " symbol " ++ toString (lineCol buffer e).2 ++
        "):\n" ++ quote ((buffer.take e).drop b) ++ "\n") := by
  obtain ⟨m, hm, hl⟩ := translate_spec buffer [b, e] (by simp)
    (by intro p hp; simp at hp; omega)
  have h0 : "\nparse error near " = "\n" ++ "parse error near " := by decide
  simp only [errorString, hm, goSlice_some hbe (Nat.le_of_lt he), errFormat,
    hl b (by simp), hl e (by simp), h0, String.append_assoc]
  rfl

/-- The message, `Pretty` variant (rule name in blue). -/
theorem error_spec_pretty (ruleName : String) (buffer : List Sym) (b e : Nat)
    (quote : List Sym → String) (hbe : b ≤ e) (he : e < buffer.length) :
    errorString ruleName buffer b e true quote =
      some ("\nparse error near \x1B[34m" ++ ruleName ++
        "\x1B[m (line " ++ toString (lineCol buffer b).1 ++ " symbol " ++ toString (lineCol buffer b).2 ++
        " - line " ++ toString (lineCol buffer e).1 ++ " symbol " ++ toString (lineCol buffer e).2 ++
        "):\n" ++ quote ((buffer.take e).drop b) ++ "\n") := by
  obtain ⟨m, hm, hl⟩ := translate_spec buffer [b, e] (by simp)
    (by intro p hp; simp at hp; omega)
  have h0 : "\nparse error near \x1B[34m" = "\n" ++ "parse error near \x1B[34m" := by decide
  simp only [errorString, hm, goSlice_some hbe (Nat.le_of_lt he), errFormat,
    hl b (by simp), hl e (by simp), h0, String.append_assoc]
  rfl

/-- The quoted slice is exactly the runes at offsets `b, …, e-1` of the buffer. -/
theorem error_quote (buffer : List Sym) (b e : Nat) (hbe : b ≤ e) (he : e < buffer.length) :
    ∃ sl, goSlice buffer b e = some sl ∧ sl = (buffer.take e).drop b ∧ sl.length = e - b ∧
      ∀ k, k < e - b → sl[k]? = buffer[b + k]? := by
  have h := goSlice_some (s := buffer) hbe (Nat.le_of_lt he)
  exact ⟨_, h, rfl, goSlice_length h, goSlice_getElem? h⟩

/-- With `buffer = input ++ [END]` and the token inside the input (`e ≤ input.length`, which is
    `e < buffer.length`): the quoted text is a slice of the *input* — the sentinel is never
    quoted — and the positions are those of the input alone. -/
theorem error_quote_input (input : List Sym) (b e : Nat) (hbe : b ≤ e) (he : e ≤ input.length) :
    goSlice (input ++ [END]) b e = some ((input.take e).drop b) ∧
    lineCol (input ++ [END]) b = lineCol input b ∧
    lineCol (input ++ [END]) e = lineCol input e := by
  refine ⟨?_, lineCol_append _ _ _ (by omega), lineCol_append _ _ _ he⟩
  rw [goSlice_some hbe (by simp; omega), List.take_append_of_le_length he]

example : ∃ (input : List Sym) (b e : Nat), b ≤ e ∧ e ≤ input.length ∧ b ≠ e ∧ input ≠ [] :=
  ⟨[97, NL, 98], 1, 3, by decide⟩

/-! ## Edge cases, as corollaries -/

/-- Empty input: the buffer is just the sentinel and the only possible token is `[0,0)`. -/
theorem error_empty_input (ruleName : String) (quote : List Sym → String) :
    errorString ruleName [END] 0 0 false quote =
      some ("\nparse error near " ++ ruleName ++
        " (line 1 symbol 1 - line 1 symbol 1):\n" ++ quote [] ++ "\n") := by
  rw [error_spec ruleName [END] 0 0 quote (by decide) (by decide)]
  simp only [lineCol_zero, List.take_zero, List.drop_nil, msg_1111]

/-- Failure at offset zero (empty token at the very beginning) on any input. -/
theorem error_offset_zero (ruleName : String) (buffer : List Sym) (quote : List Sym → String)
    (h : 0 < buffer.length) :
    errorString ruleName buffer 0 0 false quote =
      some ("\nparse error near " ++ ruleName ++
        " (line 1 symbol 1 - line 1 symbol 1):\n" ++ quote [] ++ "\n") := by
  rw [error_spec ruleName buffer 0 0 quote (Nat.le_refl _) h]
  simp only [lineCol_zero, List.take_zero, List.drop_nil, msg_1111]

/-- Token ending at end of input (`e` = offset of the sentinel = `buffer.length - 1`): no panic,
    the whole rest of the input is quoted, and the end position is that of the sentinel. -/
theorem error_end_of_input (ruleName : String) (input : List Sym) (b : Nat)
    (quote : List Sym → String) (hb : b ≤ input.length) :
    errorString ruleName (input ++ [END]) b input.length false quote =
      some ("\nparse error near " ++ ruleName ++
        " (line " ++ toString (lineCol input b).1 ++ " symbol " ++ toString (lineCol input b).2 ++
        " - line " ++ toString (1 + input.count NL) ++
        " symbol " ++ toString (1 + colAfterLastNL input) ++
        "):\n" ++ quote (input.drop b) ++ "\n") := by
  rw [error_spec ruleName (input ++ [END]) b input.length quote hb (by simp)]
  rw [lineCol_append _ _ _ hb, lineCol_append _ _ _ (Nat.le_refl _)]
  simp [lineCol]

/-- An offset that holds a `'\n'` is reported at the end of its own line (column = 1 + length of
    the line so far), and the offset after it at column 1 of the next line. -/
theorem lineCol_on_newline (pre rest : List Sym) :
    lineCol (pre ++ NL :: rest) pre.length = (1 + pre.count NL, 1 + colAfterLastNL pre) ∧
    lineCol (pre ++ NL :: rest) (pre.length + 1) = (2 + pre.count NL, 1) := by
  refine ⟨lineCol_at_prefix _ _, ?_⟩
  rw [lineCol_succ _ _ (by simp)]
  simp [lineCol_at_prefix]
  omega

/-- `lineCol` is the usual line/column: (1,1) at offset 0; after a newline the line number goes
    up and the column restarts at 1; after any other rune the column goes up. -/
theorem lineCol_recurrence (buffer : List Sym) :
    lineCol buffer 0 = (1, 1) ∧
    ∀ off (h : off < buffer.length), lineCol buffer (off + 1) =
      if buffer[off] = NL then ((lineCol buffer off).1 + 1, 1)
      else ((lineCol buffer off).1, (lineCol buffer off).2 + 1) :=
  ⟨lineCol_zero buffer, fun off h => lineCol_succ buffer off h⟩

/-- Multi-line, token from a `'\n'` to end of input: input "ab\ncd\n\nz", token [2, 8). -/
example (quote : List Sym → String) :
    errorString "S" [97, 98, NL, 99, 100, NL, NL, 122, END] 2 8 false quote =
      some ("\nparse error near S (line 1 symbol 3 - line 4 symbol 2):\n" ++
        quote [NL, 99, 100, NL, NL, 122] ++ "\n") := by
  rw [error_spec _ _ _ _ _ (by decide) (by decide)]
  rfl

/-- Multi-line, `Pretty`, empty token sitting on the second of two consecutive newlines. -/
example (quote : List Sym → String) :
    errorString "S" [97, 98, NL, 99, 100, NL, NL, 122, END] 6 6 true quote =
      some ("\nparse error near \x1B[34mS\x1B[m (line 3 symbol 1 - line 3 symbol 1):\n" ++
        quote [] ++ "\n") := by
  rw [error_spec_pretty _ _ _ _ _ (by decide) (by decide)]
  rfl

/-- Outside the hypotheses the Go code does panic, and the model says so: `begin > end`
    (slice bounds out of range). -/
example (quote : List Sym → String) : errorString "S" [97, 98, END] 2 1 false quote = none := by
  have ⟨m, hm, _⟩ := translate_spec [97, 98, END] [2, 1] (by decide) (by decide)
  simp [errorString, hm, goSlice]

#print axioms translate_spec
#print axioms error_no_panic
#print axioms error_spec
#print axioms error_spec_pretty
#print axioms error_quote
#print axioms error_quote_input
#print axioms error_empty_input
#print axioms error_offset_zero
#print axioms error_end_of_input
#print axioms lineCol_on_newline
#print axioms lineCol_recurrence

end PegVerif
