import PegVerif.Props.C03
import PegVerif.Props.C11
/-
  C12 — a parser can be reused: `Buffer = x; Reset(); Parse()` behaves like a fresh parser.

  `reset()` clears position, tokenIndex, maxToken, the memo table (and `text` under -noast) and
  rebuilds the rune buffer; the only thing that survives is the token buffer `tree`, whose content
  beyond `tokenIndex = 0` is dead.  R is stated for an arbitrary admissible start state, so the
  stale buffer is covered: what a parse publishes depends on the live prefix only.
-/
namespace PegVerif

variable {P : Program} {cfg : Cfg} {env : CEnv} {G : Grammar} {inp : List Sym}

/-- The state of a long-lived parser after `Reset()`: whatever earlier parses left in the token
    buffer, everything else is as in a fresh parser. -/
def AfterReset (s : St) : Prop :=
  s.pos = 0 ∧ s.ti = 0 ∧ s.maxTok = zeroTok ∧ s.memo = []

theorem afterReset_reset (s : St) : AfterReset s.reset := by simp [AfterReset, St.reset]
theorem afterReset_init : AfterReset St.init := by simp [AfterReset, St.init]

/-- **C12**: from any post-`Reset` state (arbitrary stale token buffer), every run of rule `n`
    yields the verdict, end position, published tokens and error token that the semantics
    prescribes — hence the same as a freshly constructed parser on that input (`afterReset_init`),
    for every history of earlier inputs. -/
theorem C12_reset_like_fresh (hW : World P cfg env G inp) {n cr res evs s o s'}
    (hs : AfterReset s) (hfind : P.find n = some cr)
    (hev : Eval G cfg.rho inp (.name n) 0 res evs)
    (hrun : Exec P cfg inp cr 0 s Frame.empty (o, s')) :
    match res with
    | .ok p' forest => o = .ret true ∧ s'.pos = p' ∧ s'.tree.take s'.ti = postorderL forest
    | .fail => o = .ret false ∧ s'.maxTok = evs.foldl updTok zeroTok := by
  obtain ⟨h1, h2, h3, h4⟩ := hs
  have h := R_rule_all hW hfind hev h1 (Nat.zero_le _) (by rw [h2]; exact Nat.zero_le _) (by rw [h4]; exact memoOK_nil) hrun
  cases res with
  | ok p' forest =>
    obtain ⟨a, b, _, d, _⟩ := h
    refine ⟨a, b, ?_⟩
    rw [d, h2]; simp
  | fail =>
    obtain ⟨a, _, _, _, _, f, _⟩ := h
    exact ⟨a, by rw [f, h3]⟩

/-- Two parsers — one fresh, one reused after any history — cannot be told apart by a parse. -/
theorem C12_history_irrelevant (hW : World P cfg env G inp) {n cr res evs s1 s2 o1 o2 t1 t2}
    (h1 : AfterReset s1) (h2 : AfterReset s2) (hfind : P.find n = some cr)
    (hev : Eval G cfg.rho inp (.name n) 0 res evs)
    (r1 : Exec P cfg inp cr 0 s1 Frame.empty (o1, t1))
    (r2 : Exec P cfg inp cr 0 s2 Frame.empty (o2, t2)) :
    o1 = o2 ∧ t1.pos = t2.pos ∧ (o1 = .ret true → t1.tree.take t1.ti = t2.tree.take t2.ti) ∧
    (o1 = .ret false → t1.maxTok = t2.maxTok) := by
  have a := C12_reset_like_fresh hW h1 hfind hev r1
  have b := C12_reset_like_fresh hW h2 hfind hev r2
  have a' := R_rule_all hW hfind hev h1.1 (Nat.zero_le _) (by rw [h1.2.1]; exact Nat.zero_le _) (by rw [h1.2.2.2]; exact memoOK_nil) r1
  have b' := R_rule_all hW hfind hev h2.1 (Nat.zero_le _) (by rw [h2.2.1]; exact Nat.zero_le _) (by rw [h2.2.2.2]; exact memoOK_nil) r2
  cases res with
  | ok p' forest =>
    obtain ⟨a1, a2, a3⟩ := a
    obtain ⟨b1, b2, b3⟩ := b
    refine ⟨by rw [a1, b1], by rw [a2, b2], ?_, ?_⟩
    · intro _; rw [a3, b3]
    · intro h; rw [a1] at h; cases h
  | fail =>
    obtain ⟨a1, a2⟩ := a
    obtain ⟨b1, b2⟩ := b
    refine ⟨by rw [a1, b1], by rw [a'.2.1, b'.2.1], ?_, ?_⟩
    · intro h; rw [a1] at h; cases h
    · intro _; rw [a2, b2]

end PegVerif

#print axioms PegVerif.C12_reset_like_fresh
#print axioms PegVerif.C12_history_irrelevant
