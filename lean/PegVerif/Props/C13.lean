import PegVerif.Props.C12
import PegVerif.Proofs.RunesLemmas
/-
  C13 — generated parsers never crash or misindex: whenever the PEG semantics assigns an outcome
  to the entry rule (which it does for well-formed grammars), every run returns true or false —
  never the `panic` outcome that models an out-of-range index, a bad slice or a nil function — and
  every published token is a span inside the input's rune sequence.
-/
namespace PegVerif

variable {P : Program} {cfg : Cfg} {env : CEnv} {G : Grammar} {inp : List Sym}

/-- **C13** (no panic): a run of the emitted function never ends in a Go run-time panic. -/
theorem C13_no_panic (hW : World P cfg env G inp) {n cr res evs s o s'}
    (hs : AfterReset s) (hfind : P.find n = some cr)
    (hev : Eval G cfg.rho inp (.name n) 0 res evs)
    (hrun : Exec P cfg inp cr 0 s Frame.empty (o, s')) : o ≠ .panic := by
  have h := C12_reset_like_fresh hW hs hfind hev hrun
  cases res with
  | ok p' f => rw [h.1]; intro e; cases e
  | fail => rw [h.1]; intro e; cases e

/-- **C13** (offsets): every published token satisfies `b ≤ e ≤ |inp|`, so slicing the rune
    sequence by it is defined (and by C03 it is exactly what the token's sub-derivation consumed);
    the final position is inside the input as well. -/
theorem C13_token_slices (hW : World P cfg env G inp) {n cr p' forest evs s o s'}
    (hs : AfterReset s) (hfind : P.find n = some cr)
    (hev : Eval G cfg.rho inp (.name n) 0 (.ok p' forest) evs)
    (hrun : Exec P cfg inp cr 0 s Frame.empty (o, s')) :
    (∀ t ∈ s'.tree.take s'.ti, t.b ≤ t.e ∧ t.e ≤ inp.length) ∧ s'.pos ≤ inp.length := by
  have h := C12_reset_like_fresh hW hs hfind hev hrun
  obtain ⟨_, h2, h3⟩ := h
  have hb := Eval_bound hev (Nat.zero_le _) _ _ rfl
  refine ⟨?_, by rw [h2]; exact hb.2⟩
  intro t ht
  rw [h3] at ht
  have := WellNestedL.within forest 0 p' (Eval_wellNested hev _ _ rfl) t ht
  omega

/-- The position never leaves `[0, |inp|]` in the semantics, which is why `buffer[position]`
    (the buffer is the input plus one end symbol) is always in range. -/
theorem C13_position_in_buffer {ρ e p p' f evs} (h : Eval G ρ inp e p (.ok p' f) evs) (hp : p ≤ inp.length) :
    p' < (bufOf inp).length := by
  have := (Eval_bound h hp _ _ rfl).2
  simp [bufOf]; omega

/-- **C13** (every Go string): whatever bytes `Buffer` holds — NUL, ill-formed UTF-8, surrogates,
    the maximum code point — the rune sequence `[]rune(Buffer)` the parser works on (model `runes`,
    tied to the real conversion by T-run, which sends bytes) never contains the end symbol, so the
    `inpOK` hypothesis of `World` holds for EVERY buffer, not just well-formed text; and it is no
    longer than the byte string, so rune offsets fit wherever byte offsets do. -/
theorem C13_every_buffer_is_admissible (bs : List Nat) :
    (∀ c ∈ runes bs, c ≠ END) ∧ (runes bs).length ≤ bs.length :=
  ⟨runes_ne_END bs, runes_length_le bs⟩

/-- ASCII buffers are their own rune sequence (offsets are byte offsets there). -/
theorem C13_ascii_identity (bs : List Nat) (h : ∀ b ∈ bs, b < 0x80) : runes bs = bs := runes_ascii bs h

-- the decoding table on the adversarial inputs named by the property (tests, labelled as tests)
example : runes [0xF4, 0x8F, 0xBF, 0xBF] = [0x10FFFF] := by decide
example : runes [0xF4, 0x90, 0x80, 0x80] = [0xFFFD, 0xFFFD, 0xFFFD, 0xFFFD] := by decide
example : runes [0xED, 0xA0, 0x80] = [0xFFFD, 0xFFFD, 0xFFFD] := by decide      -- surrogate
example : runes [0xC0, 0x80, 0, 0x61] = [0xFFFD, 0xFFFD, 0, 0x61] := by decide  -- overlong NUL, NUL
example : runes [0xE4, 0xB8, 0x96, 0xE4] = [0x4E16, 0xFFFD] := by decide        -- truncated

end PegVerif

#print axioms PegVerif.C13_every_buffer_is_admissible
#print axioms PegVerif.C13_ascii_identity
#print axioms PegVerif.C13_no_panic
#print axioms PegVerif.C13_token_slices
#print axioms PegVerif.C13_position_in_buffer
