/-
  C14 — independent parser instances do not interfere under concurrency (logic core + facts
  regenerated from the source).

  `Generated/Footprints.lean` is rewritten by `harness/cmd/facts` on every run from parsers that the
  peg built from the CURRENT source generates (default, `-noast`, `-inline -switch`) and from the raw
  `tree/peg.go.tmpl`.  The only package-level variable of a generated parser is the name table
  `rul3s`; it is never assigned, indexed on the left of an assignment or has its address taken; the
  runtime starts no goroutine, uses no channel and does not import `sync`.  All parse state lives in
  locals of `Init` captured by the closures stored in the receiver, or in the receiver itself.

  Proved: a product of confined components is non-interfering for every schedule
  (`Sched.product_noninterference`), instantiated under the facts above.

  ASSUMED
  1. Go's memory model (DRF-SC) — as for C09.
  2. Soundness of the extractor and the reading of its facts: "no write to a package-level variable,
     no goroutine/channel/sync" implies that a step of instance `i` (Init / Parse / Execute / print
     on receiver `i`) reads and writes only the memory reachable from receiver `i` and read-only
     package data (`Confined`), provided the CALLER gives every instance its own receiver, its own
     user fields and does not share mutable data through actions or the `io.Writer` passed to
     `WriteSyntaxTree`.  This is the hypothesis `sound` below; it is supported dynamically by
     `harness/cmd/racex` (32 goroutines under the race detector, results equal to solo runs).
-/
import PegVerif.Proofs.SchedLemmas
import PegVerif.Generated.Footprints

namespace PegVerif
open Sched Generated

/-- The only package-level variable of generated parsers is the rule-name table. -/
theorem C14_only_name_table : tmplPkgVars = ["rul3s"] := by decide

/-- It is never written (nor is its address taken). -/
theorem C14_no_pkg_writes : tmplPkgVarWrites = [] := by decide

/-- The runtime starts no goroutine and uses no channel or `sync` primitive. -/
theorem C14_no_goroutines : tmplGoStmts = [] := by decide

/-- Instances are confined: for every interleaving of the operations of any number of instances, the
    state of instance `i` at the end is the one obtained by running only `i`'s operations, from any
    global state with the same `i`-part. -/
theorem C14_instances_confined {ι S : Type} [DecidableEq ι] {g : PSys ι S}
    (sound : tmplPkgVarWrites = [] → tmplGoStmts = [] → Confined g)
    (i : ι) (s : List ι) (σ τ : ι → S) (h : σ i = τ i) :
    prun g s σ i = prun g (s.filter (· = i)) τ i :=
  product_noninterference (sound C14_no_pkg_writes C14_no_goroutines) i s σ τ h

/-- The same with the solo run made explicit. -/
theorem C14_instances_solo {ι S : Type} [DecidableEq ι] {g : PSys ι S}
    (sound : tmplPkgVarWrites = [] → tmplGoStmts = [] → Confined g) (i : ι) :
    ∃ f : S → S, ∀ (s : List ι) (σ : ι → S), prun g s σ i = iter f (s.count i) (σ i) :=
  product_noninterference_local (sound C14_no_pkg_writes C14_no_goroutines) i

/-- With the shared package data (`rul3s`, constants) explicit: since nothing writes it, it is
    unchanged by every schedule and each instance computes its solo run against it. -/
theorem C14_instances_confined_ro {ι C S : Type} [DecidableEq ι] {g : RSys ι C S}
    (sound : tmplPkgVarWrites = [] → tmplGoStmts = [] → ∀ i c x, (g i c x).1 = c)
    (i : ι) (s : List ι) (c : C) (σ : ι → S) :
    (rrun g s (c, σ)).1 = c ∧
    (rrun g s (c, σ)).2 i = iter (fun x => (g i c x).2) (s.count i) (σ i) :=
  product_noninterference_ro (sound C14_no_pkg_writes C14_no_goroutines) i s c σ

/-! ### Non-vacuity -/

namespace C14Example

/-- Three "parser instances"; the state of one is `(position, tokenIndex)`; the shared read-only
    table is a number every step adds to `tokenIndex`. -/
def g : RSys (Fin 3) Nat (Nat × Nat) := fun i c x => (c, (x.1 + 1 + i.val, x.2 + c))

example : (rrun g [0, 2, 1, 2, 0, 2] (10, fun _ => (0, 0))).2 2 = (9, 30) := by decide

example : (rrun g [0, 2, 1, 2, 0, 2] (10, fun _ => (0, 0))).2 2 =
    iter (fun x => (g 2 10 x).2) 3 (0, 0) :=
  (C14_instances_confined_ro (g := g) (fun _ _ _ _ _ => rfl) 2 _ 10 _).2

/-- The product form, hypotheses discharged for a concrete system. -/
def p : PSys (Fin 3) (Nat × Nat) := fun i σ j => if j = i then ((σ i).1 + 1, (σ i).2 + 2) else σ j

theorem p_confined : Confined p := by
  constructor
  · intro i σ j hj; simp [p, hj]
  · intro i σ τ h; simp [p, h]

example : prun p [0, 2, 1, 2, 0, 2] (fun _ => (0, 0)) 2 = prun p [2, 2, 2] (fun _ => (0, 0)) 2 :=
  C14_instances_confined (fun _ _ => p_confined) 2 _ _ _ rfl

/-- Teeth: with a shared mutable cell (what a package-level `position` would be) the result of one
    instance depends on the others — confinement is a real hypothesis. -/
def bad : RSys (Fin 2) Nat Nat := fun _ c x => (c + 1, x + c)

example : (rrun bad [0, 1] (0, fun _ => 0)).2 1 ≠ (rrun bad [1] (0, fun _ => 0)).2 1 := by decide

end C14Example

end PegVerif

#print axioms PegVerif.C14_only_name_table
#print axioms PegVerif.C14_no_pkg_writes
#print axioms PegVerif.C14_no_goroutines
#print axioms PegVerif.C14_instances_confined
#print axioms PegVerif.C14_instances_solo
#print axioms PegVerif.C14_instances_confined_ro
#print axioms PegVerif.Sched.product_noninterference
