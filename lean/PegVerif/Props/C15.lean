import PegVerif.Proofs.DiagUniq
import PegVerif.Proofs.DiagWitness
/-
  Property C15 — grammar diagnostics of the generator (`tree/peg.go`: first pass of `Compile`,
  `link`, `countRules`, `checkRecursion`, `warn`, the emission loop, `-strict`).

  Model: `PegVerif.diagnostics` (Model/Diag.lean) on the rules the front end built; it is tied to
  the real generator by T-diag (`bin/tdiag.py`, ordered warning lines, strict / non-strict error).
  Spec (Model/Diag.lean, Part 2): `Reachable`, `UndefinedIn`, `MustConsume`, `FirstRef`, `LeftRec`
  (and the coarser `LeftRecW`).  `G := (linkGrammar rules).G` is the tree after `link`: the user's
  rules (bodies wrapped), then a `nil` stub per undefined name / `PegText`, and one rule per action;
  `(linkGrammar rules).referenced` are the names `link` recorded in `t.referenced` (every name some
  expression refers to: `referenced_iff`).

  Results for ALL grammars (no bound on size):
    duplicates  : `duplicate_iff`, `duplicate_diagnosed`, `duplicate_diagnosed'`          (full)
    strict      : `strict_fails_iff`, `strict_error`, `lax_error`, `silent_iff`, `silent_spec` (full)
    unused      : `unused_exact`, `unused_exact_front`                                     (full)
    undefined   : `undefined_exact`, `undefined_literal`                                    (full; also
                  for the name `PegText`: `undefined_pegtext`, and a grammar that only captures stays
                  silent: `capture_only_silent`)
    left rec.   : `leftrec_complete`     every left-recursive rule is warned                 (full)
                  `leftrec_exists_iff`   some warning ⇔ some rule is left recursive          (full; this
                                          is the property text: "reports … exactly when some rule …")
                  `leftrec_sound_weak`   every warned rule lies on a cycle of `FirstRefW`    (full)
                  `leftrec_sound_partial` the first warning of every run is left recursive  (partial:
                                          decidable side condition)
                  per-rule soundness against `LeftRec` is FALSE: `leftrec_sound_per_rule_false`.
-/
namespace PegVerif.C15
open PegVerif

/-! ## duplicates -/

/-- The first pass reports a duplicate exactly when two rules share a name. -/
theorem duplicate_iff (rules : List Rule) :
    (diagnostics rules).dupError = none ↔ (rules.map (·.name)).Nodup := by
  rw [← firstPass_dup_none]
  cases h : (firstPass rules).2 with
  | none => simp [diagnostics_of_nodup h]
  | some n => simp [diagnostics_of_dup h]

/-- A rule defined twice is diagnosed (the model has no panic outcome; T-diag checks the real
    generator does not panic): an error is returned whether or not `-strict`, nothing else is reported. -/
theorem duplicate_diagnosed (rules : List Rule) (h : ¬ (rules.map (·.name)).Nodup) :
    ∃ n, (diagnostics rules).dupError = some ("rule '" ++ n ++ "' defined more than once") ∧
      (diagnostics rules).warnings = [] ∧
      ∀ strict, (diagnostics rules).error strict = some ("rule '" ++ n ++ "' defined more than once") := by
  cases hd : (firstPass rules).2 with
  | none => exact absurd ((firstPass_dup_none rules).mp hd) h
  | some n =>
    refine ⟨n, ?_, ?_, ?_⟩ <;> simp [diagnostics_of_dup hd, DiagResult.warnings, DiagResult.error]

/-- the same, for two rules at different places with the same name (also the first rule, also a
    third definition) -/
theorem duplicate_diagnosed' (a b c : List Rule) (r1 r2 : Rule) (h : r1.name = r2.name) :
    (diagnostics (a ++ r1 :: b ++ r2 :: c)).dupError ≠ none := by
  intro hnone
  have := (duplicate_iff _).mp hnone
  simp [List.nodup_append, h] at this

example : (diagnostics [⟨"R0", 0, .chr 97⟩, ⟨"R0", 1, .chr 98⟩, ⟨"R0", 2, .dot⟩]).dupError =
    some "rule 'R0' defined more than once" := by decide

/-! ## -strict -/

theorem strict_fails_iff (rules : List Rule) :
    (diagnostics rules).strictFails = true ↔
      (diagnostics rules).warnings ≠ [] ∨ (diagnostics rules).dupError ≠ none := by
  cases h : (firstPass rules).2 with
  | none => simp [diagnostics_of_nodup h, DiagResult.warnings]
  | some n => simp [diagnostics_of_dup h]

/-- with `-strict`, `Compile` returns an error exactly when `strictFails`; it is `t.werr` -/
theorem strict_error (rules : List Rule) :
    ((diagnostics rules).error true).isSome = (diagnostics rules).strictFails ∧
    ((diagnostics rules).dupError = none → (diagnostics rules).strictFails = true →
      (diagnostics rules).error true = some (diagnostics rules).werr) := by
  cases h : (firstPass rules).2 with
  | none =>
    simp only [diagnostics_of_nodup h, DiagResult.error]
    cases hd : (grammarDiags (linkGrammar rules).G (linkGrammar rules).referenced).isEmpty <;> simp
  | some n => simp [diagnostics_of_dup h, DiagResult.error]

/-- without `-strict`, only a duplicate makes `Compile` fail -/
theorem lax_error (rules : List Rule) : (diagnostics rules).error false = (diagnostics rules).dupError := by
  cases h : (firstPass rules).2 with
  | none => simp [diagnostics_of_nodup h, DiagResult.error]
  | some n => simp [diagnostics_of_dup h, DiagResult.error]

/-- generation is silent (nothing printed, no error even under `-strict`) iff there is no diagnostic -/
theorem silent_iff (rules : List Rule) :
    ((diagnostics rules).werr = "" ∧ (diagnostics rules).error true = none) ↔
      ((diagnostics rules).warnings = [] ∧ (diagnostics rules).dupError = none) := by
  cases h : (firstPass rules).2 with
  | none =>
    simp only [diagnostics_of_nodup h, DiagResult.error, DiagResult.werr, DiagResult.warnings]
    cases hd : grammarDiags (linkGrammar rules).G (linkGrammar rules).referenced with
    | nil => simp [String.intercalate]
    | cons d ds => simp
  | some n => simp [diagnostics_of_dup h, DiagResult.error]

/-! ## defined but not used -/

/-- "defined but not used" is reported for exactly the rules of the linked grammar that have a body
    (user rules and action rules) and are not reachable from the first rule. -/
theorem unused_exact {rules : List Rule} {first : Rule} {rest : List Rule}
    (hdup : (diagnostics rules).dupError = none)
    (hfirst : (linkGrammar rules).G.rules = first :: rest) (n : String) :
    ("rule '" ++ n ++ "' defined but not used") ∈ (diagnostics rules).warnings ↔
      (∃ ru, ru ∈ (linkGrammar rules).G.rules ∧ ru.name = n ∧ ru.body ≠ .nil) ∧
      ¬ Reachable (linkGrammar rules).G first.name n := by
  have hd : (firstPass rules).2 = none := (firstPass_dup_none rules).mpr ((duplicate_iff rules).mp hdup)
  have := render_mem_warnings (diagnostics rules) (.unusedRule n)
  rw [render_unused] at this
  rw [this, diagnostics_of_nodup hd]
  simp only [mem_grammarDiags_unused]
  constructor
  · rintro ⟨ru, hru, hb, hn, hnr⟩
    refine ⟨⟨ru, hru, hn, hb⟩, fun hreach => hnr ((reached_iff hfirst n).mpr ⟨hreach, ?_⟩)⟩
    obtain ⟨r', hr'⟩ := find_of_mem hru
    exact ⟨r', hn ▸ hr'⟩
  · rintro ⟨⟨ru, hru, hn, hb⟩, hnr⟩
    exact ⟨ru, hru, hb, hn, fun h => hnr ((reached_iff hfirst n).mp h).1⟩

/-- for the user's own rules: reported iff unreachable from the first rule -/
theorem unused_exact_front {rules : List Rule} {r0 : Rule} {rs : List Rule} (hrules : rules = r0 :: rs)
    (hdup : (diagnostics rules).dupError = none) {r : Rule} (hr : r ∈ rules) :
    ("rule '" ++ r.name ++ "' defined but not used") ∈ (diagnostics rules).warnings ↔
      ¬ Reachable (linkGrammar rules).G r0.name r.name := by
  have hd : (firstPass rules).2 = none := (firstPass_dup_none rules).mpr ((duplicate_iff rules).mp hdup)
  obtain ⟨first, rest, hG, hname⟩ := linkGrammar_first hd hrules
  rw [unused_exact hdup hG, hname]
  obtain ⟨ru, hru, hn, hb⟩ := front_rule_linked hd hr
  exact ⟨fun h => h.2, fun h => ⟨⟨ru, hru, hn, hb⟩, h⟩⟩

/-! ## used but not defined -/

/-- `t.referenced` after `link`: the names that some rule mentions (at any place, reachable or not). -/
theorem referenced_spec {rules : List Rule} (hdup : (diagnostics rules).dupError = none)
    (hfront : FrontRules rules) (n : String) :
    n ∈ (linkGrammar rules).referenced ↔ ∃ r, r ∈ rules ∧ Mentions r.body n :=
  referenced_iff ((firstPass_dup_none rules).mpr ((duplicate_iff rules).mp hdup)) hfront n

/-- "used but not defined" is reported for exactly the names that are mentioned by some rule —
    reachable or NOT — and are not the name of a rule.  This includes the name `PegText`: the stub
    `link` creates for a capture `<…>` is reported iff some expression refers to it.
    Side conditions: the rules come from the front end (no `inl` node), and `n` is not of the
    form `Action<k>` (names `link` itself creates). -/
theorem undefined_exact {rules : List Rule} (hdup : (diagnostics rules).dupError = none)
    (hfront : FrontRules rules) {n : String} (hn : ¬ isAct n) :
    ("rule '" ++ n ++ "' used but not defined") ∈ (diagnostics rules).warnings ↔ UndefinedIn rules n := by
  have hd : (firstPass rules).2 = none := (firstPass_dup_none rules).mpr ((duplicate_iff rules).mp hdup)
  have := render_mem_warnings (diagnostics rules) (.undefinedRule n)
  rw [render_undefined] at this
  rw [this, diagnostics_of_nodup hd]
  simp only [mem_grammarDiags_undefined]
  have hs := stub_iff hd hfront hn
  have href := referenced_iff hd hfront n
  constructor
  · rintro ⟨ru, hru, hb, hnm, hrf⟩
    obtain ⟨h1, _⟩ := hs.mp ⟨ru, hru, hb, hnm⟩
    exact ⟨href.mp hrf, h1⟩
  · rintro ⟨⟨r, hr, hm⟩, h1⟩
    obtain ⟨ru, hru, hb, hnm⟩ := hs.mpr ⟨h1, r, hr, Or.inl ((mentions_iff_refs _ _).mp hm)⟩
    exact ⟨ru, hru, hb, hnm, href.mpr ⟨r, hr, hm⟩⟩

/-- The literal reading of the property, for all grammars and all names at once (this is the
    statement that was false before the repair of F-C15-1, witness `R0 <- PegText`). -/
theorem undefined_literal :
    ∀ (rules : List Rule) (n : String), (diagnostics rules).dupError = none → FrontRules rules → ¬ isAct n →
      (("rule '" ++ n ++ "' used but not defined") ∈ (diagnostics rules).warnings ↔ UndefinedIn rules n) :=
  fun _ _ hdup hfront hn => undefined_exact hdup hfront hn

/-- `PegText` is a name like any other: reported iff mentioned and not defined — whether or not
    the grammar has captures. -/
theorem undefined_pegtext {rules : List Rule} (hdup : (diagnostics rules).dupError = none)
    (hfront : FrontRules rules) :
    "rule 'PegText' used but not defined" ∈ (diagnostics rules).warnings ↔ UndefinedIn rules "PegText" :=
  undefined_exact (n := "PegText") hdup hfront pegText_not_act

/-- `R0 <- PegText` (the replay of F-C15-1) is reported, and fails under `-strict` -/
example : (diagnostics [⟨"R0", 0, .name "PegText"⟩]).warnings = ["rule 'PegText' used but not defined"] ∧
    (diagnostics [⟨"R0", 0, .name "PegText"⟩]).strictFails = true := by decide
/-- … also when a capture created the stub first, or creates it later -/
example : (diagnostics [⟨"R0", 0, .seq [.push (.chr 97) "", .name "R1"]⟩, ⟨"R1", 1, .name "PegText"⟩]).warnings =
    ["rule 'PegText' used but not defined"] := by decide
example : (diagnostics [⟨"R0", 0, .seq [.name "PegText", .name "U"]⟩, ⟨"R1", 1, .push (.chr 97) ""⟩]).warnings =
    ["rule 'R1' defined but not used", "rule 'PegText' used but not defined", "rule 'U' used but not defined"] := by
  decide
/-- a grammar that only captures is silent; so is one that defines `PegText` itself -/
theorem capture_only_silent :
    (diagnostics [⟨"R0", 0, .push (.chr 97) ""⟩]).warnings = [] ∧
    (diagnostics [⟨"R0", 0, .push (.chr 97) ""⟩]).strictFails = false := by decide
example : (diagnostics [⟨"R0", 0, .seq [.push (.chr 97) "", .name "PegText"]⟩, ⟨"PegText", 1, .chr 98⟩]).warnings = [] := by
  decide

/-! ## possible infinite left recursion -/

/-- COMPLETE (per rule): every left-recursive rule is reported — directly or indirectly recursive,
    behind nullable prefixes (also nullable *rules*), under `? * + & ! <>`, in any alternative,
    reachable from the first rule or not. -/
theorem leftrec_complete {rules : List Rule} (hdup : (diagnostics rules).dupError = none) {n : String}
    (h : LeftRec (linkGrammar rules).G n) :
    ("possible infinite left recursion in rule '" ++ n ++ "'") ∈ (diagnostics rules).warnings := by
  have hd : (firstPass rules).2 = none := (firstPass_dup_none rules).mpr ((duplicate_iff rules).mp hdup)
  have := render_mem_warnings (diagnostics rules) (.leftRec n)
  rw [render_leftRec] at this
  rw [this, diagnostics_of_nodup hd]
  exact (mem_grammarDiags_leftRec _ _ _).mpr (recWarnings_complete h)

/-- SOUND, weak form (per rule): every reported rule lies on a cycle of references in
    syntactically-first position (`LeftRecW` ⊇ `LeftRec`). -/
theorem leftrec_sound_weak {rules : List Rule} (hdup : (diagnostics rules).dupError = none)
    (hu : (linkGrammar rules).G.Uniq) {n : String}
    (h : ("possible infinite left recursion in rule '" ++ n ++ "'") ∈ (diagnostics rules).warnings) :
    LeftRecW (linkGrammar rules).G n := by
  have hd : (firstPass rules).2 = none := (firstPass_dup_none rules).mpr ((duplicate_iff rules).mp hdup)
  have := render_mem_warnings (diagnostics rules) (.leftRec n)
  rw [render_leftRec] at this
  rw [this, diagnostics_of_nodup hd] at h
  exact recWarnings_weak hu ((mem_grammarDiags_leftRec _ _ _).mp h)

theorem leftRec_sub_leftRecW {G : Grammar} {n : String} (h : LeftRec G n) : LeftRecW G n := h.weak

/-- SOUND, partial (decidable side condition: `n` is the FIRST rule reported by the run of
    `checkRecursion` started at some rule `ru`): then `n` is left recursive. -/
theorem leftrec_sound_partial {rules : List Rule} (hu : (linkGrammar rules).G.Uniq) {ru : Rule}
    (hru : ru ∈ (linkGrammar rules).G.rules) {n : String}
    (hfirst : (recWarningsOf (linkGrammar rules).G ru).head? = some n) :
    LeftRec (linkGrammar rules).G n :=
  recWarningsOf_first hu hru hfirst

/-- EXACT at the level of the grammar (the property text): the diagnostic is reported iff some
    rule can re-enter itself without having consumed input. -/
theorem leftrec_exists_iff {rules : List Rule} (hdup : (diagnostics rules).dupError = none)
    (hu : (linkGrammar rules).G.Uniq) :
    (∃ n, ("possible infinite left recursion in rule '" ++ n ++ "'") ∈ (diagnostics rules).warnings) ↔
      ∃ n, LeftRec (linkGrammar rules).G n := by
  have hd : (firstPass rules).2 = none := (firstPass_dup_none rules).mpr ((duplicate_iff rules).mp hdup)
  constructor
  · rintro ⟨n, h⟩
    have := render_mem_warnings (diagnostics rules) (.leftRec n)
    rw [render_leftRec] at this
    rw [this, diagnostics_of_nodup hd] at h
    have hn := (mem_grammarDiags_leftRec _ _ _).mp h
    exact recWarnings_exists hu (by intro h0; rw [h0] at hn; cases hn)
  · rintro ⟨n, h⟩
    exact ⟨n, leftrec_complete hdup h⟩

/-- A grammar generates silently (also under `-strict`) iff it has no duplicate, no left-recursive
    rule, no stub that an expression refers to (the only stub nothing refers to is the `PegText` of
    a grammar that captures: `silent_spec_front`), and every rule with a body is reachable. -/
theorem silent_spec {rules : List Rule} {first : Rule} {rest : List Rule}
    (hdup : (diagnostics rules).dupError = none) (hu : (linkGrammar rules).G.Uniq)
    (hfirst : (linkGrammar rules).G.rules = first :: rest) :
    (diagnostics rules).warnings = [] ↔
      (∀ n, ¬ LeftRec (linkGrammar rules).G n) ∧
      (∀ ru, ru ∈ (linkGrammar rules).G.rules → ru.body = .nil → ru.name ∉ (linkGrammar rules).referenced) ∧
      (∀ ru, ru ∈ (linkGrammar rules).G.rules → ru.body ≠ .nil → Reachable (linkGrammar rules).G first.name ru.name) := by
  have hd : (firstPass rules).2 = none := (firstPass_dup_none rules).mpr ((duplicate_iff rules).mp hdup)
  constructor
  · intro hw
    have hnone : ∀ d : Diag, d ∉ grammarDiags (linkGrammar rules).G (linkGrammar rules).referenced := by
      intro d hdm
      have := (render_mem_warnings (diagnostics rules) d).mpr (by rw [diagnostics_of_nodup hd]; exact hdm)
      rw [hw] at this; cases this
    refine ⟨fun n h => ?_, fun ru hru hb => ?_, fun ru hru hb => ?_⟩
    · exact hnone _ ((mem_grammarDiags_leftRec _ _ _).mpr (recWarnings_complete h))
    · intro href
      exact hnone _ ((mem_grammarDiags_undefined _ _ _).mpr ⟨ru, hru, hb, rfl, href⟩)
    · apply Classical.byContradiction
      intro hnr
      refine hnone _ ((mem_grammarDiags_unused _ _ ru.name).mpr ⟨ru, hru, hb, rfl, fun h => hnr ?_⟩)
      exact ((reached_iff hfirst _).mp h).1
  · rintro ⟨h1, h2, h3⟩
    have : grammarDiags (linkGrammar rules).G (linkGrammar rules).referenced = [] := by
      cases hg : grammarDiags (linkGrammar rules).G (linkGrammar rules).referenced with
      | nil => rfl
      | cons d ds =>
        have hdm : d ∈ grammarDiags (linkGrammar rules).G (linkGrammar rules).referenced := by simp [hg]
        cases d with
        | leftRec n =>
          have hn := (mem_grammarDiags_leftRec _ _ _).mp hdm
          obtain ⟨x, hx⟩ := recWarnings_exists hu (by intro h0; rw [h0] at hn; cases hn)
          exact absurd hx (h1 x)
        | undefinedRule n =>
          obtain ⟨ru, hru, hb, hn, href⟩ := (mem_grammarDiags_undefined _ _ _).mp hdm
          exact absurd (hn ▸ href) (h2 ru hru hb)
        | unusedRule n =>
          obtain ⟨ru, hru, hb, hn, hnr⟩ := (mem_grammarDiags_unused _ _ _).mp hdm
          obtain ⟨r', hr'⟩ := find_of_mem hru
          exact absurd ((reached_iff hfirst n).mpr ⟨hn ▸ h3 ru hru hb, ⟨r', hn ▸ hr'⟩⟩) hnr
    simp [diagnostics_of_nodup hd, DiagResult.warnings, this]

/-- `silent_spec` for the rules of the front end, in terms of the user's grammar: the second
    condition says that no rule mentions the name of a stub — i.e. nothing is undefined; a stub that
    nothing mentions can only be the `PegText` a capture made. -/
theorem silent_spec_front {rules : List Rule} {first : Rule} {rest : List Rule}
    (hdup : (diagnostics rules).dupError = none) (hu : (linkGrammar rules).G.Uniq)
    (hfront : FrontRules rules) (hfirst : (linkGrammar rules).G.rules = first :: rest) :
    (diagnostics rules).warnings = [] ↔
      (∀ n, ¬ LeftRec (linkGrammar rules).G n) ∧
      (∀ ru, ru ∈ (linkGrammar rules).G.rules → ru.body = .nil → ∀ r, r ∈ rules → ¬ Mentions r.body ru.name) ∧
      (∀ ru, ru ∈ (linkGrammar rules).G.rules → ru.body ≠ .nil → Reachable (linkGrammar rules).G first.name ru.name) := by
  rw [silent_spec hdup hu hfirst]
  have href := referenced_spec hdup hfront
  constructor
  · rintro ⟨h1, h2, h3⟩
    exact ⟨h1, fun ru hru hb r hr hm => h2 ru hru hb ((href _).mpr ⟨r, hr, hm⟩), h3⟩
  · rintro ⟨h1, h2, h3⟩
    refine ⟨h1, fun ru hru hb hmem => ?_, h3⟩
    obtain ⟨r, hr, hm⟩ := (href _).mp hmem
    exact h2 ru hru hb r hr hm

/-- a stub that no rule mentions is the `PegText` of a capture (not an `Action<k>` name) -/
theorem unreferenced_stub_is_pegtext {rules : List Rule} (hdup : (diagnostics rules).dupError = none)
    (hfront : FrontRules rules) {ru : Rule} (hru : ru ∈ (linkGrammar rules).G.rules) (hb : ru.body = .nil)
    (hact : ¬ isAct ru.name) (hno : ∀ r, r ∈ rules → ¬ Mentions r.body ru.name) : ru.name = "PegText" := by
  have hd : (firstPass rules).2 = none := (firstPass_dup_none rules).mpr ((duplicate_iff rules).mp hdup)
  obtain ⟨_, r, hr, hw⟩ := (stub_iff hd hfront hact).mp ⟨ru, hru, hb, rfl⟩
  rcases hw with hw | ⟨hw, _⟩
  · exact absurd ((mentions_iff_refs _ _).mpr hw) (hno r hr)
  · exact hw

/-! ## per-rule soundness against `LeftRec` is false for the code as it is

  FULL statement (refuted below):
    ∀ rules n, no duplicate → Uniq → front rules →
      "possible infinite left recursion in rule 'n'" ∈ warnings → LeftRec G n

  Witness   R0 <- R1
            R1 <- R1 R0 'a'
  `R1` must consume (it ends in 'a'), so `R0` in the body of `R1` is NOT in first position and `R0`
  cannot re-enter itself: it calls `R1`, which calls `R1`, … for ever.  The run of `checkRecursion`
  started at `R0` cuts the cycle at the inner `R1` (returns "does not consume"), therefore goes on to
  the next element `R0`, finds it marked and reports `R0`.  (Harmless for the user: the grammar IS
  left recursive, `R1` is reported too; only the attribution to `R0` is spurious.) -/

/-- the model reports `R0` for the witness (T-diag replays it on the real generator) -/
example : (diagnostics wRules).warnings =
    ["possible infinite left recursion in rule 'R1'", "possible infinite left recursion in rule 'R0'",
     "possible infinite left recursion in rule 'R1'", "possible infinite left recursion in rule 'R1'"] := w_warnings
example : ¬ LeftRec (linkGrammar wRules).G "R0" := wG_eq ▸ w_R0_not_leftrec
example : LeftRecW (linkGrammar wRules).G "R0" :=
  leftrec_sound_weak (rules := wRules) (by decide) (by decide) (by rw [w_warnings]; decide)

theorem leftrec_sound_per_rule_false :
    ¬ ∀ (rules : List Rule) (n : String), (diagnostics rules).dupError = none →
      (linkGrammar rules).G.Uniq → FrontRules rules →
      ("possible infinite left recursion in rule '" ++ n ++ "'") ∈ (diagnostics rules).warnings →
      LeftRec (linkGrammar rules).G n := by
  intro h
  have := h wRules "R0" (by decide) (by decide) (by intro r hr; simp [wRules] at hr; rcases hr with rfl | rfl <;> rfl)
    (by rw [w_warnings]; decide)
  rw [wG_eq] at this
  exact w_R0_not_leftrec this

/-! ## the side condition `Uniq` -/

/-- The linked grammar has pairwise different rule names as soon as the user's grammar has no
    duplicate and neither defines nor mentions a name of the form `Action<k>`. -/
theorem linked_uniq {rules : List Rule} (hdup : (diagnostics rules).dupError = none)
    (hnames : ∀ r, r ∈ rules → ¬ isAct r.name)
    (hrefs : ∀ r, r ∈ rules → ∀ n, Mentions r.body n → ¬ isAct n) : (linkGrammar rules).G.Uniq :=
  linkGrammar_uniq ((duplicate_iff rules).mp hdup) hnames hrefs

/-! ## non-vacuity -/

/-- `R0 <- R0 'a' / 'b'` : the hypothesis of `leftrec_complete` is satisfiable -/
def lrRules : List Rule := [⟨"R0", 0, .alt [.seq [.name "R0", .chr 97], .chr 98]⟩]
example : LeftRec (linkGrammar lrRules).G "R0" :=
  .single ⟨⟨"R0", 0, .ipush (.alt [.seq [.name "R0", .chr 97], .chr 98]) "R0"⟩, by rfl,
    .ipush (.alt (e := .seq [.name "R0", .chr 97]) (by simp) (.seq (pre := []) (by simp) (.name _)))⟩
example : (diagnostics lrRules).warnings = ["possible infinite left recursion in rule 'R0'"] := by decide
example : (diagnostics lrRules).strictFails = true := by decide

/-- guarded recursion `R0 <- 'a' R0 / 'b'` generates silently -/
def okRules : List Rule := [⟨"R0", 0, .alt [.seq [.chr 97, .name "R0"], .chr 98]⟩]
example : (diagnostics okRules).warnings = [] ∧ (diagnostics okRules).strictFails = false ∧
    (diagnostics okRules).dupError = none ∧ (linkGrammar okRules).G.Uniq := by decide

/-- recursion under `&` and `!`, in a later alternative, behind a nullable RULE -/
example : (diagnostics [⟨"R0", 0, .alt [.chr 97, .seq [.name "E", .peekNot (.name "R0")]]⟩,
                        ⟨"E", 1, .query (.chr 98)⟩]).warnings =
    ["possible infinite left recursion in rule 'R0'"] := by decide

/-- unreachable rule with an action and an undefined name; `PegText` is appended silently (a
    capture, no reference) -/
def mixRules : List Rule :=
  [⟨"R0", 0, .push (.chr 97) ""⟩, ⟨"R1", 1, .seq [.act "x", .name "U"]⟩]
example : (diagnostics mixRules).warnings =
    ["rule 'R1' defined but not used", "rule 'Action0' defined but not used", "rule 'U' used but not defined"] := by
  decide
example : (linkGrammar mixRules).G.Uniq ∧ FrontRules mixRules := by
  refine ⟨by decide, ?_⟩
  intro r hr; simp [mixRules] at hr; rcases hr with rfl | rfl <;> rfl
example : UndefinedIn mixRules "U" :=
  ⟨⟨_, List.mem_cons_of_mem _ List.mem_cons_self, .seq (e := .name "U") (by simp) (.name _)⟩,
   by intro r hr; simp [mixRules] at hr; rcases hr with rfl | rfl <;> decide⟩

end PegVerif.C15

#print axioms PegVerif.C15.duplicate_iff
#print axioms PegVerif.C15.duplicate_diagnosed
#print axioms PegVerif.C15.duplicate_diagnosed'
#print axioms PegVerif.C15.strict_fails_iff
#print axioms PegVerif.C15.strict_error
#print axioms PegVerif.C15.lax_error
#print axioms PegVerif.C15.silent_iff
#print axioms PegVerif.C15.silent_spec
#print axioms PegVerif.C15.unused_exact
#print axioms PegVerif.C15.unused_exact_front
#print axioms PegVerif.C15.undefined_exact
#print axioms PegVerif.C15.undefined_literal
#print axioms PegVerif.C15.undefined_pegtext
#print axioms PegVerif.C15.referenced_spec
#print axioms PegVerif.C15.capture_only_silent
#print axioms PegVerif.C15.silent_spec_front
#print axioms PegVerif.C15.unreferenced_stub_is_pegtext
#print axioms PegVerif.C15.leftrec_complete
#print axioms PegVerif.C15.leftrec_sound_weak
#print axioms PegVerif.C15.leftrec_sound_partial
#print axioms PegVerif.C15.leftrec_exists_iff
#print axioms PegVerif.C15.leftrec_sound_per_rule_false
#print axioms PegVerif.C15.linked_uniq
