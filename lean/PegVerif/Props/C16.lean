import PegVerif.Proofs.SetLemmas
/-
  Property C16 — the `set` package behaves as a mathematical set of code points.

  Model: `PegVerif.MSet` (Model/Set.lean), a case-by-case transcription of /repo/set/set.go, tied to
  the real code by the differential test `setx` (harness/cmd/setx) on the structural dump.
  All theorems quantify over EVERY set reachable from `NewSet()` by ANY sequence of in-domain
  `AddRange` calls (`Reachable`), and over every pair of such sets.

    Reachable s  :=  ∃ ops, (∀ o ∈ ops, InDom o.1 o.2) ∧ build ops = .ok s
    InDom b e    :=  0 ≤ b ∧ b ≤ e ∧ e < 2^31-1
    Inv s        :=  every interval has 0 ≤ lo ≤ hi < 2^31-1, and the list is strictly sorted and
                     pairwise disjoint (hi < lo' for every earlier/later pair).  Adjacent intervals
                     (hi + 1 = lo') are NOT merged by the code and are allowed by Inv.
    mem s x      :=  ∃ (lo,hi) ∈ s, lo ≤ x ≤ hi

  Purity.  The model is a value model: operations are functions from interval lists to results, so
  "no operation modifies its operands" cannot even be stated here — it holds by construction and says
  nothing about pointer aliasing in the Go code.  That part of the property is checked only by the
  differential test: `setx run` dumps both operands before and after every operation (`!MUTATED`),
  and checks that no result shares a node with an operand or another result (`ALIASED`).

  No panic.  `has`, `len`, `copy`, `intersects`, `complement` are total functions in the model because
  every dereference of the corresponding Go function is guarded for every representable state (see the
  header of Model/Set.lean); `addRange`/`union`/`equal`/`elems`/`toStr` return `Res`, and `no_panic`
  proves they return `.ok` on reachable sets.  The tie prints `PANIC` for any recovered Go panic.
-/
namespace PegVerif.MSet

instance (b e : Int) : Decidable (InDom b e) := by unfold InDom; infer_instance
instance (s : MSet) (x : Int) : Decidable (mem s x) := by unfold mem; infer_instance
instance (s : MSet) (L : Int) : Decidable (Within s L) := by unfold Within; infer_instance

/-- running example: inserted out of order, with an adjacent pair and a nested insertion. -/
def exOps : List Iv := [(5, 7), (1, 2), (8, 8), (0, 0), (6, 6), (12, 20)]
def exSet : MSet := [(0, 0), (1, 2), (5, 7), (8, 8), (12, 20)]
theorem exSet_build : build exOps = .ok exSet := by decide
theorem exSet_reachable : Reachable exSet := ⟨exOps, by decide, exSet_build⟩
def exSet2 : MSet := [(0, 2), (5, 8), (12, 15), (17, 20)]
theorem exSet2_reachable : Reachable exSet2 :=
  ⟨[(17, 20), (5, 8), (0, 2), (12, 15)], by decide, by decide⟩
/-- the empty set is reachable (no insertion at all). -/
theorem nil_reachable : Reachable [] := ⟨[], by simp, rfl⟩

/-! ## Invariant -/

/-- `Inv` holds after every sequence of in-domain insertions, and conversely every list satisfying
    `Inv` is produced by some such sequence: `Inv` is exactly the set of reachable structures. -/
theorem reachable_iff : Reachable s ↔ Inv s := reachable_iff_inv
example : Inv exSet := exSet_reachable.inv

/-- One more in-domain `AddRange` succeeds, stays reachable, and adds exactly `[b, e]`. -/
theorem addRange_spec' {s : MSet} {b e : Int} (hs : Reachable s) (hd : InDom b e) :
    ∃ s', addRange s b e = .ok s' ∧ Reachable s' ∧ ∀ x, mem s' x ↔ (b ≤ x ∧ x ≤ e) ∨ mem s x := by
  obtain ⟨s', h1, h2, h3⟩ := addRange_spec hs.inv hd
  exact ⟨s', h1, h2.reachable, h3⟩
example : ∃ s', addRange exSet 3 12 = .ok s' ∧ Reachable s' :=
  let ⟨s', h, r, _⟩ := addRange_spec' exSet_reachable (b := 3) (e := 12) (by decide); ⟨s', h, r⟩

/-- `Add(a)` adds exactly `a`. -/
theorem add_spec {s : MSet} {a : Int} (hs : Reachable s) (hd : InDom a a) :
    ∃ s', add s a = .ok s' ∧ Reachable s' ∧ ∀ x, mem s' x ↔ x = a ∨ mem s x := by
  obtain ⟨s', h1, h2, h3⟩ := addRange_spec' hs hd
  refine ⟨s', h1, h2, fun x => ?_⟩
  rw [h3]
  constructor
  · rintro (h | h)
    · exact Or.inl (by omega)
    · exact Or.inr h
  · rintro (h | h)
    · exact Or.inl (by omega)
    · exact Or.inr h

/-- The whole build: the members are exactly the union of the inserted ranges. -/
theorem build_spec {ops : List Iv} (hops : ∀ o ∈ ops, InDom o.1 o.2) :
    ∃ s, build ops = .ok s ∧ Inv s ∧ ∀ x, mem s x ↔ mem ops x := by
  obtain ⟨s, h1, h2, h3⟩ := addAll_spec Inv.nil hops
  exact ⟨s, h1, h2, fun x => by rw [h3]; simp [mem_nil]⟩

/-- members of a reachable set are code points. -/
theorem mem_bounds {s : MSet} (hs : Reachable s) {x : Int} (h : mem s x) : 0 ≤ x ∧ x < MAXI := by
  obtain ⟨p, hp, h1, h2⟩ := h
  have := hs.inv.1 p hp
  omega

/-! ## Has -/

/-- `Has` is membership, for every integer `x` (not only code points). -/
theorem has_iff {s : MSet} (hs : Reachable s) (x : Int) : has s x = true ↔ mem s x :=
  has_iff_of_inv hs.inv x
example : has exSet 6 = true ∧ has exSet 3 = false ∧ has [] 0 = false := by decide

/-! ## Len -/

/-- `Len` is the number of members: members are natural numbers (`mem_bounds`), and for any `N` above
    all of them `Len` equals the number of `n < N` that are members. -/
theorem len_eq_card {s : MSet} (hs : Reachable s) (N : Nat) (hN : ∀ x, mem s x → x < (N : Int)) :
    len s = (((List.range N).filter (fun (n : Nat) => memb s (n : Int))).length : Int) := by
  rw [← List.countP_eq_length_filter]
  refine len_eq_countP hs.inv N (fun p hp => hN p.2 ⟨p, hp, (hs.inv.1 p hp).2.1, by omega⟩)
example : len exSet = 16 ∧ len [] = 0 := by decide

/-! ## Copy -/

/-- `Copy` returns the same structure (for every list, reachable or not). -/
theorem copy_eq (s : MSet) : copy s = s := copy_eq_self s
example : copy exSet = exSet := by decide

/-! ## Union -/

/-- `Union` succeeds, its result is again reachable (so every other theorem applies to it), and its
    members are those of either operand. -/
theorem union_spec {a b : MSet} (ha : Reachable a) (hb : Reachable b) :
    ∃ u, union a b = .ok u ∧ Reachable u ∧ Inv u ∧ ∀ x, mem u x ↔ mem a x ∨ mem b x := by
  obtain ⟨u, h1, h2, h3⟩ := union_spec_of_inv ha.inv hb.inv
  exact ⟨u, h1, h2.reachable, h2, h3⟩
example : union exSet exSet2 = .ok [(0, 2), (5, 8), (12, 20)] := by decide

/-! ## Intersects -/

/-- `Intersects` is non-empty intersection. -/
theorem intersects_iff {a b : MSet} (ha : Reachable a) (hb : Reachable b) :
    intersects a b = true ↔ ∃ x, mem a x ∧ mem b x :=
  intersects_iff_of_bounds (fun p hp => (ha.inv.1 p hp).2.1) (fun p hp => (hb.inv.1 p hp).2.1)
example : intersects exSet exSet2 = true ∧ intersects exSet [(3, 4), (9, 11)] = false ∧
    intersects exSet [] = false ∧ intersects [] exSet = false := by decide

/-! ## Complement -/

/-- `Complement(L)` of a set within `[0, L]` is the complement within `[0, L]`; the result is again
    reachable and lies within `[0, L]`. -/
theorem complement_spec {s : MSet} {L : Int} (hs : Reachable s) (hw : Within s L)
    (hL0 : 0 ≤ L) (hL : L < MAXI) :
    (∀ x, mem (complement s L) x ↔ 0 ≤ x ∧ x ≤ L ∧ ¬ mem s x) ∧
    Reachable (complement s L) ∧ Within (complement s L) L := by
  obtain ⟨h1, h2, h3⟩ := complement_spec_of_tame hs.inv (tame_of_within hs.inv hw) hL0 hL
  exact ⟨h1, h2.reachable, h3⟩

/-- the form asked for: for `0 ≤ x ≤ L`, `x` is in the complement iff it is not in `s`. -/
theorem complement_spec_mem {s : MSet} {L x : Int} (hs : Reachable s) (hw : Within s L)
    (hL : L < MAXI) (hx0 : 0 ≤ x) (hxL : x ≤ L) : mem (complement s L) x ↔ ¬ mem s x := by
  rw [(complement_spec hs hw (by omega) hL).1]
  exact ⟨fun h => h.2.2, fun h => ⟨hx0, hxL, h⟩⟩
example : Within exSet 20 ∧ complement exSet 20 = [(3, 4), (9, 11)] ∧
    complement exSet 25 = [(3, 4), (9, 11), (21, 25)] ∧
    complement [] 5 = [(0, 5)] ∧ complement [(0, 5)] 5 = [] := by decide

/-- A weaker precondition that is sufficient (and covers the one call in `tree/peg.go`,
    `{EndSymbol}.Complement(EndSymbol-1)`, whose receiver is NOT within `[0, L]`): `Tame L s` — no
    interval starts above `L+1` and only the last interval may reach `L`. -/
theorem complement_spec_tame {s : MSet} {L : Int} (hs : Reachable s) (hT : Tame L s)
    (hL0 : 0 ≤ L) (hL : L < MAXI) :
    (∀ x, mem (complement s L) x ↔ 0 ≤ x ∧ x ≤ L ∧ ¬ mem s x) ∧
    Reachable (complement s L) ∧ Within (complement s L) L := by
  obtain ⟨h1, h2, h3⟩ := complement_spec_of_tame hs.inv hT hL0 hL
  exact ⟨h1, h2.reachable, h3⟩
example : Tame 0x10FFFF [(0x110000, 0x110000)] ∧
    complement [(0x110000, 0x110000)] 0x10FFFF = [(0, 0x10FFFF)] := ⟨by simp [Tame], by decide⟩

/-- Without a precondition on the receiver the statement is FALSE for the code as it is: for a
    reachable set that extends beyond `L`, `Complement(L)` can return a structure that is not even
    sorted and contains members of `s` — `{3..5, 6..8}.Complement(5)` is `[(0,2),(0,5)]` — or members
    above `L` — `{7}.Complement(5)` is `[(0,6)]`.  Both replayed on the Go code (see report). -/
theorem complement_unrestricted_false :
    ¬ (∀ (s : MSet) (L x : Int), Reachable s → 0 ≤ L → L < MAXI → 0 ≤ x → x ≤ L →
        (mem (complement s L) x ↔ ¬ mem s x)) := by
  intro h
  have hr : Reachable [(3, 5), (6, 8)] := ⟨[(3, 5), (6, 8)], by decide, by decide⟩
  have := h [(3, 5), (6, 8)] 5 3 hr (by decide) (by decide) (by decide) (by decide)
  revert this
  decide

theorem complement_unrestricted_escapes :
    ¬ (∀ (s : MSet) (L x : Int), Reachable s → 0 ≤ L → L < MAXI → mem (complement s L) x → x ≤ L) := by
  intro h
  have hr : Reachable [(7, 7)] := ⟨[(7, 7)], by decide, by decide⟩
  have := h [(7, 7)] 5 6 hr (by decide) (by decide) (by decide)
  revert this
  decide

/-! ## Equal -/

/-- `Equal` terminates and is extensional equality (adjacent, never merged intervals included). -/
theorem equal_iff {a b : MSet} (ha : Reachable a) (hb : Reachable b) :
    equal a b = .ok true ↔ ∀ x, mem a x ↔ mem b x :=
  equal_iff_of_inv ha.inv hb.inv

theorem equal_total (a b : MSet) : equal a b = .ok true ∨ equal a b = .ok false := by
  rw [equal_eq]; cases decide (norm a = norm b) <;> simp
example : equal [(1, 1), (2, 2), (4, 6)] [(1, 2), (4, 4), (5, 6)] = .ok true ∧
    equal exSet exSet2 = .ok false ∧ equal [] [] = .ok true ∧ equal [] exSet = .ok false := by decide

/-! ## String -/

/-- `String` prints `render l` where `l` is the strictly ascending list of exactly the members
    (so `l` is THE ascending element list), of length `Len`. -/
theorem string_spec {s : MSet} (hs : Reachable s) :
    ∃ l, elems s = .ok l ∧ toStr s = .ok (render l) ∧ l.Pairwise (· < ·) ∧ (∀ x, x ∈ l ↔ mem s x) ∧
      (l.length : Int) = len s := by
  obtain ⟨l, h1, h2, h3, h4⟩ := elems_spec hs.inv
  exact ⟨l, h1, by simp [toStr, h1], h2, h3, h4⟩
example : elems exSet = .ok [0, 1, 2, 5, 6, 7, 8, 12, 13, 14, 15, 16, 17, 18, 19, 20] ∧
    elems [] = .ok [] := by decide
example : toStr [(0, 0), (1, 2), (5, 5)] = .ok "[0 1 2 5]" ∧ toStr [] = .ok "[]" := by decide

/-! ## No panic -/

/-- No operation leaves the `.ok` outcomes on reachable sets (the empty set included: `nil_reachable`).
    The remaining operations (`has len copy intersects complement`) are total in the model. -/
theorem no_panic {a b : MSet} (ha : Reachable a) (hb : Reachable b) {lo hi : Int} (hd : InDom lo hi) :
    (addRange a lo hi).isOk = true ∧ (add a lo).isOk = true ∧ (union a b).isOk = true ∧
    (equal a b).isOk = true ∧ (elems a).isOk = true ∧ (toStr a).isOk = true := by
  obtain ⟨_, h1, _⟩ := addRange_spec' ha hd
  obtain ⟨_, h2, _⟩ := addRange_spec' ha (b := lo) (e := lo) ⟨hd.1, by omega, by have := hd.2; omega⟩
  obtain ⟨_, h3, _⟩ := union_spec ha hb
  obtain ⟨_, h5, h6, _⟩ := string_spec ha
  refine ⟨by rw [h1]; rfl, by rw [add, h2]; rfl, by rw [h3]; rfl, ?_, by rw [h5]; rfl, by rw [h6]; rfl⟩
  rcases equal_total a b with h | h <;> rw [h] <;> rfl
example : (union [] []).isOk = true ∧ (equal [] []).isOk = true ∧ (toStr []).isOk = true ∧
    (addRange [] 0 0).isOk = true ∧ has [] 0 = false ∧ len [] = 0 ∧ copy [] = [] ∧
    intersects [] [] = false ∧ complement [] 0 = [(0, 0)] := by decide

/-! ## The hypotheses are satisfiable: every theorem instantiated at the running examples -/

example := has_iff exSet_reachable 6
example := len_eq_card exSet_reachable 21 (by
  rintro x ⟨p, hp, _, h2⟩
  simp only [exSet, List.mem_cons, List.not_mem_nil, or_false] at hp
  rcases hp with rfl | rfl | rfl | rfl | rfl <;> simp only at h2 <;> omega)
example := union_spec exSet_reachable exSet2_reachable
example := union_spec exSet_reachable nil_reachable
example := intersects_iff exSet_reachable exSet2_reachable
example := complement_spec exSet_reachable (L := 20) (by decide) (by decide) (by decide)
example := complement_spec nil_reachable (L := 0) (by decide) (by decide) (by decide)
example := complement_spec_tame (s := [(0x110000, 0x110000)]) (L := 0x10FFFF)
  ⟨[(0x110000, 0x110000)], by decide, by decide⟩ (by simp [Tame]) (by decide) (by decide)
example := equal_iff exSet_reachable exSet2_reachable
example := string_spec exSet_reachable
example := no_panic exSet_reachable nil_reachable (lo := 0) (hi := 2147483646) (by decide)

/-! ## Branch 6 of AddRange is dead code -/

/-- the sixth `else if` (`beginNode == endNode.Backward`) has the same condition as the fifth on a
    consistent doubly linked list: the model never reports it. -/
theorem addBranch_ne_6 (s : MSet) (b e : Int) : addBranch s b e ≠ 6 := by
  unfold addBranch
  split
  · decide
  · simp only []
    repeat' split
    all_goals omega

end PegVerif.MSet

open PegVerif.MSet in
#print axioms reachable_iff
#print axioms PegVerif.MSet.addRange_spec'
#print axioms PegVerif.MSet.add_spec
#print axioms PegVerif.MSet.build_spec
#print axioms PegVerif.MSet.has_iff
#print axioms PegVerif.MSet.len_eq_card
#print axioms PegVerif.MSet.copy_eq
#print axioms PegVerif.MSet.union_spec
#print axioms PegVerif.MSet.intersects_iff
#print axioms PegVerif.MSet.complement_spec
#print axioms PegVerif.MSet.complement_spec_mem
#print axioms PegVerif.MSet.complement_spec_tame
#print axioms PegVerif.MSet.complement_unrestricted_false
#print axioms PegVerif.MSet.complement_unrestricted_escapes
#print axioms PegVerif.MSet.equal_iff
#print axioms PegVerif.MSet.equal_total
#print axioms PegVerif.MSet.string_spec
#print axioms PegVerif.MSet.no_panic
#print axioms PegVerif.MSet.addBranch_ne_6
