import PegVerif.Props.C03
/-
  C17 — bootstrap chain and self-regeneration.  The byte-for-byte part is a finite computation that
  the check executes (`bootstrap.bash` in a scratch copy).  The part that quantifies over all grammar
  texts — "a front end regenerated from peg.peg under any option combination builds the same rule tree"
  — is an instance of the refinement theorem: a front end is a generated parser of the grammar
  `peg.peg`, the tree it builds is a function of the token list and the input (`Execute`, C04), and
  by C01/C03 verdict and token list are those of the PEG semantics, whatever program satisfying
  `World` was emitted.
-/
namespace PegVerif

variable {cfg : Cfg} {G : Grammar} {inp : List Sym}

/-- Two emitted programs for the same grammar (e.g. the checked-in front end and a regenerated one)
    agree on verdict, end position and token list for every input on which the semantics is defined
    — hence `Execute` drives the tree builder with the same action sequence. -/
theorem C17_frontends_agree {P1 P2 : Program} {env1 env2 : CEnv}
    (h1 : World P1 cfg env1 G inp) (h2 : World P2 cfg env2 G inp) {n c1 c2 res evs o1 o2 s1 s2}
    (f1 : P1.find n = some c1) (f2 : P2.find n = some c2)
    (hev : Eval G cfg.rho inp (.name n) 0 res evs)
    (r1 : Exec P1 cfg inp c1 0 St.init Frame.empty (o1, s1))
    (r2 : Exec P2 cfg inp c2 0 St.init Frame.empty (o2, s2)) :
    o1 = o2 ∧ s1.pos = s2.pos ∧ (o1 = .ret true → s1.tree.take s1.ti = s2.tree.take s2.ti) := by
  have a := R_rule_all h1 f1 hev rfl (Nat.zero_le _) (by simp [St.init]) memoOK_init r1
  have b := R_rule_all h2 f2 hev rfl (Nat.zero_le _) (by simp [St.init]) memoOK_init r2
  cases res with
  | ok p' f =>
    obtain ⟨a1, a2, _, a4, _⟩ := a
    obtain ⟨b1, b2, _, b4, _⟩ := b
    refine ⟨by rw [a1, b1], by rw [a2, b2], ?_⟩
    intro _; rw [a4, b4]
  | fail =>
    obtain ⟨a1, a2, _⟩ := a
    obtain ⟨b1, b2, _⟩ := b
    refine ⟨by rw [a1, b1], by rw [a2, b2], ?_⟩
    intro h; rw [a1] at h; cases h

end PegVerif

#print axioms PegVerif.C17_frontends_agree
