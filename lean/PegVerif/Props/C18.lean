/-
  C18 — "peg exits with status zero only when it has written a complete generated parser to the
  requested destination …; a missing or unreadable grammar, a grammar syntax error, or an
  unwritable destination produces a non-zero exit and a message, with or without -strict."

  All statements quantify over every `Scenario` (the finite table `Scenario.all`, 18432 rows, of
  `PegVerif/Model/Cli.lean`).  Each is decided by kernel evaluation (`decide +kernel`) of `cli` on
  the 2304 rows with -inline, -switch, -noast cleared and transported to all rows by `cli_norm`
  (`forall_of_core`, `PegVerif/Proofs/CliTable.lean`); `inv` is the one-line transport step.
-/
import PegVerif.Model.Cli
import PegVerif.Proofs.CliTable

namespace PegVerif.Cli

/-! ### exit 0 ⇒ complete parser at the requested destination -/

/-- Full-strength statement of the first half of C18. -/
def C18_exit0_complete_stmt : Prop :=
  ∀ s : Scenario, (cli s).exit = 0 → s.version = false →
    (cli s).written = .complete ∧ (cli s).destination = some (requested s)

/-- The scenario on which the statement FAILED before commit 04693db (`peg -syntax -output - g.peg`:
    dump and parser both on standard output, exit 0); kept as a regression witness. -/
def dumpToStdout : Scenario :=
  { source := .fileOk, grammar := .validSilent, dest := .stdoutDash, strict := false,
    inline := false, switch := false, noast := false, mode := .dump }

theorem dumpToStdout_outcome :
    cli dumpToStdout = ⟨0, true, .complete, some .stdout⟩ := by decide

/-- **C18, first half, at full strength**: exit status 0 (other than for -version) only with a
    complete parser at the requested destination. -/
theorem C18_exit0_complete : C18_exit0_complete_stmt :=
  forall_of_core (fun s h => by cases s; rw [cli_norm]; exact h) (by decide +kernel)

/-- Exit 0 without a complete parser happens only for -version. -/
theorem C18_exit0_incomplete_iff :
    ∀ s : Scenario, ((cli s).exit = 0 ∧ (cli s).written ≠ .complete) ↔ s.version = true :=
  forall_of_core (fun s h => by cases s; rw [cli_norm]; exact h) (by decide +kernel)

/-- Even in the dump-to-stdout case nothing goes to a wrong place: whatever was touched is the
    requested destination. -/
theorem C18_exit0_destination :
    ∀ s : Scenario, (cli s).exit = 0 → s.version = false →
      (cli s).destination = some (requested s) :=
  forall_of_core (fun s h => by cases s; rw [cli_norm]; exact h) (by decide +kernel)

/-! ### errors ⇒ non-zero exit and a message, with or without -strict -/

theorem C18_error_nonzero :
    ∀ s : Scenario, s.version = false →
      (badSource s = true ∨ syntaxBad s = true ∨ badDest s = true) →
      (cli s).exit ≠ 0 ∧ (cli s).stderrNonEmpty = true ∧ (cli s).written ≠ .complete :=
  forall_of_core (fun s h => by cases s; rw [cli_norm]; exact h) (by decide +kernel)

/-- The same for the two `Compile` errors of the table (duplicate rule, generated text not Go). -/
theorem C18_compile_error_nonzero :
    ∀ s : Scenario, s.version = false →
      (s.grammar = .duplicateRule ∨ s.grammar = .invalidGo) →
      (cli s).exit ≠ 0 ∧ (cli s).stderrNonEmpty = true ∧ (cli s).written ≠ .complete :=
  forall_of_core (fun s h => by cases s; rw [cli_norm]; exact h) (by decide +kernel)

/-- `-strict` does not matter for any of these errors: the whole outcome is the same. -/
theorem C18_error_strict_irrelevant :
    ∀ s : Scenario,
      (badSource s = true ∨ syntaxBad s = true ∨ badDest s = true ∨
        s.grammar = .duplicateRule ∨ s.grammar = .invalidGo) →
      cli { s with strict := true } = cli { s with strict := false } :=
  forall_of_core
    (fun s h => by
      cases s
      intro hc
      rw [cli_norm { strict := true, .. }, cli_norm { strict := false, .. }]
      exact h hc)
    (by decide +kernel)

/-- Exact characterisation of exit status 0. -/
theorem C18_exit0_iff :
    ∀ s : Scenario, (cli s).exit = 0 ↔
      (s.version = true ∨
        (badSource s = false ∧ badDest s = false ∧
          (s.grammar = .validSilent ∨ (s.grammar = .validWarn ∧ s.strict = false)) ∧
          (s.closeFails = false ∨ opensFile s = false))) :=
  forall_of_core (fun s h => by cases s; rw [cli_norm]; exact h) (by decide +kernel)

/-- Exit status 2 (panic in `closeAll`) needs a failing `Close`. -/
theorem C18_exit_le_one_of_close_ok :
    ∀ s : Scenario, s.closeFails = false → (cli s).exit ≤ 1 :=
  forall_of_core (fun s h => by cases s; rw [cli_norm]; exact h) (by decide +kernel)

theorem C18_stderr_of_nonzero :
    ∀ s : Scenario, (cli s).exit ≠ 0 → (cli s).stderrNonEmpty = true :=
  forall_of_core (fun s h => by cases s; rw [cli_norm]; exact h) (by decide +kernel)

/-! ### -inline / -switch / -noast do not influence the outcome -/

theorem C18_flags_irrelevant :
    ∀ (s : Scenario) (i sw na : Bool),
      cli { s with inline := i, switch := sw, noast := na } = cli s := by
  intro s i sw na
  rw [cli_norm, cli_norm s]
  cases s; rfl

/-! ### warnings -/

theorem C18_strict_warning :
    ∀ s : Scenario, s.version = false → s.grammar = .validWarn → s.strict = true →
      (cli s).exit ≠ 0 ∧ (cli s).stderrNonEmpty = true ∧ (cli s).written ≠ .complete :=
  forall_of_core (fun s h => by cases s; rw [cli_norm]; exact h) (by decide +kernel)

/-- Without -strict a warned grammar behaves like a silent one plus a message.  The hypotheses
    "source readable, destination writable, Close works" are the environment being sane; -/
theorem C18_nonstrict_warning :
    ∀ s : Scenario, s.version = false → s.grammar = .validWarn → s.strict = false →
      badSource s = false → badDest s = false → s.closeFails = false →
      (cli s).exit = 0 ∧ (cli s).stderrNonEmpty = true ∧
      (cli s).destination = some (requested s) ∧ (cli s).written = .complete :=
  forall_of_core (fun s h => by cases s; rw [cli_norm]; exact h) (by decide +kernel)

/-- A silent grammar in a sane environment: exit 0 and nothing on standard error. -/
theorem C18_silent_ok :
    ∀ s : Scenario, s.version = false → s.grammar = .validSilent →
      badSource s = false → badDest s = false → s.closeFails = false →
      (cli s).exit = 0 ∧ ((s.dump = false ∨ requested s ≠ .stdout) → (cli s).stderrNonEmpty = false) ∧
      (cli s).destination = some (requested s) ∧ (cli s).written = .complete :=
  forall_of_core (fun s h => by cases s; rw [cli_norm]; exact h) (by decide +kernel)

/-! ### bookkeeping -/

/-- `destination = none` exactly when nothing was written. -/
theorem C18_destination_none_iff :
    ∀ s : Scenario, (cli s).destination = none ↔ (cli s).written = .nothing :=
  forall_of_core (fun s h => by cases s; rw [cli_norm]; exact h) (by decide +kernel)

end PegVerif.Cli

open PegVerif.Cli in
#print axioms C18_exit0_complete
open PegVerif.Cli in
#print axioms C18_exit0_incomplete_iff
open PegVerif.Cli in
#print axioms C18_exit0_destination
open PegVerif.Cli in
#print axioms C18_error_nonzero
open PegVerif.Cli in
#print axioms C18_compile_error_nonzero
open PegVerif.Cli in
#print axioms C18_error_strict_irrelevant
open PegVerif.Cli in
#print axioms C18_exit0_iff
open PegVerif.Cli in
#print axioms C18_exit_le_one_of_close_ok
open PegVerif.Cli in
#print axioms C18_stderr_of_nonzero
open PegVerif.Cli in
#print axioms C18_flags_irrelevant
open PegVerif.Cli in
#print axioms C18_strict_warning
open PegVerif.Cli in
#print axioms C18_nonstrict_warning
open PegVerif.Cli in
#print axioms C18_silent_ok
open PegVerif.Cli in
#print axioms C18_destination_none_iff
